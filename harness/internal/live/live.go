// Package live runs input through a real terminfo screen (fake tty, the
// library's real input and main goroutines) - as opposed to the synchronous
// parser hook - so that the read/queue pipeline itself is part of the check.
package live

import (
	"fmt"
	"os"
	"strings"
	"time"
	"verifharness/internal/pbt"

	"github.com/gdamore/tcell/v2"
	"github.com/gdamore/tcell/v2/terminfo"

	"verifharness/internal/faketty"
	"verifharness/internal/inref"
)

// RunReads feeds each element of reads as the result of one tty Read. With
// deferPoll the application does not poll until the pipeline has taken all it
// can (both internal queues full, the loops parked), then drains everything.
// It returns the input-derived events (resize/error events are dropped).
func RunReads(ti *terminfo.Terminfo, charset string, reads [][]byte, deferPoll bool, want int) ([]inref.Ev, error) {
	return RunReadsLocale(ti, "en_US."+charset, reads, deferPoll, want)
}

// RunReadsLocale is RunReads with the full locale name (language[.codeset][@modifier])
// that the screen finds in LC_ALL.
func RunReadsLocale(ti *terminfo.Terminfo, locale string, reads [][]byte, deferPoll bool, want int) ([]inref.Ev, error) {
	if rest, ok := strings.CutPrefix(locale, "LANG:"); ok {
		// LC_ALL present but empty (POSIX: as if unset), the charset comes from LANG
		os.Setenv("LC_ALL", "")
		os.Unsetenv("LC_CTYPE")
		os.Setenv("LANG", rest)
		defer os.Unsetenv("LANG")
	} else {
		os.Setenv("LC_ALL", locale)
	}
	cp := *ti
	cp.PadChar = ""
	tty := faketty.New(100, 100)
	s, err := tcell.NewTerminfoScreenFromTtyTerminfo(tty, &cp)
	if err != nil {
		return nil, fmt.Errorf("harness: %v", err)
	}
	if err := s.Init(); err != nil {
		return nil, fmt.Errorf("harness: Init: %v", err)
	}
	defer func() {
		done := make(chan struct{})
		go func() { s.Fini(); close(done) }()
		select {
		case <-done:
		case <-pbt.After(10 * time.Second):
		}
	}()
	for s.HasPendingEvent() {
		s.PollEvent()
	}
	var got []inref.Ev
	take := func() {
		for s.HasPendingEvent() {
			ev := s.PollEvent()
			switch ev.(type) {
			case *tcell.EventResize, *tcell.EventError, nil:
			default:
				got = append(got, inref.From(ev))
			}
		}
	}
	for _, r := range reads {
		tty.Feed(r)
		if !deferPoll {
			take()
		}
	}
	if deferPoll {
		// wait until the pipeline stops taking reads
		last, same := -1, 0
		for i := 0; i < 4000 && same < 10; i++ {
			q := tty.QueuedInput()
			if q == 0 {
				break
			}
			if q == last {
				same++
			} else {
				same, last = 0, q
			}
			time.Sleep(500 * time.Microsecond)
		}
	}
	idle := 0
	deadline := time.Now().Add(pbt.Scaled(20 * time.Second))
	idleMax := int(pbt.Scaled(1500*time.Millisecond) / time.Millisecond)
	for len(got) < want && idle < idleMax && time.Now().Before(deadline) {
		n := len(got)
		take()
		if len(got) == n {
			idle++
			time.Sleep(time.Millisecond)
		} else {
			idle = 0
		}
	}
	// stragglers (duplicates would show up here)
	time.Sleep(5 * time.Millisecond)
	take()
	return got, nil
}

// SplitUnderBackpressure plays three reads through a real screen while the
// application does not poll: r1 ends inside an escape sequence (the escape timer
// is armed), r2 follows at once, completes it, produces more events than the
// event queue holds (the main loop parks on the full queue for longer than the
// timer) and itself ends inside another sequence, r3 completes that one and has
// been read too before the application starts polling, 130 ms later. No escape
// timeout lies between the arrival of any two reads. usable=false: the machine
// was too slow for the three reads to arrive within 25 ms (nothing can be said).
func SplitUnderBackpressure(ti *terminfo.Terminfo, r1, r2, r3 []byte, want int) (got []inref.Ev, usable bool, err error) {
	os.Setenv("LC_ALL", "en_US.UTF-8")
	cp := *ti
	cp.PadChar = ""
	tty := faketty.New(80, 24)
	s, err := tcell.NewTerminfoScreenFromTtyTerminfo(tty, &cp)
	if err != nil {
		return nil, false, fmt.Errorf("harness: %v", err)
	}
	if err := s.Init(); err != nil {
		return nil, false, fmt.Errorf("harness: %v", err)
	}
	defer s.Fini()
	s.EnableMouse()
	for s.HasPendingEvent() {
		s.PollEvent()
	}
	readBegins := func() int {
		n := 0
		for _, l := range tty.Log() {
			if l.Name == "ReadBegin" {
				n++
			}
		}
		return n
	}
	waitReads := func(n int, d time.Duration) bool {
		deadline := time.Now().Add(d)
		for time.Now().Before(deadline) {
			if tty.QueuedInput() == 0 && readBegins() >= n {
				return true
			}
			time.Sleep(50 * time.Microsecond)
		}
		return false
	}
	base := readBegins()
	t0 := time.Now()
	tty.Feed(r1)
	if !waitReads(base+1, 25*time.Millisecond) {
		return nil, false, nil
	}
	tty.Feed(r2)
	tty.Feed(r3)
	if !waitReads(base+3, 25*time.Millisecond) || time.Since(t0) > 25*time.Millisecond {
		return nil, false, nil
	}
	// the application is busy for longer than the escape timeout
	time.Sleep(130 * time.Millisecond)
	take := func() {
		for s.HasPendingEvent() {
			ev := s.PollEvent()
			switch ev.(type) {
			case *tcell.EventResize, *tcell.EventError:
			default:
				got = append(got, inref.From(ev))
			}
		}
	}
	deadline := time.Now().Add(pbt.Scaled(2 * time.Second))
	for len(got) < want && time.Now().Before(deadline) {
		take()
		time.Sleep(200 * time.Microsecond)
	}
	time.Sleep(70 * time.Millisecond) // whatever the escape timer still flushes
	take()
	return got, true, nil
}
