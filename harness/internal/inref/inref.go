// Package inref holds the reference decoders for the input side (xterm mouse
// protocol, xterm modifier parameters) and a comparable, serialisable form of
// tcell events.
package inref

import (
	"fmt"
	"strconv"
	"strings"

	"github.com/gdamore/tcell/v2"
)

// Ev is a comparable rendering of a tcell event.
type Ev struct {
	Kind  string `json:"kind"` // key mouse paste focus clipboard resize error other
	Key   int    `json:"key,omitempty"`
	Rune  rune   `json:"rune,omitempty"`
	Mod   int    `json:"mod,omitempty"`
	X     int    `json:"x,omitempty"`
	Y     int    `json:"y,omitempty"`
	Btn   int    `json:"btn,omitempty"`
	Start bool   `json:"start,omitempty"`
	Focus bool   `json:"focus,omitempty"`
	Data  string `json:"data,omitempty"`
}

func (e Ev) String() string {
	switch e.Kind {
	case "key":
		if tcell.Key(e.Key) == tcell.KeyRune {
			return fmt.Sprintf("Rune(%q,mod=%d)", e.Rune, e.Mod)
		}
		return fmt.Sprintf("Key(%s/%d,rune=%q,mod=%d)", tcell.KeyNames[tcell.Key(e.Key)], e.Key, e.Rune, e.Mod)
	case "mouse":
		return fmt.Sprintf("Mouse(%d,%d,btn=%#x,mod=%d)", e.X, e.Y, e.Btn, e.Mod)
	case "paste":
		return fmt.Sprintf("Paste(start=%v)", e.Start)
	case "focus":
		return fmt.Sprintf("Focus(%v)", e.Focus)
	case "clipboard":
		return fmt.Sprintf("Clipboard(%q)", e.Data)
	}
	return e.Kind
}

// From converts one event.
func From(ev tcell.Event) Ev {
	switch e := ev.(type) {
	case *tcell.EventKey:
		return Ev{Kind: "key", Key: int(e.Key()), Rune: e.Rune(), Mod: int(e.Modifiers())}
	case *tcell.EventMouse:
		x, y := e.Position()
		return Ev{Kind: "mouse", X: x, Y: y, Btn: int(e.Buttons()), Mod: int(e.Modifiers())}
	case *tcell.EventPaste:
		return Ev{Kind: "paste", Start: e.Start()}
	case *tcell.EventFocus:
		return Ev{Kind: "focus", Focus: e.Focused}
	case *tcell.EventClipboard:
		return Ev{Kind: "clipboard", Data: string(e.Data())}
	case *tcell.EventResize:
		w, h := e.Size()
		return Ev{Kind: "resize", X: w, Y: h}
	case *tcell.EventError:
		return Ev{Kind: "error", Data: e.Error()}
	case nil:
		return Ev{Kind: "nil"}
	}
	return Ev{Kind: fmt.Sprintf("other:%T", ev)}
}

// FromAll converts a slice.
func FromAll(evs []tcell.Event) []Ev {
	out := make([]Ev, len(evs))
	for i, e := range evs {
		out[i] = From(e)
	}
	return out
}

// Equal compares two event lists.
func Equal(a, b []Ev) bool {
	if len(a) != len(b) {
		return false
	}
	for i := range a {
		if a[i] != b[i] {
			return false
		}
	}
	return true
}

// Show renders a list.
func Show(evs []Ev) string {
	var parts []string
	for _, e := range evs {
		parts = append(parts, e.String())
	}
	return "[" + strings.Join(parts, " ") + "]"
}

// ---------------------------------------------------------------- mouse

// MouseReport is one xterm mouse report in abstract form.
type MouseReport struct {
	SGR     bool `json:"sgr"`      // SGR 1006 form, else legacy X11
	EightBit bool `json:"eightbit"` // 0x9b introducer instead of ESC [
	Cb      int  `json:"cb"`       // button code as xterm defines it (before the +32 of the X11 form)
	Cx      int  `json:"cx"`       // 1-based column as reported
	Cy      int  `json:"cy"`
	Release bool `json:"release"`  // SGR final 'm'
}

// Bytes encodes the report.
func (m MouseReport) Bytes() []byte {
	intro := "\x1b["
	if m.EightBit {
		intro = "\x9b"
	}
	if m.SGR {
		fin := "M"
		if m.Release {
			fin = "m"
		}
		return []byte(intro + "<" + strconv.Itoa(m.Cb) + ";" + strconv.Itoa(m.Cx) + ";" + strconv.Itoa(m.Cy) + fin)
	}
	return append([]byte(intro+"M"), byte(m.Cb+32), byte(m.Cx+32), byte(m.Cy+32))
}

// MouseState is the press/drag/release state of the reference decoder.
type MouseState struct {
	Held    bool
	Unknown bool // whether a button is held is not defined by the history so far
}

// Expect is what the statement fixes about the decoded event.
type Expect struct {
	X, Y       int
	Mod        tcell.ModMask
	Buttons    tcell.ButtonMask
	ButtonsSet bool // false: the statement does not fix the button mask for this code
}

func clip(v, n int) int {
	if v < 0 {
		return 0
	}
	if v > n-1 {
		return n - 1
	}
	return v
}

// Decode applies the reference semantics: position = reported-1 clipped into
// the screen; buttons for codes 0/1/2 -> primary/middle/secondary (tcell:
// Button1/Button3/Button2), 64/65 -> wheel up/down, 3 -> none; Shift/Alt/Ctrl
// from bits 4/8/16; release and motion with nothing held -> no buttons; motion
// while held keeps the button.
func (s *MouseState) Decode(m MouseReport, w, h int) Expect {
	e := Expect{X: clip(m.Cx-1, w), Y: clip(m.Cy-1, h)}
	if m.Cb&4 != 0 {
		e.Mod |= tcell.ModShift
	}
	if m.Cb&8 != 0 {
		e.Mod |= tcell.ModAlt
	}
	if m.Cb&16 != 0 {
		e.Mod |= tcell.ModCtrl
	}
	motion := m.Cb&32 != 0
	code := m.Cb &^ (4 | 8 | 16 | 32)
	var btn tcell.ButtonMask
	known := true
	switch code {
	case 0:
		btn = tcell.Button1
	case 1:
		btn = tcell.Button3
	case 2:
		btn = tcell.Button2
	case 3:
		btn = tcell.ButtonNone
	case 64:
		btn = tcell.WheelUp
	case 65:
		btn = tcell.WheelDown
	default:
		known = false // wheel left/right, buttons 8-11: outside the statement's list
	}
	e.ButtonsSet = known
	isWheel := code >= 64 && code < 128
	switch {
	case m.SGR && m.Release:
		e.Buttons, e.ButtonsSet = tcell.ButtonNone, true
		s.Held, s.Unknown = false, false
	case motion:
		if isWheel {
			e.ButtonsSet = false // wheel with the motion bit: not defined by xterm
		} else if m.SGR {
			if s.Unknown {
				e.ButtonsSet = false
			} else if !s.Held {
				e.Buttons, e.ButtonsSet = tcell.ButtonNone, true
			} else {
				e.Buttons = btn
			}
		} else {
			// legacy form: the report itself says which button (3 = none)
			e.Buttons = btn
		}
	default:
		e.Buttons = btn
		if known && !isWheel {
			if code == 3 {
				// a non-motion report with code 3: the X10-style release in the
				// legacy form; in the SGR form xterm never sends it, so whether
				// anything is held afterwards is not defined
				s.Held = false
				s.Unknown = m.SGR
			} else {
				s.Held, s.Unknown = true, false
			}
		}
		if !known {
			// an unlisted button press may or may not count as "held"
			s.Held, s.Unknown = true, true
		}
	}
	return e
}

// ---------------------------------------------------------------- xterm modifiers

// XtermMod maps the xterm modifier parameter (2..16) to the modifier set.
func XtermMod(p int) tcell.ModMask {
	v := p - 1
	var m tcell.ModMask
	if v&1 != 0 {
		m |= tcell.ModShift
	}
	if v&2 != 0 {
		m |= tcell.ModAlt
	}
	if v&4 != 0 {
		m |= tcell.ModCtrl
	}
	if v&8 != 0 {
		m |= tcell.ModMeta
	}
	return m
}
