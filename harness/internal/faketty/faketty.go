// Package faketty is a scriptable tcell.Tty obeying the contract documented in
// tty.go: Read blocks until scripted data, an injected error, or Drain; Drain
// wakes the reader (reads fail with a deadline error until the next Start);
// NotifyResize stores the callback; every call is logged with a sequence number.
package faketty

import (
	"errors"
	"os"
	"sync"
	"time"

	"github.com/gdamore/tcell/v2"
)

// Call is one logged Tty call.
type Call struct {
	Seq  int
	Name string // Start Stop Drain Close NotifyResize NotifyResize(nil) ReadBegin ReadEnd Write WindowSize
	N    int    // byte count for ReadEnd / Write
	Err  bool
}

// Tty is the fake.
type Tty struct {
	mu   sync.Mutex
	cond *sync.Cond

	w, h int

	readQ    [][]byte
	readErrs []error // injected: the next Read returns this error
	drained  bool
	started  bool
	closed   bool

	cb func()

	log  []Call
	seq  int
	Sink func(b []byte) // called (under the tty lock) for every Write, in order

	blocks [][]byte
	// LogWindowSize: also log WindowSize calls
	LogWindowSize bool
	// MaxRead limits bytes returned per Read (0 = as much as fits)
	MaxRead int
	// StartErr is returned by Start when set.
	StartErr error
	// ReadGate, when set, is called at the start of every Read (outside the lock).
	ReadGate func()
	// ErrWithData: an injected read error is returned together with the queued
	// chunk in front of it (n > 0 and err != nil, which io.Reader allows)
	ErrWithData bool
	// failWrite >= 0: the next Write accepts only that many bytes and fails
	failWrite int
	// IdleZeroRead > 0: a Read that finds no input does not block but returns
	// (0, nil) after this long - a polling tty, which io.Reader permits.
	IdleZeroRead time.Duration
}

// ErrInjected is the default injected read error.
var ErrInjected = errors.New("injected tty read error")

// New creates a fake tty of the given size.
func New(w, h int) *Tty {
	t := &Tty{w: w, h: h, failWrite: -1}
	t.cond = sync.NewCond(&t.mu)
	return t
}

func (t *Tty) logCall(name string, n int, err bool) {
	t.seq++
	t.log = append(t.log, Call{Seq: t.seq, Name: name, N: n, Err: err})
}

func (t *Tty) Start() error {
	t.mu.Lock()
	defer t.mu.Unlock()
	t.logCall("Start", 0, t.StartErr != nil)
	if t.StartErr != nil {
		return t.StartErr
	}
	t.started = true
	t.drained = false
	return nil
}

func (t *Tty) Stop() error {
	t.mu.Lock()
	defer t.mu.Unlock()
	t.logCall("Stop", 0, false)
	t.started = false
	t.drained = true
	t.cond.Broadcast()
	return nil
}

func (t *Tty) Drain() error {
	t.mu.Lock()
	defer t.mu.Unlock()
	t.logCall("Drain", 0, false)
	t.drained = true
	t.cond.Broadcast()
	return nil
}

func (t *Tty) Close() error {
	t.mu.Lock()
	defer t.mu.Unlock()
	t.logCall("Close", 0, false)
	t.closed = true
	t.drained = true
	t.cond.Broadcast()
	return nil
}

func (t *Tty) NotifyResize(cb func()) {
	t.mu.Lock()
	defer t.mu.Unlock()
	if cb == nil {
		t.logCall("NotifyResize(nil)", 0, false)
	} else {
		t.logCall("NotifyResize", 0, false)
	}
	t.cb = cb
}

func (t *Tty) WindowSize() (tcell.WindowSize, error) {
	t.mu.Lock()
	defer t.mu.Unlock()
	if t.LogWindowSize {
		t.logCall("WindowSize", 0, false)
	}
	return tcell.WindowSize{Width: t.w, Height: t.h}, nil
}

func (t *Tty) Read(p []byte) (int, error) {
	if g := t.ReadGate; g != nil {
		g()
	}
	t.mu.Lock()
	defer t.mu.Unlock()
	t.logCall("ReadBegin", 0, false)
	for {
		if len(t.readErrs) > 0 && len(t.readQ) == 0 {
			err := t.readErrs[0]
			t.readErrs = t.readErrs[1:]
			t.logCall("ReadEnd", 0, true)
			return 0, err
		}
		if t.ErrWithData && len(t.readQ) == 1 && len(t.readErrs) > 0 {
			chunk := t.readQ[0]
			n := copy(p, chunk)
			t.readQ = t.readQ[1:]
			err := t.readErrs[0]
			t.readErrs = t.readErrs[1:]
			t.logCall("ReadEnd", n, true)
			t.cond.Broadcast()
			return n, err
		}
		if len(t.readQ) > 0 {
			chunk := t.readQ[0]
			max := len(p)
			if t.MaxRead > 0 && t.MaxRead < max {
				max = t.MaxRead
			}
			n := copy(p[:max], chunk)
			if n < len(chunk) {
				t.readQ[0] = chunk[n:]
			} else {
				t.readQ = t.readQ[1:]
			}
			t.logCall("ReadEnd", n, false)
			t.cond.Broadcast()
			return n, nil
		}
		if t.drained || t.closed {
			t.logCall("ReadEnd", 0, true)
			return 0, os.ErrDeadlineExceeded
		}
		if t.IdleZeroRead > 0 {
			d := t.IdleZeroRead
			t.mu.Unlock()
			time.Sleep(d)
			t.mu.Lock()
			if len(t.readQ) == 0 && len(t.readErrs) == 0 && !t.drained && !t.closed {
				t.logCall("ReadEnd", 0, false)
				return 0, nil
			}
			continue
		}
		t.cond.Wait()
	}
}

// SetStartErr makes Start fail with err (nil: succeed again).
func (t *Tty) SetStartErr(err error) {
	t.mu.Lock()
	t.StartErr = err
	t.mu.Unlock()
}

// ErrWrite is what a faulted Write returns.
var ErrWrite = errors.New("injected tty write error")

// FailNextWrite makes the next Write accept only n bytes (clamped to its
// length) and return an error, as a tty may (EAGAIN, EINTR, EIO).
func (t *Tty) FailNextWrite(n int) {
	t.mu.Lock()
	t.failWrite = n
	t.mu.Unlock()
}

func (t *Tty) Write(p []byte) (int, error) {
	t.mu.Lock()
	defer t.mu.Unlock()
	if t.failWrite >= 0 {
		n := t.failWrite
		t.failWrite = -1
		if n > len(p) {
			n = len(p)
		}
		t.logCall("Write", n, true)
		b := append([]byte{}, p[:n]...)
		t.blocks = append(t.blocks, b)
		if t.Sink != nil {
			t.Sink(b)
		}
		return n, ErrWrite
	}
	t.logCall("Write", len(p), false)
	b := append([]byte{}, p...)
	t.blocks = append(t.blocks, b)
	if t.Sink != nil {
		t.Sink(b)
	}
	return len(p), nil
}

// ---- scripting side

// Feed queues input bytes for Read (one chunk = at most one Read result).
func (t *Tty) Feed(b []byte) {
	t.mu.Lock()
	t.readQ = append(t.readQ, append([]byte{}, b...))
	t.cond.Broadcast()
	t.mu.Unlock()
}

// InjectReadError makes a Read (after queued data is consumed) fail.
func (t *Tty) InjectReadError(err error) {
	t.mu.Lock()
	t.readErrs = append(t.readErrs, err)
	t.cond.Broadcast()
	t.mu.Unlock()
}

// WaitConsumed blocks until all queued input was handed to Read.
func (t *Tty) WaitConsumed() {
	t.mu.Lock()
	for len(t.readQ) > 0 && !t.drained && !t.closed {
		t.cond.Wait()
	}
	t.mu.Unlock()
}

// QueuedInput returns the number of chunks not yet read.
func (t *Tty) QueuedInput() int {
	t.mu.Lock()
	defer t.mu.Unlock()
	return len(t.readQ)
}

// SetSize changes what WindowSize reports; notify additionally invokes the
// registered resize callback (outside the lock) if there is one.
func (t *Tty) SetSize(w, h int, notify bool) bool {
	t.mu.Lock()
	t.w, t.h = w, h
	cb := t.cb
	t.mu.Unlock()
	if notify && cb != nil {
		cb()
		return true
	}
	return false
}

// Notify invokes the resize callback if registered.
func (t *Tty) Notify() bool {
	t.mu.Lock()
	cb := t.cb
	t.mu.Unlock()
	if cb != nil {
		cb()
		return true
	}
	return false
}

// Log returns a copy of the call log.
func (t *Tty) Log() []Call {
	t.mu.Lock()
	defer t.mu.Unlock()
	return append([]Call{}, t.log...)
}

// TakeBlocks returns the write blocks since the last call.
func (t *Tty) TakeBlocks() [][]byte {
	t.mu.Lock()
	defer t.mu.Unlock()
	b := t.blocks
	t.blocks = nil
	return b
}

// HasCallback reports whether a resize callback is registered.
func (t *Tty) HasCallback() bool {
	t.mu.Lock()
	defer t.mu.Unlock()
	return t.cb != nil
}
