// Package gen holds generators and serialisable specs shared by the property
// packages: rune classes, colours and styles (built only through tcell's
// public builders).
package gen

import (
	"fmt"
	"strconv"

	"github.com/gdamore/tcell/v2"
	"pgregory.net/rapid"
)

// ColorSpec is a serialisable colour: "" (default), "none", "reset",
// "p<index>" (palette) or "#rrggbb".
type ColorSpec string

// Pal and RGB build specs.
func Pal(i int) ColorSpec { return ColorSpec("p" + strconv.Itoa(i)) }
func RGB(v int) ColorSpec { return ColorSpec(fmt.Sprintf("#%06x", v&0xffffff)) }

// Kind is default, none, reset, palette or rgb.
func (c ColorSpec) Kind() string {
	switch {
	case c == "":
		return "default"
	case c == "none" || c == "reset":
		return string(c)
	case c[0] == 'p':
		return "palette"
	case c[0] == '#':
		return "rgb"
	}
	return "default"
}

// N is the palette index or the 24-bit value.
func (c ColorSpec) N() int {
	switch c.Kind() {
	case "palette":
		n, _ := strconv.Atoi(string(c[1:]))
		return n
	case "rgb":
		n, _ := strconv.ParseInt(string(c[1:]), 16, 32)
		return int(n)
	}
	return 0
}

// Color converts the spec with tcell's public constructors.
func (c ColorSpec) Color() tcell.Color {
	switch c.Kind() {
	case "none":
		return tcell.ColorNone
	case "reset":
		return tcell.ColorReset
	case "palette":
		return tcell.PaletteColor(c.N())
	case "rgb":
		return tcell.NewHexColor(int32(c.N()))
	}
	return tcell.ColorDefault
}

// StyleSpec is a serialisable style.
type StyleSpec struct {
	Fg      ColorSpec `json:"fg,omitempty"`
	Bg      ColorSpec `json:"bg,omitempty"`
	Bold    bool      `json:"bold,omitempty"`
	Blink   bool      `json:"blink,omitempty"`
	Reverse bool      `json:"rev,omitempty"`
	Dim     bool      `json:"dim,omitempty"`
	Italic  bool      `json:"ital,omitempty"`
	Strike  bool      `json:"strike,omitempty"`
	Ul      int       `json:"ul,omitempty"` // tcell.UnderlineStyle value 0..5
	UlColor ColorSpec `json:"ulc,omitempty"`
	Url     string    `json:"url,omitempty"`
	UrlID   string    `json:"urlid,omitempty"`
	// UlOnly: the underline attribute bit is cleared again through Attributes() after Underline();
	// the style keeps its underline style and colour (set only by generators that ask for it)
	UlOnly bool `json:"ul_only,omitempty"`
}

// IsDefault reports whether the spec builds tcell.StyleDefault.
func (s StyleSpec) IsDefault() bool {
	return s.Style() == tcell.StyleDefault
}

var specs = map[tcell.Style]StyleSpec{tcell.StyleDefault: {}}

// SpecOf returns the spec a style value was built from (styles are opaque:
// tcell has no accessors for underline and hyperlink parts).
func SpecOf(st tcell.Style) (StyleSpec, bool) {
	sp, ok := specs[st]
	return sp, ok
}

// MergeNone computes the spec of "n stored over old" under the ColorNone rule
// and registers the resulting style value.
func MergeNone(n, old StyleSpec) StyleSpec {
	m := n
	if m.Fg == "none" {
		m.Fg = old.Fg
	}
	if m.Bg == "none" {
		m.Bg = old.Bg
	}
	st := n.build()
	if n.Fg == "none" {
		st = st.Foreground(old.Fg.Color())
	}
	if n.Bg == "none" {
		st = st.Background(old.Bg.Color())
	}
	specs[st] = m
	return m
}

// Style builds the tcell.Style through the public builder methods only and
// remembers which spec it came from.
func (s StyleSpec) Style() tcell.Style {
	st := s.build()
	specs[st] = s
	return st
}

func (s StyleSpec) build() tcell.Style {
	st := tcell.StyleDefault
	if s.Fg != "" {
		st = st.Foreground(s.Fg.Color())
	}
	if s.Bg != "" {
		st = st.Background(s.Bg.Color())
	}
	if s.Bold {
		st = st.Bold(true)
	}
	if s.Blink {
		st = st.Blink(true)
	}
	if s.Reverse {
		st = st.Reverse(true)
	}
	if s.Dim {
		st = st.Dim(true)
	}
	if s.Italic {
		st = st.Italic(true)
	}
	if s.Strike {
		st = st.StrikeThrough(true)
	}
	if s.Ul != 0 {
		st = st.Underline(tcell.UnderlineStyle(s.Ul))
	}
	if s.UlColor != "" {
		st = st.Underline(s.UlColor.Color())
	}
	if s.Url != "" {
		st = st.Url(s.Url)
	}
	if s.UrlID != "" {
		st = st.UrlId(s.UrlID)
	}
	if s.UlOnly {
		_, _, a := st.Decompose()
		st = st.Attributes(a &^ tcell.AttrUnderline)
	}
	return st
}

// Color draws a colour. special enables ColorNone / ColorReset.
func Color(t *rapid.T, label string, special bool) ColorSpec {
	k := rapid.IntRange(0, 11).Draw(t, label+"-kind")
	switch {
	case k <= 1:
		return ColorSpec("")
	case k <= 3:
		return Pal(rapid.IntRange(0, 15).Draw(t, label+"-idx"))
	case k <= 5:
		return Pal(rapid.IntRange(0, 255).Draw(t, label+"-idx"))
	case k <= 8:
		// arbitrary RGB, with corner values over-represented
		ch := func(n string) int {
			return rapid.OneOf(rapid.IntRange(0, 255), rapid.SampledFrom([]int{0, 1, 95, 127, 128, 135, 254, 255})).Draw(t, label+n)
		}
		return RGB(ch("-r")<<16 | ch("-g")<<8 | ch("-b"))
	case k == 9:
		if special {
			return ColorSpec("none")
		}
		return ColorSpec("")
	case k == 10:
		if special {
			return ColorSpec("reset")
		}
		return Pal(rapid.IntRange(0, 7).Draw(t, label+"-idx"))
	}
	return RGB(rapid.SampledFrom([]int{0x000000, 0xffffff, 0xff0000, 0x00ff00, 0x0000ff, 0x808080, 0x5f87af}).Draw(t, label+"-named"))
}

var urlAlphabet = []rune("abcdefghijklmnopqrstuvwxyz0123456789-._~/")

// Style draws a style. opts: special colours allowed, urls allowed.
func Style(t *rapid.T, label string, special, urls bool) StyleSpec {
	if rapid.IntRange(0, 5).Draw(t, label+"-plain") == 0 {
		return StyleSpec{}
	}
	s := StyleSpec{}
	s.Fg = Color(t, label+"-fg", special)
	s.Bg = Color(t, label+"-bg", special)
	bits := rapid.IntRange(0, 63).Draw(t, label+"-attrs")
	if rapid.Bool().Draw(t, label+"-fewattrs") {
		bits &= rapid.IntRange(0, 63).Draw(t, label+"-attrmask")
	}
	s.Bold = bits&1 != 0
	s.Blink = bits&2 != 0
	s.Reverse = bits&4 != 0
	s.Dim = bits&8 != 0
	s.Italic = bits&16 != 0
	s.Strike = bits&32 != 0
	if rapid.IntRange(0, 2).Draw(t, label+"-hasul") == 0 {
		s.Ul = rapid.IntRange(1, 5).Draw(t, label+"-ul")
		if rapid.Bool().Draw(t, label+"-hasulc") {
			s.UlColor = Color(t, label+"-ulc", special)
			if s.UlColor == "none" {
				s.UlColor = ColorSpec("")
			}
		}
	}
	if urls && rapid.IntRange(0, 4).Draw(t, label+"-hasurl") == 0 {
		s.Url = "http://" + string(rapid.SliceOfN(rapid.SampledFrom(urlAlphabet), 1, 6).Draw(t, label+"-url"))
		if rapid.Bool().Draw(t, label+"-hasid") {
			s.UrlID = string(rapid.SliceOfN(rapid.SampledFrom(urlAlphabet[:36]), 1, 4).Draw(t, label+"-urlid"))
		}
	}
	return s
}

// Rune class names.
const (
	RcASCII    = "ascii"
	RcNarrow   = "narrow"
	RcWide     = "wide"
	RcControl  = "control"
	RcZero     = "zerowidth"
	RcInvalid  = "invalid"
	RcSpace    = "space"
	RcAstral   = "astral"
	RcBoxDraw  = "acs"
	RcC1       = "c1"
	RcFormat12 = "format-width1"
)

var (
	narrowRunes = []rune{'é', 'ß', 'Ω', 'Ж', 'א', '€', '→', '‰', 'ñ', 'ø', 'ł', 'Ѣ', '♥', '√'}
	wideRunes   = []rune{'世', '界', '日', '本', '語', '한', '글', 'あ', 'ア', '！', 'Ａ', '😀', '🚀', '🎉', '㈱'}
	zeroRunes   = []rune{0x0300, 0x0301, 0x0308, 0x200B, 0x200C, 0x200D, 0x200E, 0x200F, 0x202A, 0x202E, 0xFEFF, 0x00AD, 0xFE0F, 0x20DD, 0x0483}
	combMarks   = []rune{0x0300, 0x0301, 0x0302, 0x0303, 0x0308, 0x030A, 0x0327, 0x20D7, 0x0483, 0x20DD, 0x0489} // all width 0 in go-runewidth 0.0.16
	invalidVals = []rune{-1, -2, -128, -0x7fffffff, 0x110000, 0x110001, 0x7fffffff, 0xD800, 0xDBFF, 0xDC00, 0xDFFF, 0xFFFE, 0xFFFF}
	acsRunes    = []rune{tcell.RuneHLine, tcell.RuneVLine, tcell.RuneULCorner, tcell.RuneLRCorner, tcell.RuneBlock, tcell.RuneDegree, tcell.RunePi, tcell.RuneBullet, tcell.RuneDiamond, tcell.RuneRArrow, tcell.RuneUArrow}
	astralRunes = []rune{0x1D11E, 0x10348, 0x1F600, 0x2070E, 0xE0041, 0x10FFFF, 0x1F3F4}
)

// CombMarks is the list of zero-width non-control combining marks used for
// combining lists (the precondition the C01/C09 statements give).
func CombMarks() []rune { return combMarks }

// Rune draws a primary-content rune from weighted classes. hostile shifts the
// weights towards control / invalid / zero-width classes.
func Rune(t *rapid.T, label string, hostile bool) rune {
	k := rapid.IntRange(0, 19).Draw(t, label+"-class")
	if hostile && k < 10 {
		k = 10 + k%10
	}
	switch {
	case k <= 5:
		return rune(rapid.IntRange(0x20, 0x7e).Draw(t, label))
	case k <= 7:
		return rapid.SampledFrom(narrowRunes).Draw(t, label)
	case k <= 10:
		return rapid.SampledFrom(wideRunes).Draw(t, label)
	case k == 11:
		return rapid.SampledFrom(acsRunes).Draw(t, label)
	case k == 12:
		return rune(rapid.IntRange(0, 0x1f).Draw(t, label))
	case k == 13:
		return rune(rapid.IntRange(0x7f, 0x9f).Draw(t, label))
	case k == 14:
		return rapid.SampledFrom(zeroRunes).Draw(t, label)
	case k == 15:
		return rapid.SampledFrom(invalidVals).Draw(t, label)
	case k == 16:
		return rapid.SampledFrom(astralRunes).Draw(t, label)
	case k == 17:
		return rapid.SampledFrom([]rune{0x1b, 0x9b, 0x07, 0x0a, 0x0d, 0x08, 0x90, 0x9d, 0x7f, 0x00}).Draw(t, label)
	case k == 18:
		return rune(rapid.IntRange(0xA0, 0x2FFFF).Draw(t, label))
	}
	return ' '
}

// Comb draws a combining list (0-3 zero-width non-control marks).
func Comb(t *rapid.T, label string) []rune {
	if rapid.IntRange(0, 3).Draw(t, label+"-has") != 0 {
		return nil
	}
	return rapid.SliceOfN(rapid.SampledFrom(combMarks), 1, 3).Draw(t, label)
}

// FillRune draws a rune acceptable to Fill (documented: no combining, width <= 1).
func FillRune(t *rapid.T, label string, hostile bool) rune {
	k := rapid.IntRange(0, 9).Draw(t, label+"-class")
	if hostile && k < 6 {
		k = 6 + k%4
	}
	switch {
	case k <= 3:
		return rune(rapid.IntRange(0x20, 0x7e).Draw(t, label))
	case k <= 5:
		return rapid.SampledFrom(narrowRunes).Draw(t, label)
	case k == 6:
		return rune(rapid.IntRange(0, 0x1f).Draw(t, label))
	case k == 7:
		return rune(rapid.IntRange(0x7f, 0x9f).Draw(t, label))
	case k == 8:
		return rapid.SampledFrom(invalidVals).Draw(t, label)
	}
	return rapid.SampledFrom(zeroRunes).Draw(t, label)
}
