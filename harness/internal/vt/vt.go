// Package vt is the reference terminal: a strict ECMA-48 / xterm-ctlseqs
// tokenizer and a screen model (grid with wide glyphs and combining marks, pen,
// cursor, DEC private modes, alternate screen, charsets, title stack,
// hyperlinks).  It is written from the standards and knows nothing of tcell;
// it understands exactly what the ECMA-48-family entries of the database and
// tcell's hard-coded xterm strings can legitimately produce, and reports
// everything else as a strict-mode error with the byte offset.
package vt

import (
	"bytes"
	"fmt"
	"regexp"
	"strconv"
	"strings"
	"unicode/utf8"

	runewidth "github.com/mattn/go-runewidth"
	"golang.org/x/text/encoding"
	"golang.org/x/text/transform"
)

// Color kinds.
const (
	ColDefault = 0
	ColPalette = 1
	ColRGB     = 2
)

// Color is a terminal colour register value.
type Color struct {
	Kind uint8
	V    int32
}

func (c Color) String() string {
	switch c.Kind {
	case ColPalette:
		return "p" + strconv.Itoa(int(c.V))
	case ColRGB:
		return fmt.Sprintf("#%06x", c.V)
	}
	return "default"
}

// Pen is the current rendition.
type Pen struct {
	Fg, Bg, UlColor                           Color
	Bold, Dim, Italic, Blink, Reverse, Strike bool
	Ul                                        uint8 // 0 none 1 single 2 double 3 curly 4 dotted 5 dashed
	Link                                      string
	LinkParams                                string
}

// Cell is one character cell.
type Cell struct {
	Base  rune   // 0 = never written / erased (blank)
	Comb  []rune // combining marks
	Width uint8  // 1 or 2; 0 = right half of the wide glyph to the left
	Cont  bool   // right half of the wide glyph in the cell to the left
	Alt   bool   // Base is a byte shown through the alternate character set
	Pen   Pen
	Stamp int // block number of the last write (print) to this cell
}

// Profile selects behaviours that differ between terminal classes.
type Profile struct {
	// ImmediateWrap: printing in the last column wraps at once (no deferred
	// "xenl" wrap); in the bottom-right cell that scrolls the screen.
	ImmediateWrap bool
	// FormFeedClears: FF clears the screen and homes the cursor (sun console).
	FormFeedClears bool
}

// Term is the reference terminal.
type Term struct {
	W, H    int
	Profile Profile

	main, alt []Cell
	AltScreen bool

	X, Y        int
	WrapPending bool
	Pen         Pen
	savedX      int
	savedY      int
	savedPen    Pen

	CursorVisible bool
	CursorStyle   int    // DECSCUSR parameter, 0 = default
	CursorColor   string // "" = default, else the OSC 12 argument
	LinuxCursor   int    // CSI ? n c

	Modes     map[int]bool // DEC private modes
	AnsiModes map[int]bool
	Keypad    bool // application keypad (ESC =)
	G         [2]byte
	Shift     int
	Font      int // SGR 10/11/12

	Title      string
	TitleStack []string
	TitleMode  []int
	Clipboard  []string
	WinSizeReq [][2]int
	Bells      int

	// Quiet: no drawing call is in progress; a printable character arriving now
	// is stray text (e.g. residue of the padding or parameter language)
	Quiet bool

	// bookkeeping for the checks
	Block       int // current block number (see NextBlock)
	Erases      int // erase operations in the current block
	Scrolls     int // scrolls in the current block
	Inserts     int // ICH in the current block
	Printed     int // glyphs printed in the current block
	CtlBytes    int // control bytes in the current block
	Errors      []string
	offset      int // absolute offset of the next byte
	st          int
	seq         []byte
	seqStart    int
	dec         transform.Transformer // nil = UTF-8
	pend        []byte
	rw          *runewidth.Condition
	PayloadHook func(r rune, raw []byte)
	// position of the glyph printed last, while nothing moved the cursor since
	lastX, lastY int
	lastValid    bool
}

const (
	stGround = iota
	stEsc
	stCSI
	stOSC
	stOSCEsc
	stCharset
)

// New creates a terminal. enc == nil means UTF-8.
func New(w, h int, enc encoding.Encoding, p Profile) *Term {
	t := &Term{W: w, H: h, Profile: p}
	t.main = make([]Cell, w*h)
	t.alt = make([]Cell, w*h)
	t.Modes = map[int]bool{7: true, 25: true}
	t.AnsiModes = map[int]bool{}
	t.CursorVisible = true
	t.G = [2]byte{'B', 'B'}
	t.Font = 10
	if enc != nil {
		t.dec = enc.NewDecoder()
	}
	t.rw = runewidth.NewCondition()
	t.rw.EastAsianWidth = false
	return t
}

func (t *Term) cells() []Cell {
	if t.AltScreen {
		return t.alt
	}
	return t.main
}

// At returns the cell at (x,y) of the active screen.
func (t *Term) At(x, y int) *Cell { return &t.cells()[y*t.W+x] }

// NextBlock starts a new accounting block (one Show, one Sync, ...).
func (t *Term) NextBlock() {
	t.Block++
	t.Erases, t.Scrolls, t.Inserts, t.Printed, t.CtlBytes = 0, 0, 0, 0, 0
}

// Resize changes the grid size; the overlapping region keeps its content (the
// checks treat the whole screen as arbitrary afterwards anyway).
func (t *Term) Resize(w, h int) {
	for _, g := range []*[]Cell{&t.main, &t.alt} {
		n := make([]Cell, w*h)
		for y := 0; y < h && y < t.H; y++ {
			for x := 0; x < w && x < t.W; x++ {
				n[y*w+x] = (*g)[y*t.W+x]
			}
		}
		*g = n
	}
	t.W, t.H = w, h
	if t.X >= w {
		t.X = w - 1
	}
	if t.Y >= h {
		t.Y = h - 1
	}
	if t.X < 0 {
		t.X = 0
	}
	if t.Y < 0 {
		t.Y = 0
	}
	t.WrapPending = false
}

func (t *Term) errf(format string, a ...any) {
	if len(t.Errors) < 20 {
		t.Errors = append(t.Errors, fmt.Sprintf("offset %d: ", t.seqStart)+fmt.Sprintf(format, a...))
	}
}

// AbortPending forgets an incomplete sequence (the writer gave up mid-stream).
func (t *Term) AbortPending() {
	t.st = stGround
	t.pend = nil
	t.seq = nil
}

// Pending reports whether the stream stopped in the middle of a control
// sequence or a multi-byte character.
func (t *Term) Pending() bool { return t.st != stGround || len(t.pend) > 0 }

// PendingDesc describes the incomplete sequence.
func (t *Term) PendingDesc() string {
	return fmt.Sprintf("state %d, sequence %q, pending bytes %q", t.st, t.seq, t.pend)
}

// Write feeds output bytes.
func (t *Term) Write(b []byte) {
	for _, c := range b {
		t.feed(c)
		t.offset++
	}
}

func (t *Term) feed(c byte) {
	switch t.st {
	case stGround:
		t.ground(c)
	case stEsc:
		t.esc(c)
	case stCSI:
		t.seq = append(t.seq, c)
		switch {
		case c >= 0x40 && c <= 0x7e:
			t.st = stGround
			t.csi(t.seq)
		case c >= 0x20 && c <= 0x3f:
		default:
			t.errf("byte %#02x inside a CSI sequence %q", c, t.seq)
			t.st = stGround
		}
		if len(t.seq) > 256 {
			t.errf("CSI sequence too long")
			t.st = stGround
		}
	case stOSC:
		switch {
		case c == 0x07:
			t.st = stGround
			t.osc(string(t.seq))
		case c == 0x1b:
			t.st = stOSCEsc
		case c < 0x20 || c == 0x7f:
			t.errf("control byte %#02x inside an OSC string %q", c, t.seq)
			t.st = stGround
		default:
			t.seq = append(t.seq, c)
			if len(t.seq) > 1<<16 {
				t.errf("OSC string too long")
				t.st = stGround
			}
		}
	case stOSCEsc:
		if c == '\\' {
			t.st = stGround
			t.osc(string(t.seq))
		} else {
			t.errf("ESC %q inside an OSC string (expected ST)", c)
			t.st = stGround
		}
	case stCharset:
		t.st = stGround
		which := 0
		if t.seq[0] == ')' {
			which = 1
		}
		switch c {
		case 'B', '0', 'A':
			t.G[which] = c
		default:
			t.errf("unknown charset designation ESC %c %c", t.seq[0], c)
		}
	}
}

func (t *Term) altActive() bool {
	return t.G[t.Shift] == '0' || t.Font == 11 || t.Font == 12
}

func (t *Term) ground(c byte) {
	if len(t.pend) > 0 {
		// inside a multi-byte character of the locale charset
		t.pend = append(t.pend, c)
		t.tryDecode()
		return
	}
	t.seqStart = t.offset
	if (t.Font == 11 || t.Font == 12) && c != 0x1b {
		// SCO alternate font: every byte is a glyph
		t.print(rune(c), true, []byte{c})
		return
	}
	if c < 0x20 {
		t.lastValid = false
	}
	switch {
	case c == 0x1b:
		t.st = stEsc
		t.CtlBytes++
	case c == 0x07:
		t.Bells++
		t.CtlBytes++
	case c == 0x08:
		t.CtlBytes++
		if t.X > 0 {
			t.X--
		}
		t.WrapPending = false
	case c == 0x0d:
		t.CtlBytes++
		t.X = 0
		t.WrapPending = false
	case c == 0x0a:
		t.CtlBytes++
		t.lineFeed()
	case c == 0x0c:
		t.CtlBytes++
		if t.Profile.FormFeedClears {
			t.eraseAll()
			t.X, t.Y, t.WrapPending = 0, 0, false
		} else {
			t.errf("form feed on a terminal whose clear is not FF")
		}
	case c == 0x0e:
		t.CtlBytes++
		t.Shift = 1
	case c == 0x0f:
		t.CtlBytes++
		t.Shift = 0
	case c < 0x20 || c == 0x7f:
		t.errf("stray control byte %#02x", c)
	case c < 0x7f:
		if t.altActive() {
			t.print(rune(c), true, []byte{c})
		} else {
			t.print(rune(c), false, []byte{c})
		}
	default:
		t.pend = append(t.pend, c)
		t.tryDecode()
	}
}

func (t *Term) tryDecode() {
	if t.dec == nil {
		if !utf8.FullRune(t.pend) {
			if len(t.pend) >= 4 {
				t.errf("invalid UTF-8 %x", t.pend)
				t.pend = nil
			}
			return
		}
		r, n := utf8.DecodeRune(t.pend)
		raw := append([]byte{}, t.pend...)
		if r == utf8.RuneError && n <= 1 {
			t.errf("invalid UTF-8 %x", t.pend)
			t.pend = nil
			return
		}
		if n != len(t.pend) {
			t.errf("invalid UTF-8 %x", t.pend)
			t.pend = nil
			return
		}
		t.pend = nil
		t.classify(r, raw)
		return
	}
	dst := make([]byte, 16)
	t.dec.Reset()
	nd, ns, err := t.dec.Transform(dst, t.pend, false)
	if err == transform.ErrShortSrc || (err == nil && ns < len(t.pend) && nd == 0) {
		if len(t.pend) >= 4 {
			t.errf("undecodable bytes %x in the locale charset", t.pend)
			t.pend = nil
		}
		return
	}
	if err != nil || nd == 0 {
		// some decoders need atEOF to flush; try that before giving up
		t.dec.Reset()
		nd, ns, err = t.dec.Transform(dst, t.pend, true)
		if err != nil || nd == 0 {
			t.errf("undecodable bytes %x in the locale charset", t.pend)
			t.pend = nil
			return
		}
	}
	r, _ := utf8.DecodeRune(dst[:nd])
	raw := append([]byte{}, t.pend[:ns]...)
	rest := append([]byte{}, t.pend[ns:]...)
	t.pend = nil
	if r == utf8.RuneError {
		// legacy multi-byte decoders answer U+FFFD for an incomplete sequence
		if len(rest) == 0 && len(raw) < 4 && multiByteLead(raw) {
			t.pend = raw
			return
		}
		if bytes.Equal(raw, []byte{0x84, 0x31, 0xA4, 0x37}) {
			// GB18030 is the one legacy charset that can encode U+FFFD itself
			t.classify(r, raw)
		} else {
			t.errf("undecodable bytes %x in the locale charset", raw)
		}
	} else {
		t.classify(r, raw)
	}
	for _, c := range rest {
		t.ground(c)
	}
}

// multiByteLead: could these bytes be the start of a longer character?
func multiByteLead(raw []byte) bool { return len(raw) < 4 }

func (t *Term) classify(r rune, raw []byte) {
	switch {
	case r >= 0x80 && r <= 0x9f:
		t.errf("C1 control U+%04X (bytes %x) in the output stream", r, raw)
	case r < 0x20 || r == 0x7f:
		t.errf("control U+%04X (bytes %x) decoded from a multi-byte sequence", r, raw)
	default:
		t.print(r, false, raw)
	}
}

func (t *Term) lineFeed() {
	if t.Y == t.H-1 {
		t.scrollUp()
	} else {
		t.Y++
	}
	t.WrapPending = false
}

func (t *Term) scrollUp() {
	c := t.cells()
	copy(c, c[t.W:])
	for i := (t.H - 1) * t.W; i < t.H*t.W; i++ {
		c[i] = Cell{}
	}
	t.Scrolls++
	if t.lastValid {
		t.lastY--
		if t.lastY < 0 {
			t.lastValid = false
		}
	}
}

func (t *Term) blankCell(x, y int) {
	*t.At(x, y) = Cell{Stamp: t.At(x, y).Stamp}
}

// breakWide blanks the other half of a wide glyph when one half is overwritten.
func (t *Term) breakWide(x, y int) {
	c := t.At(x, y)
	if c.Width == 2 && x+1 < t.W {
		n := t.At(x+1, y)
		if n.Cont {
			*n = Cell{Stamp: n.Stamp}
		}
	}
	if c.Cont && x > 0 {
		p := t.At(x-1, y)
		if p.Width == 2 {
			*p = Cell{Stamp: p.Stamp}
		}
	}
}

func (t *Term) print(r rune, alt bool, raw []byte) {
	if t.W == 0 || t.H == 0 {
		return
	}
	if t.PayloadHook != nil {
		t.PayloadHook(r, raw)
	}
	if t.Quiet {
		t.errf("printable character %q written while no drawing call is in progress (stray text: residue of the padding / parameter language?)", r)
	}
	w := 1
	if !alt {
		w = t.rw.RuneWidth(r)
	}
	if w == 0 {
		// combining / zero-width: attaches to the glyph printed just before
		if !t.lastValid || t.lastX >= t.W || t.lastY >= t.H {
			t.errf("zero-width character U+%04X with no preceding glyph to attach to", r)
			return
		}
		c := t.At(t.lastX, t.lastY)
		c.Comb = append(c.Comb, r)
		c.Stamp = t.Block
		t.Printed++
		return
	}
	if t.WrapPending {
		t.X = 0
		t.lineFeed()
	}
	if w == 2 && t.X == t.W-1 {
		t.errf("wide glyph U+%04X printed in the last column", r)
		w = 1
	}
	t.breakWide(t.X, t.Y)
	c := t.At(t.X, t.Y)
	*c = Cell{Base: r, Width: uint8(w), Alt: alt, Pen: t.Pen, Stamp: t.Block}
	t.lastX, t.lastY, t.lastValid = t.X, t.Y, true
	t.Printed++
	if w == 2 {
		t.breakWide(t.X+1, t.Y)
		*t.At(t.X+1, t.Y) = Cell{Cont: true, Pen: t.Pen, Stamp: t.Block}
	}
	t.X += w
	if t.X >= t.W {
		t.X = t.W - 1
		if t.Modes[7] {
			if t.Profile.ImmediateWrap {
				t.X = 0
				t.lineFeed()
			} else {
				t.WrapPending = true
			}
		}
	}
}

func (t *Term) esc(c byte) {
	t.st = stGround
	switch c {
	case '[':
		t.st = stCSI
		t.seq = t.seq[:0]
	case ']':
		t.st = stOSC
		t.seq = t.seq[:0]
	case '(', ')':
		t.st = stCharset
		t.seq = append(t.seq[:0], c)
	case '7':
		t.savedX, t.savedY, t.savedPen = t.X, t.Y, t.Pen
	case '8':
		t.X, t.Y, t.Pen = t.savedX, t.savedY, t.savedPen
		t.WrapPending = false
		if t.X >= t.W {
			t.X = t.W - 1
		}
		if t.Y >= t.H {
			t.Y = t.H - 1
		}
	case '=':
		t.Keypad = true
	case '>':
		t.Keypad = false
	default:
		t.errf("unknown escape sequence ESC %q", c)
	}
}

func (t *Term) eraseAll() {
	c := t.cells()
	for i := range c {
		c[i] = Cell{}
	}
	t.Erases++
}

// parseParams splits CSI parameters; sub-parameters (':') are kept per item.
func parseParams(s string) ([][]int, bool) {
	if s == "" {
		return nil, true
	}
	var out [][]int
	for _, item := range strings.Split(s, ";") {
		var subs []int
		for _, sub := range strings.Split(item, ":") {
			if sub == "" {
				subs = append(subs, -1)
				continue
			}
			n, err := strconv.Atoi(sub)
			if err != nil || n < 0 {
				return nil, false
			}
			subs = append(subs, n)
		}
		out = append(out, subs)
	}
	return out, true
}

func p0(ps [][]int, i, def int) int {
	if i < len(ps) && len(ps[i]) > 0 && ps[i][0] >= 0 {
		return ps[i][0]
	}
	return def
}

func (t *Term) csi(seq []byte) {
	final := seq[len(seq)-1]
	body := string(seq[:len(seq)-1])
	private := byte(0)
	if len(body) > 0 && (body[0] == '?' || body[0] == '>' || body[0] == '<' || body[0] == '=') {
		private = body[0]
		body = body[1:]
	}
	inter := ""
	for len(body) > 0 && body[len(body)-1] >= 0x20 && body[len(body)-1] <= 0x2f {
		inter = string(body[len(body)-1]) + inter
		body = body[:len(body)-1]
	}
	for i := 0; i < len(body); i++ {
		if !((body[i] >= '0' && body[i] <= '9') || body[i] == ';' || body[i] == ':') {
			t.errf("CSI sequence %q has non-numeric parameter bytes", seq)
			return
		}
	}
	ps, ok := parseParams(body)
	if !ok {
		t.errf("CSI sequence %q has malformed parameters", seq)
		return
	}
	t.CtlBytes += len(seq) + 1
	key := string(private) + inter + string(final)
	if private == 0 {
		key = inter + string(final)
	}
	switch key {
	case "H", "f":
		row, col := p0(ps, 0, 1), p0(ps, 1, 1)
		if row == 0 {
			row = 1
		}
		if col == 0 {
			col = 1
		}
		if len(ps) > 2 {
			t.errf("CUP with %d parameters: %q", len(ps), seq)
		}
		// a position beyond the screen is clamped by real terminals; tcell relies
		// on that only for parking the cursor, which the checks handle themselves
		t.Y, t.X = row-1, col-1
		if t.Y >= t.H {
			t.Y = t.H - 1
		}
		if t.X >= t.W {
			t.X = t.W - 1
		}
		if t.Y < 0 {
			t.Y = 0
		}
		if t.X < 0 {
			t.X = 0
		}
		t.WrapPending = false
	case "J":
		switch p0(ps, 0, 0) {
		case 0:
			c := t.cells()
			for i := t.Y*t.W + t.X; i < len(c); i++ {
				c[i] = Cell{}
			}
			t.Erases++
		case 2:
			t.eraseAll()
		default:
			t.errf("unsupported ED %q", seq)
		}
	case "K":
		if p0(ps, 0, 0) != 0 {
			t.errf("unsupported EL %q", seq)
			return
		}
		for x := t.X; x < t.W; x++ {
			*t.At(x, t.Y) = Cell{}
		}
		t.Erases++
	case "@":
		n := p0(ps, 0, 1)
		if n == 0 {
			n = 1
		}
		row := t.cells()[t.Y*t.W : (t.Y+1)*t.W]
		for i := 0; i < n; i++ {
			copy(row[t.X+1:], row[t.X:t.W-1])
			row[t.X] = Cell{}
		}
		t.Inserts++
		t.WrapPending = false
	case "m":
		t.sgr(ps, seq)
	case "r":
		if len(ps) != 0 {
			t.errf("DECSTBM with parameters is not expected: %q", seq)
		}
	case "h", "l":
		for i := range ps {
			n := p0(ps, i, -1)
			switch n {
			case 34:
				t.AnsiModes[n] = final == 'h'
			default:
				t.errf("unknown ANSI mode in %q", seq)
			}
		}
	case "?h", "?l":
		on := final == 'h'
		if len(ps) == 0 {
			t.errf("DEC private mode sequence without a mode: %q", seq)
		}
		for i := range ps {
			t.decMode(p0(ps, i, -1), on, seq)
		}
	case "?c":
		t.LinuxCursor = p0(ps, 0, 0)
	case "\"q":
		// DECSCA: select character protection attribute; no visible effect
	case " q":
		n := p0(ps, 0, 0)
		if n > 6 {
			t.errf("DECSCUSR parameter out of range: %q", seq)
		}
		t.CursorStyle = n
	case "t":
		switch p0(ps, 0, -1) {
		case 22:
			t.TitleStack = append(t.TitleStack, t.Title)
		case 23:
			if n := len(t.TitleStack); n > 0 {
				t.Title = t.TitleStack[n-1]
				t.TitleStack = t.TitleStack[:n-1]
			}
		case 8:
			t.WinSizeReq = append(t.WinSizeReq, [2]int{p0(ps, 2, 0), p0(ps, 1, 0)})
		default:
			t.errf("unknown window operation %q", seq)
		}
	case ">t":
		t.TitleMode = append(t.TitleMode, p0(ps, 0, 0))
	default:
		t.errf("unknown CSI sequence %q", seq)
	}
}

func (t *Term) decMode(n int, on bool, seq []byte) {
	switch n {
	case 1, 4, 7, 12, 1000, 1002, 1003, 1004, 1006, 2004:
		t.Modes[n] = on
	case 25:
		t.Modes[n] = on
		t.CursorVisible = on
	case 47, 1047:
		t.Modes[n] = on
		t.AltScreen = on
	case 1049:
		t.Modes[n] = on
		if on {
			t.savedX, t.savedY, t.savedPen = t.X, t.Y, t.Pen
			t.AltScreen = true
			for i := range t.alt {
				t.alt[i] = Cell{}
			}
		} else {
			t.AltScreen = false
			t.X, t.Y, t.Pen = t.savedX, t.savedY, t.savedPen
			if t.X >= t.W {
				t.X = t.W - 1
			}
			if t.Y >= t.H {
				t.Y = t.H - 1
			}
		}
		t.WrapPending = false
	default:
		t.errf("unknown DEC private mode %d in %q", n, seq)
	}
}

func (t *Term) sgr(ps [][]int, seq []byte) {
	if len(ps) == 0 {
		ps = [][]int{{0}}
	}
	for i := 0; i < len(ps); i++ {
		p := ps[i]
		n := p[0]
		if n < 0 {
			n = 0
		}
		if len(p) > 1 && n != 4 && n != 38 && n != 48 && n != 58 {
			t.errf("unexpected sub-parameters in SGR %q", seq)
			return
		}
		switch {
		case n == 0:
			link, lp := t.Pen.Link, t.Pen.LinkParams
			t.Pen = Pen{Link: link, LinkParams: lp}
		case n == 1:
			t.Pen.Bold = true
		case n == 2:
			t.Pen.Dim = true
		case n == 3:
			t.Pen.Italic = true
		case n == 4:
			if len(p) > 1 {
				if p[1] < 0 || p[1] > 5 {
					t.errf("bad underline style in %q", seq)
					return
				}
				t.Pen.Ul = uint8(p[1])
			} else {
				t.Pen.Ul = 1
			}
		case n == 5:
			t.Pen.Blink = true
		case n == 7:
			t.Pen.Reverse = true
		case n == 9:
			t.Pen.Strike = true
		case n == 10, n == 11, n == 12:
			t.Font = n
		case n == 21:
			t.Pen.Ul = 2
		case n == 22:
			t.Pen.Bold, t.Pen.Dim = false, false
		case n == 23:
			t.Pen.Italic = false
		case n == 24:
			t.Pen.Ul = 0
		case n == 25:
			t.Pen.Blink = false
		case n == 27:
			t.Pen.Reverse = false
		case n == 29:
			t.Pen.Strike = false
		case n >= 30 && n <= 37:
			t.Pen.Fg = Color{ColPalette, int32(n - 30)}
		case n == 39:
			t.Pen.Fg = Color{}
		case n >= 40 && n <= 47:
			t.Pen.Bg = Color{ColPalette, int32(n - 40)}
		case n == 49:
			t.Pen.Bg = Color{}
		case n >= 90 && n <= 97:
			t.Pen.Fg = Color{ColPalette, int32(n - 90 + 8)}
		case n >= 100 && n <= 107:
			t.Pen.Bg = Color{ColPalette, int32(n - 100 + 8)}
		case n == 59:
			t.Pen.UlColor = Color{}
		case n == 38 || n == 48 || n == 58:
			var col Color
			okc := false
			if len(p) > 1 {
				// colon form: 38:5:n  38:2::r:g:b  38:2:r:g:b
				switch {
				case p[1] == 5 && len(p) == 3 && p[2] >= 0 && p[2] <= 255:
					col, okc = Color{ColPalette, int32(p[2])}, true
				case p[1] == 2 && len(p) == 6 && p[3] >= 0 && p[3] <= 255 && p[4] >= 0 && p[4] <= 255 && p[5] >= 0 && p[5] <= 255:
					col, okc = Color{ColRGB, int32(p[3]<<16 | p[4]<<8 | p[5])}, true
				case p[1] == 2 && len(p) == 5 && p[2] >= 0 && p[2] <= 255 && p[3] >= 0 && p[3] <= 255 && p[4] >= 0 && p[4] <= 255:
					col, okc = Color{ColRGB, int32(p[2]<<16 | p[3]<<8 | p[4])}, true
				}
			} else if i+1 < len(ps) {
				switch p0(ps, i+1, -1) {
				case 5:
					if i+2 < len(ps) && len(ps[i+2]) == 1 {
						v := p0(ps, i+2, -1)
						if v >= 0 && v <= 255 {
							col, okc = Color{ColPalette, int32(v)}, true
						}
						i += 2
					}
				case 2:
					if i+4 < len(ps) {
						r, g, b := p0(ps, i+2, -1), p0(ps, i+3, -1), p0(ps, i+4, -1)
						if r >= 0 && r <= 255 && g >= 0 && g <= 255 && b >= 0 && b <= 255 {
							col, okc = Color{ColRGB, int32(r<<16 | g<<8 | b)}, true
						}
						i += 4
					}
				}
			}
			if !okc {
				t.errf("malformed extended colour in SGR %q", seq)
				return
			}
			switch n {
			case 38:
				t.Pen.Fg = col
			case 48:
				t.Pen.Bg = col
			case 58:
				t.Pen.UlColor = col
			}
		default:
			t.errf("unknown SGR parameter %d in %q", n, seq)
			return
		}
	}
}

// residue: an unexpanded terminfo directive (%p1, %d, %s, %{..}) inside a control string
var residue = regexp.MustCompile(`%p[1-9]|%[0-9.]*[ds]|%\{[0-9]+\}|%[?;]`)

func (t *Term) osc(s string) {
	t.CtlBytes += len(s) + 3
	if !utf8.ValidString(s) && t.dec == nil {
		t.errf("OSC string is not valid UTF-8: %q", s)
	}
	num, rest := s, ""
	if i := strings.IndexByte(s, ';'); i >= 0 {
		num, rest = s[:i], s[i+1:]
	}
	if residue.MatchString(s) {
		t.errf("OSC string %q contains residue of the terminfo parameter language", s)
	}
	switch num {
	case "0", "2":
		t.Title = rest
	case "8":
		i := strings.IndexByte(rest, ';')
		if i < 0 {
			t.errf("malformed OSC 8 %q", s)
			return
		}
		t.Pen.LinkParams, t.Pen.Link = rest[:i], rest[i+1:]
		if t.Pen.Link == "" {
			t.Pen.LinkParams = ""
		}
	case "12":
		t.CursorColor = rest
	case "112":
		t.CursorColor = ""
	case "52":
		t.Clipboard = append(t.Clipboard, rest)
	default:
		t.errf("unknown OSC %q", s)
	}
}

// DecSpecial maps a byte shown through the DEC special graphics set to its glyph.
var DecSpecial = map[byte]rune{
	'`': '◆', 'a': '▒', 'b': '␉', 'c': '␌', 'd': '␍', 'e': '␊', 'f': '°', 'g': '±', 'h': '␤', 'i': '␋',
	'j': '┘', 'k': '┐', 'l': '┌', 'm': '└', 'n': '┼', 'o': '⎺', 'p': '⎻', 'q': '─', 'r': '⎼', 's': '⎽',
	't': '├', 'u': '┤', 'v': '┴', 'w': '┬', 'x': '│', 'y': '≤', 'z': '≥', '{': 'π', '|': '≠', '}': '£', '~': '·',
	'_': ' ',
}

// Scramble overwrites the grid, the cursor position and the pen with
// deterministic garbage derived from seed ("arbitrary previous contents").
// Modes, charset designations and the cursor visibility are left alone.
func (t *Term) Scramble(seed int, withLink bool) {
	x := uint32(seed)*2654435761 + 12345
	next := func() uint32 {
		x ^= x << 13
		x ^= x >> 17
		x ^= x << 5
		return x
	}
	randPen := func() Pen {
		v := next()
		return Pen{Fg: Color{ColPalette, int32(v % 8)}, Bg: Color{ColPalette, int32((v >> 3) % 8)}, Bold: v&64 != 0, Reverse: v&128 != 0, Ul: uint8((v >> 8) % 3), Italic: v&2048 != 0}
	}
	c := t.cells()
	for i := range c {
		switch next() % 4 {
		case 0:
			c[i] = Cell{}
		default:
			c[i] = Cell{Base: rune('!' + next()%90), Width: 1, Pen: randPen(), Stamp: -1}
		}
	}
	if t.W > 0 && t.H > 0 {
		t.X, t.Y = int(next())%t.W, int(next())%t.H
		if t.X < 0 {
			t.X = -t.X
		}
		if t.Y < 0 {
			t.Y = -t.Y
		}
	}
	t.WrapPending = false
	t.Pen = randPen()
	if withLink {
		t.Pen.Link = "http://stale.example/"
	}
}
