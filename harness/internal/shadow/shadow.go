// Package shadow is the independent model of "what the application last set"
// on a Screen: documented semantics only (ColorNone keeps the previous colour,
// out-of-range writes ignored, Fill/Clear, resize keeps the overlap, LockRegion,
// StyleDefault resolves to the screen default style).  It serves the terminfo
// screen (C01/C09/C13/C17), the SimulationScreen (C18) and the wasm screen.
package shadow

import (
	"github.com/gdamore/tcell/v2"
	runewidth "github.com/mattn/go-runewidth"
)

var rw = func() *runewidth.Condition {
	c := runewidth.NewCondition()
	c.EastAsianWidth = false
	return c
}()

// RuneWidth is the width classification (go-runewidth, EastAsianWidth=false).
func RuneWidth(r rune) int { return rw.RuneWidth(r) }

// Cell is what the application stored.
type Cell struct {
	R      rune
	Comb   []rune
	Style  tcell.Style
	Locked bool

	// snapshot at the last Show/Sync (for "what changed since")
	sR     rune
	sComb  []rune
	sStyle tcell.Style
	sValid bool // false => treat as changed (new cell / after full repaint request)

	// default styles this cell may legitimately have been painted with
	okDefaults []tcell.Style
	// content differed from the snapshot at some moment since the last MarkShown
	touched bool
	// widest display width the content had at any moment since the last MarkShown
	maxWidth int
	// not painted at the last Show (locked): the next Show of the unlocked cell paints it
	needPaint bool
}

// Screen is the model.
type Screen struct {
	W, H    int
	Cells   []Cell
	Default tcell.Style

	CursorX, CursorY int
	CursorStyle      tcell.CursorStyle
	CursorColor      tcell.Color

	Shows int
	// SnapshotLocked: see MarkShown (used by the terminfo-screen runner)
	SnapshotLocked bool
}

// New creates a model of the given size with blank cells.
func New(w, h int) *Screen {
	s := &Screen{W: w, H: h, CursorX: -1, CursorY: -1}
	s.Cells = make([]Cell, w*h)
	return s
}

func (s *Screen) In(x, y int) bool { return x >= 0 && y >= 0 && x < s.W && y < s.H }

// At returns the cell (must be in range).
func (s *Screen) At(x, y int) *Cell { return &s.Cells[y*s.W+x] }

// OnMerge, when set, is told about every ColorNone merge (new, old, merged).
var OnMerge func(n, old, merged tcell.Style)

func merge(n, old tcell.Style) tcell.Style {
	m := merge0(n, old)
	if OnMerge != nil && m != n {
		OnMerge(n, old, m)
	}
	return m
}

func merge0(n, old tcell.Style) tcell.Style {
	fg, bg, _ := n.Decompose()
	ofg, obg, _ := old.Decompose()
	if fg == tcell.ColorNone {
		n = n.Foreground(ofg)
	}
	if bg == tcell.ColorNone {
		n = n.Background(obg)
	}
	return n
}

// SetContent stores content (out of range ignored).
func (s *Screen) SetContent(x, y int, r rune, comb []rune, st tcell.Style) {
	if !s.In(x, y) {
		return
	}
	c := s.At(x, y)
	c.R = r
	c.Comb = append([]rune(nil), comb...)
	c.Style = merge(st, c.Style)
	s.touch(x, y)
}

func (s *Screen) touch(x, y int) {
	c := s.At(x, y)
	if s.Changed(x, y) || c.R != c.sR || c.R == 0 {
		// (a NUL <-> blank rewrite is not an observable change, but the library
		// normalises NUL lazily and may repaint the blank once)
		c.touched = true
	}
	if w := RuneWidth(c.R); w > c.maxWidth {
		c.maxWidth = w
	}
}

// Touched reports whether the cell's content differed from the last-shown
// content at some moment since the last MarkShown (it may be equal again now).
func (s *Screen) Touched(x, y int) bool { return s.At(x, y).touched || s.Changed(x, y) }

// MaxWidth is the widest display width the cell's content had since the last
// MarkShown (including the current content).
func (s *Screen) MaxWidth(x, y int) int {
	c := s.At(x, y)
	w := RuneWidth(c.R)
	if c.maxWidth > w {
		w = c.maxWidth
	}
	return w
}

// Fill stores r/st in every cell.
func (s *Screen) Fill(r rune, st tcell.Style) {
	for i := range s.Cells {
		c := &s.Cells[i]
		c.R = r
		c.Comb = nil
		c.Style = merge(st, c.Style)
		s.touch(i%s.W, i/s.W)
	}
}

// Resize keeps the overlapping region; locks are dropped (new buffer).
func (s *Screen) Resize(w, h int) {
	if w == s.W && h == s.H {
		return
	}
	n := make([]Cell, w*h)
	for y := 0; y < h && y < s.H; y++ {
		for x := 0; x < w && x < s.W; x++ {
			o := s.At(x, y)
			n[y*w+x] = Cell{R: o.R, Comb: o.Comb, Style: o.Style}
		}
	}
	s.Cells, s.W, s.H = n, w, h
}

// Lock sets/clears the lock on a region.
func (s *Screen) Lock(x, y, w, h int, lock bool) {
	for j := y; j < y+h; j++ {
		for i := x; i < x+w; i++ {
			if s.In(i, j) {
				s.At(i, j).Locked = lock
			}
		}
	}
}

// Vis is what a conforming display shows in one cell.
type Vis struct {
	R      rune // the glyph's base rune (' ' for blanks)
	Comb   []rune
	Width  int  // 1 or 2
	Hidden bool // covered by the wide rune to the left: not compared
	Style  tcell.Style
	Blank  bool // shown as a blank because the primary rune is control/zero-width/invalid or does not fit
}

// ExpectedRow computes the row left to right: control / invalid / zero-width
// primary -> blank; width 2 covers x+1 (hidden); width 2 in the last column
// -> blank.
func (s *Screen) ExpectedRow(y int) []Vis {
	out := make([]Vis, s.W)
	for x := 0; x < s.W; {
		c := s.At(x, y)
		w := RuneWidth(c.R)
		v := Vis{R: c.R, Comb: c.Comb, Width: w, Style: c.Style}
		if w == 0 || c.R < ' ' {
			v.R, v.Width, v.Blank = ' ', 1, true
		}
		if v.Width == 2 && x == s.W-1 {
			v.R, v.Width, v.Blank, v.Comb = ' ', 1, true, nil
		}
		out[x] = v
		if v.Width == 2 {
			out[x+1] = Vis{Hidden: true, Width: 0}
		}
		x += v.Width
	}
	return out
}

// SnapRow is ExpectedRow computed from the content recorded at the last
// MarkShown (what the display showed after the previous Show).
func (s *Screen) SnapRow(y int) []Vis {
	out := make([]Vis, s.W)
	for x := 0; x < s.W; {
		c := s.At(x, y)
		r := c.sR
		if !c.sValid {
			r = 0
		}
		w := RuneWidth(r)
		v := Vis{R: r, Comb: c.sComb, Width: w, Style: c.sStyle}
		if w == 0 || r < ' ' {
			v.R, v.Width, v.Blank = ' ', 1, true
		}
		if v.Width == 2 && x == s.W-1 {
			v.R, v.Width, v.Blank, v.Comb = ' ', 1, true, nil
		}
		out[x] = v
		if v.Width == 2 {
			out[x+1] = Vis{Hidden: true, Width: 0}
		}
		x += v.Width
	}
	return out
}

// Changed reports whether the stored content of (x,y) differs from what it was
// at the last MarkShown.
func (s *Screen) Changed(x, y int) bool {
	c := s.At(x, y)
	if !c.sValid {
		return true
	}
	if norm(c.R) != norm(c.sR) || c.Style != c.sStyle || len(c.Comb) != len(c.sComb) {
		return true
	}
	for i := range c.Comb {
		if c.Comb[i] != c.sComb[i] {
			return true
		}
	}
	return false
}

// SnapWidth returns the display width the cell's content had at the last
// MarkShown (0 if unknown).
func (s *Screen) SnapWidth(x, y int) int {
	c := s.At(x, y)
	if !c.sValid {
		return 0
	}
	w := RuneWidth(c.sR)
	if w == 0 || c.sR < ' ' {
		w = 1
	}
	return w
}

// MarkShown records a Show (full = Sync / resize redraw: everything repainted).
func (s *Screen) MarkShown(full bool) {
	s.Shows++
	for i := range s.Cells {
		c := &s.Cells[i]
		if c.Locked {
			// locked cells are not painted. With SnapshotLocked their logical
			// content is still recorded (it decides what is covered by wide
			// runes) and they are repainted by the first Show after the unlock;
			// otherwise nothing is recorded for them.
			if s.SnapshotLocked {
				c.sR, c.sComb, c.sStyle, c.sValid = c.R, c.Comb, c.Style, true
				c.touched, c.maxWidth = false, 0
				c.needPaint = true
			}
			continue
		}
		changed := c.needPaint || !c.sValid || norm(c.R) != norm(c.sR) || c.Style != c.sStyle || !eq(c.Comb, c.sComb)
		c.needPaint = false
		if full || changed {
			c.okDefaults = c.okDefaults[:0]
		}
		found := false
		for _, d := range c.okDefaults {
			if d == s.Default {
				found = true
			}
		}
		if !found {
			c.okDefaults = append(c.okDefaults, s.Default)
		}
		c.sR, c.sComb, c.sStyle, c.sValid = c.R, c.Comb, c.Style, true
		c.touched, c.maxWidth = false, 0
	}
}

// InvalidateSnap forgets the snapshot (after a resize every cell is "changed").
func (s *Screen) InvalidateSnap() {
	for i := range s.Cells {
		s.Cells[i].sValid = false
		s.Cells[i].okDefaults = nil
	}
}

// Resolved returns the styles the cell may legitimately be painted with: its
// own style, or - when that is StyleDefault - any default style that was in
// force at a Show at which the cell may have been painted.
func (s *Screen) Resolved(x, y int) []tcell.Style {
	c := s.At(x, y)
	if c.Style != tcell.StyleDefault {
		return []tcell.Style{c.Style}
	}
	if len(c.okDefaults) == 0 {
		return []tcell.Style{s.Default}
	}
	return c.okDefaults
}

// norm: a cell never written (rune 0) shows, and is tracked, as a blank.
func norm(r rune) rune {
	if r == 0 {
		return ' '
	}
	return r
}

func eq(a, b []rune) bool {
	if len(a) != len(b) {
		return false
	}
	for i := range a {
		if a[i] != b[i] {
			return false
		}
	}
	return true
}
