// Package tsrun drives a real terminfo screen (tScreen) over a fake tty whose
// output feeds the reference terminal (internal/vt), next to the shadow model
// of what the application set. It is shared by C01, C04, C09, C13 and C17.
package tsrun

import (
	"fmt"
	"os"
	"strings"
	"time"
	"verifharness/internal/pbt"

	"github.com/gdamore/tcell/v2"
	"github.com/gdamore/tcell/v2/terminfo"

	"verifharness/internal/colref"
	"verifharness/internal/csets"
	"verifharness/internal/faketty"
	"verifharness/internal/gen"
	"verifharness/internal/shadow"
	"verifharness/internal/vt"
)

// Op is one step of a history.
type Op struct {
	Kind  string        `json:"op"`
	X     int           `json:"x,omitempty"`
	Y     int           `json:"y,omitempty"`
	R     rune          `json:"r,omitempty"`
	Comb  []rune        `json:"comb,omitempty"`
	Style gen.StyleSpec `json:"style"`
	W     int           `json:"w,omitempty"`
	H     int           `json:"h,omitempty"`
	On    bool          `json:"on,omitempty"`
	N     int           `json:"n,omitempty"`
	S     string        `json:"s,omitempty"`
}

// Config selects the terminal, colour mode, locale and initial size.
type Config struct {
	Entry     string `json:"entry"`
	Color     string `json:"color"`             // shipped | rgb | disable
	Charset   string `json:"charset,omitempty"` // "" = UTF-8
	W         int    `json:"w"`
	H         int    `json:"h"`
	NoAltScrn bool   `json:"noaltscreen,omitempty"`
}

// ECMAEntries lists the registered names whose cup is an ECMA-48 CUP.
func ECMAEntries() []string {
	var out []string
	for n, e := range terminfo.VerifTerminfos() {
		if strings.HasPrefix(e.SetCursor, "\x1b[") {
			out = append(out, n)
		}
	}
	sortStrings(out)
	return out
}

func sortStrings(s []string) {
	for i := 1; i < len(s); i++ {
		for j := i; j > 0 && s[j] < s[j-1]; j-- {
			s[j], s[j-1] = s[j-1], s[j]
		}
	}
}

// Runner is one live screen with its terminal and model.
type Runner struct {
	Cfg    Config
	TI     *terminfo.Terminfo
	Tty    *faketty.Tty
	Term   *vt.Term
	Screen tcell.Screen
	Shadow *shadow.Screen
	Caps   Caps

	writeFault bool // the tty will reject part of the next frame
	Faulted    bool // the observation point just returned is a Show whose frame the tty cut short
	Corrupted  bool // emulator contents scrambled: comparisons suspended until a full redraw
	Fini       bool
	Suspended  bool
	writes     int
	// bookkeeping for full repaints
	FullNext bool
	// the terminal changed size without telling the library since the last Show
	silentResize bool
	// BeforeMark, when set, runs after the library call of a show/sync/resize
	// point and before the model records the Show (full = everything repainted)
	BeforeMark func(full bool)
}

// Caps is what the entry can express, read off the description.
type Caps struct {
	Colors                                         int
	Direct                                         bool
	Bold, Blink, Reverse, Dim, Italic, Strike, Uln bool
	StyledUl                                       bool
	UlColor                                        bool
	Url                                            bool
	HideCursor, ShowCursor                         bool
	Mouse, Paste, Focus, Title, TitleStack         bool
	CursorStyles                                   bool
	AMTrick                                        bool
	OpPen                                          vt.Pen // pen after sgr0 + op
	Mono                                           bool
}

func xtermLike(ti *terminfo.Terminfo) bool {
	return ti.XTermLike || strings.HasPrefix(ti.Name, "xterm")
}

// CapsOf derives the capability predicate from the description.
func CapsOf(ti *terminfo.Terminfo, colorMode string) Caps {
	c := Caps{Colors: ti.Colors}
	if c.Colors > 256 {
		c.Colors = 256
	}
	rgb := ti.SetFgRGB != "" || ti.SetBgRGB != "" || ti.SetFgBgRGB != ""
	c.Direct = rgb && colorMode != "disable"
	c.Mono = ti.Colors == 0
	c.Bold, c.Blink, c.Reverse, c.Dim, c.Italic, c.Strike = ti.Bold != "", ti.Blink != "", ti.Reverse != "", ti.Dim != "", ti.Italic != "", ti.StrikeThrough != ""
	c.Uln = ti.Underline != ""
	xl := xtermLike(ti)
	c.StyledUl = ti.CurlyUnderline != "" || xl
	c.UlColor = ti.UnderlineColor != "" || c.StyledUl
	linux := strings.Contains(ti.Name, "linux")
	c.Url = !linux && (ti.EnterUrl != "" || ti.Mouse != "" || xl)
	c.Focus = !linux && (ti.EnableFocusReporting != "" || ti.Mouse != "" || xl)
	c.Title = !linux && (ti.SetWindowTitle != "" || xl)
	c.TitleStack = !linux && ti.SetWindowTitle == "" && xl
	c.HideCursor, c.ShowCursor = ti.HideCursor != "", ti.ShowCursor != ""
	c.Mouse = ti.Mouse != ""
	c.Paste = ti.EnablePaste != "" || ti.Mouse != "" || xl
	c.CursorStyles = ti.CursorDefault != "" || ti.Mouse != "" || xl
	c.AMTrick = ti.AutoMargin && ti.DisableAutoMargin == "" && ti.InsertChar != ""
	// pen after attributes-off followed by the entry's "original pair"
	t := vt.New(2, 1, nil, vt.Profile{})
	t.Write([]byte(stripPad(ti.AttrOff)))
	t.Write([]byte(stripPad(ti.ResetFgBg)))
	c.OpPen = t.Pen
	return c
}

func stripPad(s string) string {
	for {
		i := strings.Index(s, "$<")
		if i < 0 {
			return s
		}
		j := strings.IndexByte(s[i:], '>')
		if j < 0 {
			return s
		}
		s = s[:i] + s[i+j+1:]
	}
}

// New builds the screen, initialises it and drains the startup events.
func New(cfg Config) (*Runner, error) {
	csets.Init()
	base, err := terminfo.LookupTerminfo(cfg.Entry)
	if err != nil {
		return nil, fmt.Errorf("harness: entry %q: %v", cfg.Entry, err)
	}
	ti := *base
	ti.Aliases = nil
	ti.PadChar = "" // no sleeping: the bytes written do not depend on it
	switch cfg.Color {
	case "rgb":
		if ti.SetFgRGB == "" && ti.SetBgRGB == "" && ti.SetFgBgRGB == "" {
			ti.SetFgRGB = "\x1b[38;2;%p1%d;%p2%d;%p3%dm"
			ti.SetBgRGB = "\x1b[48;2;%p1%d;%p2%d;%p3%dm"
			ti.SetFgBgRGB = "\x1b[38;2;%p1%d;%p2%d;%p3%d;48;2;%p4%d;%p5%d;%p6%dm"
		}
		os.Unsetenv("TCELL_TRUECOLOR")
	case "disable":
		os.Setenv("TCELL_TRUECOLOR", "disable")
	default:
		os.Unsetenv("TCELL_TRUECOLOR")
	}
	if cfg.NoAltScrn {
		os.Setenv("TCELL_ALTSCREEN", "disable")
	} else {
		os.Unsetenv("TCELL_ALTSCREEN")
	}
	cs := cfg.Charset
	if cs == "" {
		cs = "UTF-8"
	}
	os.Setenv("LC_ALL", "en_US."+cs)
	os.Unsetenv("LINES")
	os.Unsetenv("COLUMNS")

	r := &Runner{Cfg: cfg, TI: &ti}
	r.Caps = CapsOf(&ti, cfg.Color)
	r.Tty = faketty.New(cfg.W, cfg.H)
	var enc = tcell.GetEncoding(cs)
	if cs == "UTF-8" {
		enc = nil
	} else if enc == nil {
		return nil, fmt.Errorf("harness: charset %q not registered", cs)
	}
	r.Term = vt.New(cfg.W, cfg.H, enc, vt.Profile{ImmediateWrap: r.Caps.AMTrick, FormFeedClears: ti.Clear == "\f"})
	r.Term.Quiet = true // until a Show / Sync / resize redraw is in progress
	debug := os.Getenv("VERIF_DEBUG") != ""
	r.Tty.Sink = func(b []byte) {
		if debug {
			fmt.Fprintf(os.Stderr, "WRITE %q\n", b)
		}
		r.Term.Write(b)
		r.writes++
	}
	s, err := tcell.NewTerminfoScreenFromTtyTerminfo(r.Tty, &ti)
	if err != nil {
		return nil, fmt.Errorf("harness: NewTerminfoScreenFromTtyTerminfo: %v", err)
	}
	r.Screen = s
	r.Shadow = shadow.New(cfg.W, cfg.H)
	r.Shadow.SnapshotLocked = true
	return r, nil
}

// Init calls Screen.Init and drains startup events.
func (r *Runner) Init() error {
	if err := r.Screen.Init(); err != nil {
		return fmt.Errorf("harness: Init: %v", err)
	}
	r.Drain()
	r.FullNext = true
	return nil
}

// Drain discards queued events.
func (r *Runner) Drain() {
	for r.Screen.HasPendingEvent() {
		r.Screen.PollEvent()
	}
}

// Close finalises the screen.
func (r *Runner) Close() {
	if !r.Fini {
		done := make(chan struct{})
		go func() {
			// clean-up after a case that has already been judged: a Fini that panics here must not
			// take the whole process (and the verdict) with it
			defer func() { _ = recover(); close(done) }()
			r.Screen.Fini()
		}()
		select {
		case <-done:
		case <-pbt.After(10 * time.Second):
		}
		r.Fini = true
	}
}

// Point describes what kind of observation point an op produced.
type Point int

const (
	None Point = iota
	Shown
	Synced
	Resized // redraw performed by the library after a resize notification
)

func (r *Runner) writeCount() int {
	// the Sink runs under the tty lock; Log() takes it too, giving a barrier
	_ = r.Tty.QueuedInput()
	return r.writes
}

// Apply executes one op on screen, model and terminal.
func (r *Runner) Apply(op Op) (Point, error) {
	s := r.Screen
	r.Faulted = false
	switch op.Kind {
	case "set":
		st := op.Style.Style()
		// the application's slice is its own: it is reused for something else
		// right after the call (the screen must have taken a copy)
		scratch := append([]rune(nil), op.Comb...)
		s.SetContent(op.X, op.Y, op.R, scratch, st)
		for i := range scratch {
			scratch[i] = 0x0336 // another zero-width mark
		}
		r.Shadow.SetContent(op.X, op.Y, op.R, op.Comb, st)
	case "setcell":
		st := op.Style.Style()
		scratch := append([]rune{op.R}, op.Comb...)
		s.SetCell(op.X, op.Y, st, scratch...)
		for i := range scratch {
			scratch[i] = 0x0336
		}
		r.Shadow.SetContent(op.X, op.Y, op.R, op.Comb, st)
	case "fill":
		st := op.Style.Style()
		s.Fill(op.R, st)
		r.Shadow.Fill(op.R, st)
	case "clear":
		s.Clear()
		r.Shadow.Fill(' ', tcell.StyleDefault)
	case "setstyle":
		st := op.Style.Style()
		s.SetStyle(st)
		r.Shadow.Default = st
	case "cursor":
		s.ShowCursor(op.X, op.Y)
		r.Shadow.CursorX, r.Shadow.CursorY = op.X, op.Y
	case "hidecursor":
		s.HideCursor()
		r.Shadow.CursorX, r.Shadow.CursorY = -1, -1
	case "cursorstyle":
		cs := tcell.CursorStyle(op.N)
		if op.Style.Fg != "" {
			s.SetCursorStyle(cs, op.Style.Fg.Color())
			r.Shadow.CursorColor = op.Style.Fg.Color()
		} else {
			s.SetCursorStyle(cs)
			r.Shadow.CursorColor = tcell.ColorNone
		}
		r.Shadow.CursorStyle = cs
	case "lock":
		s.LockRegion(op.X, op.Y, op.W, op.H, op.On)
		r.Shadow.Lock(op.X, op.Y, op.W, op.H, op.On)
	case "show":
		r.Term.NextBlock()
		resized := r.noticeSize()
		if !resized && r.silentResize {
			// the window went away from and back to the size the library knows
			// without a report: the library cannot know the terminal lost content
			r.Corrupted = true
		}
		r.silentResize = false
		r.Term.Quiet = false
		s.Show()
		r.Term.Quiet = true
		if r.writeFault {
			// the tty took only part of the frame: the terminal is left in the
			// middle of it, and only a full redraw has to repair that
			r.writeFault = false
			r.Term.AbortPending()
			r.Corrupted = true
			r.FullNext = false
			if r.BeforeMark != nil {
				r.BeforeMark(false)
			}
			r.Shadow.MarkShown(false)
			r.Faulted = true
			return Shown, nil
		}
		full := r.FullNext || resized
		r.FullNext = false
		if r.BeforeMark != nil {
			r.BeforeMark(full)
		}
		r.Shadow.MarkShown(full)
		if full {
			r.Corrupted = false
			return Synced, nil
		}
		return Shown, nil
	case "sync":
		r.Term.NextBlock()
		r.noticeSize()
		r.silentResize = false
		r.Term.Quiet = false
		s.Sync()
		r.Term.Quiet = true
		r.FullNext = false
		r.Corrupted = false
		if r.BeforeMark != nil {
			r.BeforeMark(true)
		}
		r.Shadow.MarkShown(true)
		return Synced, nil
	case "resize":
		// the terminal changes size first
		r.Term.Resize(op.W, op.H)
		if !op.On {
			r.Tty.SetSize(op.W, op.H, false)
			r.silentResize = true
			return None, nil // noticed by the next Show / Sync
		}
		r.Term.NextBlock()
		before := r.writeCount()
		r.Term.Quiet = false // the main loop redraws on its own
		defer func() { r.Term.Quiet = true }()
		if !r.Tty.SetSize(op.W, op.H, true) {
			return None, nil
		}
		deadline := time.Now().Add(pbt.Scaled(10 * time.Second))
		for r.writeCount() == before {
			if time.Now().After(deadline) {
				return None, fmt.Errorf("harness: no redraw within 10s of a resize notification")
			}
			time.Sleep(50 * time.Microsecond)
		}
		s.Size() // barrier: the redraw happens under the screen lock
		r.noticeSize()
		r.silentResize = false
		r.Drain()
		r.FullNext = false
		r.Corrupted = false
		if r.BeforeMark != nil {
			r.BeforeMark(true)
		}
		r.Shadow.MarkShown(true)
		return Resized, nil
	case "settitle":
		s.SetTitle(fmt.Sprintf("title-%d", op.N))
	case "suspres":
		// another program has the terminal for a while; what the screen shows
		// afterwards is only repaired by the next full redraw
		if err := s.Suspend(); err != nil {
			return None, fmt.Errorf("harness: Suspend: %v", err)
		}
		if err := s.Resume(); err != nil {
			return None, fmt.Errorf("harness: Resume: %v", err)
		}
		r.Drain()
		r.Corrupted = true
		// Suspend hands the terminal over and forgets the logical contents
		// (the cell buffer is resized to nothing and back): the application
		// draws again after Resume
		w, h := r.Shadow.W, r.Shadow.H
		r.Shadow.Resize(0, 0)
		r.Shadow.Resize(w, h)
		r.Shadow.InvalidateSnap()
	case "writefault":
		// the next frame (Show) is only partly accepted by the tty
		r.Tty.FailNextWrite(op.N)
		r.writeFault = true
	case "corrupt":
		r.Term.Scramble(op.N, r.Caps.Url)
		r.Corrupted = true
	default:
		return None, fmt.Errorf("harness: unknown op %q", op.Kind)
	}
	return None, nil
}

// noticeSize mirrors what the library does when it sees a new window size:
// the logical screen keeps the overlap, everything is repainted.
func (r *Runner) noticeSize() bool {
	ws, _ := r.Tty.WindowSize()
	if ws.Width == r.Shadow.W && ws.Height == r.Shadow.H {
		return false
	}
	r.Shadow.Resize(ws.Width, ws.Height)
	r.Shadow.InvalidateSnap()
	return true
}

// ---------------------------------------------------------------- expectations

// AcceptPens returns the pens the cell may have on a conforming terminal for
// the requested style.
type PenExpect struct {
	Fg, Bg, UlColor []vt.Color // acceptable values (nil = not compared)
	Pen             vt.Pen     // attributes, underline style, link
	SkipReverse     bool
}

func (r *Runner) colorExpect(c tcell.Color, other tcell.Color, isFg bool) []vt.Color {
	caps := r.Caps
	if caps.Mono {
		return nil
	}
	opv := caps.OpPen.Bg
	if isFg {
		opv = caps.OpPen.Fg
	}
	switch {
	case c == tcell.ColorReset:
		return []vt.Color{opv}
	case !c.Valid():
		// default: the pen after sgr0; if the other component asked for the
		// entry's op, that string may have set this one as a side effect
		if other == tcell.ColorReset {
			return []vt.Color{{}, opv}
		}
		return []vt.Color{{}}
	case c.IsRGB():
		rgb := c.Hex()
		if caps.Direct {
			return []vt.Color{{Kind: vt.ColRGB, V: rgb}}
		}
		var out []vt.Color
		for _, i := range colref.Nearest(rgb, caps.Colors) {
			out = append(out, vt.Color{Kind: vt.ColPalette, V: int32(i)})
		}
		return out
	default:
		idx := int(c & 0xffffff)
		if idx < caps.Colors {
			return []vt.Color{{Kind: vt.ColPalette, V: int32(idx)}}
		}
		if idx > 255 {
			return nil
		}
		var out []vt.Color
		for _, i := range colref.Nearest(colref.Palette(idx), caps.Colors) {
			out = append(out, vt.Color{Kind: vt.ColPalette, V: int32(i)})
		}
		return out
	}
}

// Expect computes the expectation for a style through the public accessors of
// the spec (the harness built the style, so it knows its parts).
func (r *Runner) Expect(sp gen.StyleSpec) PenExpect {
	caps := r.Caps
	var e PenExpect
	fg, bg := sp.Fg.Color(), sp.Bg.Color()
	e.Fg = r.colorExpect(fg, bg, true)
	e.Bg = r.colorExpect(bg, fg, false)
	e.SkipReverse = caps.Mono
	e.Pen.Bold = sp.Bold && caps.Bold
	e.Pen.Blink = sp.Blink && caps.Blink
	e.Pen.Reverse = sp.Reverse && caps.Reverse
	e.Pen.Dim = sp.Dim && caps.Dim
	e.Pen.Italic = sp.Italic && caps.Italic
	e.Pen.Strike = sp.Strike && caps.Strike
	e.UlColor = []vt.Color{{}}
	if sp.Ul != 0 {
		if caps.Uln {
			e.Pen.Ul = 1
		}
		if sp.Ul > 1 && caps.StyledUl {
			e.Pen.Ul = uint8(sp.Ul)
		}
		if caps.UlColor && sp.UlColor != "" {
			uc := sp.UlColor.Color()
			switch {
			case uc == tcell.ColorReset:
				e.UlColor = []vt.Color{{}}
			case uc.IsRGB():
				e.UlColor = []vt.Color{{Kind: vt.ColRGB, V: uc.Hex()}}
			case uc.Valid():
				e.UlColor = []vt.Color{{Kind: vt.ColPalette, V: int32(uc & 0xff)}}
			}
		}
	}
	if caps.Url && sp.Url != "" {
		e.Pen.Link = sp.Url
		if sp.UrlID != "" {
			e.Pen.LinkParams = "id=" + sp.UrlID
		}
	}
	return e
}

func inColors(cs []vt.Color, c vt.Color) bool {
	if cs == nil {
		return true
	}
	for _, x := range cs {
		if x == c {
			return true
		}
	}
	return false
}

// Match reports whether the emulator pen satisfies the expectation.
func (e PenExpect) Match(p vt.Pen) string {
	if !inColors(e.Fg, p.Fg) {
		return fmt.Sprintf("foreground %v, want one of %v", p.Fg, e.Fg)
	}
	if !inColors(e.Bg, p.Bg) {
		return fmt.Sprintf("background %v, want one of %v", p.Bg, e.Bg)
	}
	if !inColors(e.UlColor, p.UlColor) {
		return fmt.Sprintf("underline colour %v, want one of %v", p.UlColor, e.UlColor)
	}
	q, w := p, e.Pen
	q.Fg, q.Bg, q.UlColor, w.Fg, w.Bg, w.UlColor = vt.Color{}, vt.Color{}, vt.Color{}, vt.Color{}, vt.Color{}, vt.Color{}
	if e.SkipReverse {
		q.Reverse, w.Reverse = false, false
	}
	if q != w {
		return fmt.Sprintf("attributes/underline/link %+v, want %+v", q, w)
	}
	return ""
}

func init() {
	shadow.OnMerge = func(n, old, merged tcell.Style) {
		ns, _ := gen.SpecOf(n)
		os, _ := gen.SpecOf(old)
		gen.MergeNone(ns, os)
	}
}

// ExpectStyle is Expect for an opaque style value built by the harness.
func (r *Runner) ExpectStyle(st tcell.Style) (PenExpect, error) {
	sp, ok := gen.SpecOf(st)
	if !ok {
		return PenExpect{}, fmt.Errorf("harness: style %+v was not built from a spec", st)
	}
	return r.Expect(sp), nil
}

// CheckStrict reports tokenizer errors and incomplete sequences.
func (r *Runner) CheckStrict() error {
	if len(r.Term.Errors) > 0 {
		return fmt.Errorf("output stream is not well-formed: %s", strings.Join(r.Term.Errors, "; "))
	}
	if r.Term.Pending() {
		return fmt.Errorf("output stream ends inside a sequence: %s", r.Term.PendingDesc())
	}
	return nil
}

func eqRunes(a, b []rune) bool {
	if len(a) != len(b) {
		return false
	}
	for i := range a {
		if a[i] != b[i] {
			return false
		}
	}
	return true
}

// validScalar: can the rune be shown as itself?
func validScalar(r rune) bool {
	return r >= 0 && r <= 0x10FFFF && !(r >= 0xD800 && r <= 0xDFFF)
}

// CheckDisplay compares the reference terminal with the shadow model (UTF-8
// locales): every unlocked, non-hidden cell and the cursor.
func (r *Runner) CheckDisplay() error {
	if err := r.CheckStrict(); err != nil {
		return err
	}
	t, sh := r.Term, r.Shadow
	if t.W != sh.W || t.H != sh.H {
		return fmt.Errorf("harness: terminal is %dx%d, model %dx%d", t.W, t.H, sh.W, sh.H)
	}
	if w, h := r.Screen.Size(); w != sh.W || h != sh.H {
		return fmt.Errorf("Size() = %dx%d, terminal is %dx%d", w, h, sh.W, sh.H)
	}
	for y := 0; y < sh.H; y++ {
		row := sh.ExpectedRow(y)
		for x := 0; x < sh.W; x++ {
			v := row[x]
			if v.Hidden || sh.At(x, y).Locked {
				continue
			}
			c := t.At(x, y)
			base, comb, width := c.Base, c.Comb, int(c.Width)
			if base == 0 && width <= 1 {
				base, width = ' ', 1 // erased cell: shows as a blank in the default rendition
			}
			if c.Alt {
				return fmt.Errorf("cell (%d,%d): shown through the alternate character set (byte %q) in a UTF-8 locale", x, y, c.Base)
			}
			okGlyph := base == v.R
			if !okGlyph && !validScalar(v.R) && (base == 0xFFFD || base == ' ') {
				okGlyph = true // an invalid code point shown as U+FFFD or a blank
			}
			if !okGlyph || !eqRunes(comb, v.Comb) {
				return fmt.Errorf("cell (%d,%d): terminal shows %q+%q, application set %q+%q (blank=%v)", x, y, base, comb, v.R, v.Comb, v.Blank)
			}
			if width != v.Width {
				return fmt.Errorf("cell (%d,%d): glyph %q occupies %d column(s) on the terminal, expected %d", x, y, base, width, v.Width)
			}
			if v.Width == 2 && !t.At(x+1, y).Cont {
				return fmt.Errorf("cell (%d,%d): second column of wide glyph %q was overwritten", x+1, y, base)
			}
			var why string
			matched := false
			for _, st := range sh.Resolved(x, y) {
				e, err := r.ExpectStyle(st)
				if err != nil {
					return err
				}
				if why = e.Match(c.Pen); why == "" {
					matched = true
					break
				}
			}
			if !matched {
				sp, _ := gen.SpecOf(sh.At(x, y).Style)
				return fmt.Errorf("cell (%d,%d) %q: %s (requested style %+v, entry %s colours=%d direct=%v)", x, y, base, why, sp, r.Cfg.Entry, r.Caps.Colors, r.Caps.Direct)
			}
		}
	}
	return r.CheckCursor()
}

// CheckCursor verifies cursor position / visibility after a Show.
func (r *Runner) CheckCursor() error {
	t, sh := r.Term, r.Shadow
	cx, cy := sh.CursorX, sh.CursorY
	if sh.In(cx, cy) {
		if !t.CursorVisible {
			return fmt.Errorf("cursor requested at (%d,%d) but hidden on the terminal", cx, cy)
		}
		if t.X != cx || t.Y != cy || t.WrapPending {
			return fmt.Errorf("cursor requested at (%d,%d) but the terminal's cursor is at (%d,%d) (wrap pending %v)", cx, cy, t.X, t.Y, t.WrapPending)
		}
		return nil
	}
	if r.Caps.HideCursor {
		if t.CursorVisible {
			return fmt.Errorf("cursor requested off-screen (%d,%d) but visible on the terminal at (%d,%d)", cx, cy, t.X, t.Y)
		}
		return nil
	}
	if t.X != t.W-1 || t.Y != t.H-1 {
		return fmt.Errorf("cursor requested off-screen on a terminal that cannot hide it: parked at (%d,%d), want the bottom-right corner (%d,%d)", t.X, t.Y, t.W-1, t.H-1)
	}
	return nil
}

// WideAtCornerOnTrickTerminal reports the precise class of a known finding: an
// auto-margin terminal without rmam but with ich1 (where tcell paints the
// bottom-right cell with its insert trick) currently shows a wide rune whose
// second column is the bottom-right cell or the cell left of it (the cell the
// trick writes through).
func (r *Runner) WideAtCornerOnTrickTerminal() bool {
	sh := r.Shadow
	if !r.Caps.AMTrick || sh.W < 2 || sh.H < 1 {
		return false
	}
	row := sh.ExpectedRow(sh.H - 1)
	if row[sh.W-2].Width == 2 {
		return true // second column is the corner cell: written directly, scrolls
	}
	// first column at w-3: the trick paints the corner through cell w-2, which
	// is the wide rune's second column
	return sh.W >= 3 && row[sh.W-3].Width == 2
}
