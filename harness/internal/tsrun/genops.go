package tsrun

import (
	"pgregory.net/rapid"

	"verifharness/internal/gen"
)

// GenOpts tunes the history generator.
type GenOpts struct {
	MaxOps   int
	Hostile  bool // shift rune weights to control / invalid / zero-width classes
	Resize   bool
	Corrupt  bool
	Lock     bool
	MaxW     int
	MaxH     int
	MinW     int
	Urls     bool
	NoNotify bool // only resize flavour "noticed by the next Show"
}

// GenConfig draws entry, colour mode and size.
func GenConfig(t *rapid.T, entries []string, o GenOpts) Config {
	c := Config{Entry: rapid.SampledFrom(entries).Draw(t, "entry")}
	c.Color = rapid.SampledFrom([]string{"shipped", "shipped", "rgb", "disable"}).Draw(t, "colormode")
	minW := o.MinW
	if minW < 1 {
		minW = 1
	}
	c.W = rapid.IntRange(minW, o.MaxW).Draw(t, "w")
	c.H = rapid.IntRange(1, o.MaxH).Draw(t, "h")
	return c
}

// GenOps draws a history for a screen that starts at w x h.
func GenOps(t *rapid.T, w, h int, o GenOpts) []Op {
	n := rapid.IntRange(1, o.MaxOps).Draw(t, "nops")
	var ops []Op
	var last, lastLock *Op
	shows := 0
	for i := 0; i < n; i++ {
		k := rapid.IntRange(0, 29).Draw(t, "opkind")
		var op Op
		switch {
		case k <= 11:
			op = Op{Kind: "set", X: rapid.IntRange(-2, w+1).Draw(t, "x"), Y: rapid.IntRange(-2, h+1).Draw(t, "y"), R: gen.Rune(t, "r", o.Hostile), Comb: gen.Comb(t, "comb"), Style: gen.Style(t, "st", true, o.Urls)}
			if rapid.IntRange(0, 3).Draw(t, "inrange") != 0 && w > 0 && h > 0 {
				op.X, op.Y = rapid.IntRange(0, w-1).Draw(t, "xi"), rapid.IntRange(0, h-1).Draw(t, "yi")
			}
			if rapid.IntRange(0, 7).Draw(t, "lastcol") == 0 {
				op.X = w - 1
			}
			if rapid.IntRange(0, 9).Draw(t, "corner") == 0 {
				op.X, op.Y = w-1, h-1
			}
			if last != nil && rapid.IntRange(0, 4).Draw(t, "again") == 0 {
				// same place again: identical content, or a wide<->narrow
				// replacement (only the position is taken from the earlier op so
				// that shrinking can still drop either of them)
				switch rapid.IntRange(0, 2).Draw(t, "variant") {
				case 0:
					op = *last
				case 1:
					op.X, op.Y = last.X, last.Y
				case 2:
					op.X, op.Y, op.R, op.Comb = last.X, last.Y, last.R, last.Comb
				}
			}
			if rapid.IntRange(0, 5).Draw(t, "setcell") == 0 {
				op.Kind = "setcell"
			}
			c := op
			last = &c
		case k == 12:
			op = Op{Kind: "fill", R: gen.FillRune(t, "fr", o.Hostile), Style: gen.Style(t, "fst", true, false)}
		case k == 13:
			op = Op{Kind: "clear"}
		case k == 14:
			op = Op{Kind: "setstyle", Style: gen.Style(t, "dst", false, false)}
		case k <= 16:
			op = Op{Kind: "cursor", X: rapid.IntRange(-1, w).Draw(t, "cx"), Y: rapid.IntRange(-1, h).Draw(t, "cy")}
			if rapid.IntRange(0, 4).Draw(t, "hide") == 0 {
				op = Op{Kind: "hidecursor"}
			}
		case k == 17:
			op = Op{Kind: "cursorstyle", N: rapid.IntRange(0, 6).Draw(t, "cstyle")}
			if rapid.Bool().Draw(t, "ccolor") {
				op.Style.Fg = gen.Color(t, "cc", false)
			}
		case k == 18 && o.Lock:
			op = Op{Kind: "lock", X: rapid.IntRange(-1, w).Draw(t, "lx"), Y: rapid.IntRange(-1, h).Draw(t, "ly"), W: rapid.IntRange(0, 3).Draw(t, "lw"), H: rapid.IntRange(0, 2).Draw(t, "lh"), On: rapid.IntRange(0, 2).Draw(t, "lon") != 0}
			if lastLock != nil && rapid.IntRange(0, 2).Draw(t, "relock") == 0 {
				// the same region again: locked twice, or the matching unlock
				op = *lastLock
				op.On = rapid.Bool().Draw(t, "relockon")
			}
			if op.On {
				c := op
				lastLock = &c
			}
		case k == 19 && o.Resize:
			op = Op{Kind: "resize", W: rapid.IntRange(max(1, o.MinW), o.MaxW).Draw(t, "nw"), H: rapid.IntRange(1, o.MaxH).Draw(t, "nh"), On: !o.NoNotify && rapid.Bool().Draw(t, "notify")}
			w, h = op.W, op.H
		case k == 20 && o.Corrupt:
			op = Op{Kind: "corrupt", N: rapid.IntRange(1, 1000).Draw(t, "cseed")}
		case k == 21:
			op = Op{Kind: "sync"}
			shows++
		default:
			op = Op{Kind: "show"}
			shows++
		}
		ops = append(ops, op)
	}
	if shows == 0 || ops[len(ops)-1].Kind != "show" {
		ops = append(ops, Op{Kind: "show"})
	}
	return ops
}
