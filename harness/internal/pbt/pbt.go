// Package pbt is the small framework shared by all property packages: it runs
// rapid-driven and exhaustive sub-checks, counts what was generated, keeps
// distinct-hash sets of non-trivial cases, saves failing cases as JSON replay
// files, runs committed regression cases, matches known findings and dumps
// per-process statistics for the driver (cmd/check) to merge into evidence.
package pbt

import (
	"container/heap"
	"encoding/binary"
	"encoding/json"
	"flag"
	"fmt"
	"hash/fnv"
	"os"
	"path/filepath"
	"regexp"
	"runtime"
	"runtime/debug"
	"sort"
	"strconv"
	"strings"
	"sync"
	"sync/atomic"
	"testing"
	"time"

	"pgregory.net/rapid"
)

// ---------------------------------------------------------------- environment

var (
	propID   string
	tier            = "quick"
	seed     uint64 = 1
	shard    int
	nshards  = 1
	outDir   string
	replay   string
	verifDir = "/verif"
)

// Thorough reports whether the thorough tier was requested.
func Thorough() bool { return tier == "thorough" }

// Seed is the per-process seed (already mixed with the shard index, never 0).
func Seed() uint64 { return seed }

// Shard returns (index, count) of this process among the parallel shards.
func Shard() (int, int) { return shard, nshards }

// Pick returns q in the quick tier and th in the thorough tier.
func Pick(q, th int) int {
	if Thorough() {
		return th
	}
	return q
}

func mix(s uint64, i int) uint64 {
	x := s + 0x9e3779b97f4a7c15*uint64(i+1)
	x ^= x >> 30
	x *= 0xbf58476d1ce4e5b9
	x ^= x >> 27
	x *= 0x94d049bb133111eb
	x ^= x >> 31
	if x == 0 {
		x = 1
	}
	return x
}

// ---------------------------------------------------------------- statistics

// Violation is one failure that is not a known finding.
type Violation struct {
	Check  string `json:"check"`
	Replay string `json:"replay"`
	Error  string `json:"error"`
}

// Stats is what one process dumps for the driver.
type Stats struct {
	Property     string            `json:"property"`
	Tier         string            `json:"tier"`
	Seed         uint64            `json:"seed"`
	Shard        int               `json:"shard"`
	Evaluations  int64             `json:"evaluations"`
	NonTrivial   int64             `json:"nontrivial_evaluations"`
	HashesCapped bool              `json:"hashes_capped"`
	Classes      map[string]int64  `json:"classes"`
	Excluded     map[string]int64  `json:"excluded"`
	KnownHits    map[string]string `json:"known_hits"`
	Violations   []Violation       `json:"violations"`
	Samples      []json.RawMessage `json:"samples"`
	Rule         string            `json:"rule"`
	Assumptions  []string          `json:"assumptions"`
	Exhaustive   []string          `json:"exhaustive"`
	Extra        map[string]any    `json:"extra"`
	Inconclusive []string          `json:"inconclusive"`
	WallS        float64           `json:"wall_s"`
	Completed    bool              `json:"completed"`
}

const hashCap = 600000

var (
	mu     sync.Mutex
	st     Stats
	hashes = map[uint64]struct{}{}
	start  time.Time
	// per sub-check sample budget
	sampleCount = map[string]int{}
)

// Describe sets the generation / non-triviality rule and the assumptions that
// go into the evidence file.
func Describe(rule string, assumptions ...string) {
	mu.Lock()
	st.Rule = rule
	st.Assumptions = append(st.Assumptions, assumptions...)
	mu.Unlock()
}

// Extra records an additional evidence key.
func Extra(key string, v any) {
	mu.Lock()
	st.Extra[key] = v
	mu.Unlock()
}

// AddExtra adds n to a numeric extra key.
func AddExtra(key string, n int64) {
	mu.Lock()
	cur, _ := st.Extra[key].(int64)
	st.Extra[key] = cur + n
	mu.Unlock()
}

// Exhaustive records that a finite sub-space was enumerated completely.
func Exhaustive(what string) {
	mu.Lock()
	st.Exhaustive = append(st.Exhaustive, what)
	mu.Unlock()
}

// Inconclusive records a budget/infrastructure problem (never a violation).
func Inconclusive(what string) {
	mu.Lock()
	st.Inconclusive = append(st.Inconclusive, what)
	mu.Unlock()
}

// Class bumps a generator-distribution counter.
func Class(name string) {
	mu.Lock()
	st.Classes[name]++
	mu.Unlock()
}

// Excluded counts a case (or assertion) that was steered away from a known finding.
func Excluded(id string) {
	mu.Lock()
	st.Excluded[id]++
	mu.Unlock()
}

// KnownHit records that known finding id was observed (regression case or generated case).
func KnownHit(id, what string) {
	mu.Lock()
	if _, ok := st.KnownHits[id]; !ok {
		st.KnownHits[id] = what
	}
	mu.Unlock()
}

// Hash64 hashes arbitrary bytes.
func Hash64(b []byte) uint64 {
	h := fnv.New64a()
	_, _ = h.Write(b)
	return h.Sum64()
}

// HashStr hashes strings.
func HashStr(parts ...string) uint64 {
	h := fnv.New64a()
	for _, p := range parts {
		_, _ = h.Write([]byte(p))
		_, _ = h.Write([]byte{0})
	}
	return h.Sum64()
}

// Note counts one evaluated case. hash identifies it for distinct counting.
func Note(nontrivial bool, hash uint64) {
	mu.Lock()
	st.Evaluations++
	if nontrivial {
		st.NonTrivial++
		if len(hashes) < hashCap {
			hashes[hash] = struct{}{}
		} else {
			st.HashesCapped = true
		}
	}
	mu.Unlock()
}

// NoteN counts n evaluated cases of which k distinct non-trivial ones are
// identified by the given hashes (used by dense sweeps that identify whole
// blocks of cases at once).
func NoteN(n int64) {
	mu.Lock()
	st.Evaluations += n
	mu.Unlock()
}

// Sample stores up to max samples per sub-check.
func Sample(check string, max int, v any) {
	mu.Lock()
	defer mu.Unlock()
	if sampleCount[check] >= max {
		return
	}
	b, err := json.Marshal(map[string]any{"check": check, "case": v})
	if err != nil {
		return
	}
	if len(b) > 6000 {
		b, _ = json.Marshal(map[string]any{"check": check, "case_truncated": string(b[:6000])})
	}
	sampleCount[check]++
	st.Samples = append(st.Samples, b)
}

func addViolation(check, replayPath string, err error) {
	mu.Lock()
	st.Violations = append(st.Violations, Violation{Check: check, Replay: replayPath, Error: truncate(err.Error(), 4000)})
	mu.Unlock()
}

// ReportViolation is for sub-checks that are not case based (e.g. a build failure).
func ReportViolation(check, replayPath string, err error) { addViolation(check, replayPath, err) }

func truncate(s string, n int) string {
	if len(s) > n {
		return s[:n] + "…"
	}
	return s
}

// ---------------------------------------------------------------- TestMain

// Main is called from each property package's TestMain.
func Main(m *testing.M, id string) {
	propID = id
	st = Stats{Property: id, Classes: map[string]int64{}, Excluded: map[string]int64{}, KnownHits: map[string]string{}, Extra: map[string]any{}}
	if v := os.Getenv("VERIF_DIR"); v != "" {
		verifDir = v
	}
	if v := os.Getenv("VERIF_TIER"); v != "" {
		tier = v
	}
	base := uint64(1)
	if v := os.Getenv("VERIF_SEED"); v != "" {
		if n, err := strconv.ParseInt(v, 10, 64); err == nil {
			base = uint64(n)
		}
	}
	if v := os.Getenv("VERIF_SHARD"); v != "" {
		shard, _ = strconv.Atoi(v)
	}
	if v := os.Getenv("VERIF_NSHARDS"); v != "" {
		nshards, _ = strconv.Atoi(v)
		if nshards < 1 {
			nshards = 1
		}
	}
	outDir = os.Getenv("VERIF_OUTDIR")
	replay = os.Getenv("VERIF_REPLAY")
	seed = mix(base, shard)
	st.Tier, st.Seed, st.Shard = tier, base, shard
	flag.Parse()
	_ = flag.Set("rapid.nofailfile", "true")
	_ = flag.Set("rapid.seed", strconv.FormatUint(seed, 10))
	start = time.Now()
	code := m.Run()
	st.Completed = true
	if os.Getenv("VERIF_FUZZ") == "" { // the native-fuzz stage keeps its own books (see FuzzCheck)
		flush()
	}
	os.Exit(code)
}

func flush() {
	mu.Lock()
	defer mu.Unlock()
	st.WallS = time.Since(start).Seconds()
	if outDir == "" {
		return
	}
	_ = os.MkdirAll(outDir, 0o755)
	b, _ := json.MarshalIndent(&st, "", " ")
	_ = os.WriteFile(filepath.Join(outDir, fmt.Sprintf("shard-%d.json", shard)), b, 0o644)
	hs := make([]uint64, 0, len(hashes))
	for h := range hashes {
		hs = append(hs, h)
	}
	sort.Slice(hs, func(i, j int) bool { return hs[i] < hs[j] })
	buf := make([]byte, 8*len(hs))
	for i, h := range hs {
		binary.LittleEndian.PutUint64(buf[8*i:], h)
	}
	_ = os.WriteFile(filepath.Join(outDir, fmt.Sprintf("shard-%d.hashes", shard)), buf, 0o644)
}

// ---------------------------------------------------------------- case files

// CaseFile is the on-disk form of a replay / regression case.
type CaseFile struct {
	Property string          `json:"property"`
	Check    string          `json:"check"`
	Error    string          `json:"error,omitempty"`
	Note     string          `json:"note,omitempty"`
	Case     json.RawMessage `json:"case"`
}

func saveCase(check string, c any, err error) string {
	dir := filepath.Join(verifDir, "replays", propID)
	_ = os.MkdirAll(dir, 0o755)
	p := filepath.Join(dir, fmt.Sprintf("%s-%s-seed%d-shard%d.json", check, tier, st.Seed, shard))
	raw, _ := json.Marshal(c)
	cf := CaseFile{Property: propID, Check: check, Case: raw}
	if err != nil {
		cf.Error = truncate(err.Error(), 4000)
	}
	b, _ := json.MarshalIndent(&cf, "", " ")
	_ = os.WriteFile(p, b, 0o644)
	return p
}

func regressFiles(check string) []string {
	files, _ := filepath.Glob(filepath.Join(verifDir, "regress", propID, "*.json"))
	sort.Strings(files)
	var out []string
	for _, f := range files {
		b, err := os.ReadFile(f)
		if err != nil {
			continue
		}
		var cf CaseFile
		if json.Unmarshal(b, &cf) != nil {
			continue
		}
		if cf.Check == check {
			out = append(out, f)
		}
	}
	return out
}

func loadCase[C any](path string) (CaseFile, C, error) {
	var cf CaseFile
	var c C
	b, err := os.ReadFile(path)
	if err != nil {
		return cf, c, err
	}
	if err := json.Unmarshal(b, &cf); err != nil {
		return cf, c, err
	}
	if err := json.Unmarshal(cf.Case, &c); err != nil {
		return cf, c, err
	}
	return cf, c, nil
}

// ---------------------------------------------------------------- running checks

// Spec describes one case-based sub-check.
type Spec[C any] struct {
	// Gen draws a case; all randomness must come from t.
	Gen func(t *rapid.T) C
	// Prop returns nil when the property holds on the case. Panics are
	// converted into errors by the framework.
	Prop func(c C) error
	// NonTrivial implements the property's stated non-triviality rule.
	NonTrivial func(c C) bool
	// Classes optionally labels the case for the distribution histogram.
	Classes func(c C) []string
	// Known optionally maps a failure onto the id of a known finding (exact
	// class match); "" means: not known, report it.
	Known func(c C, err error) string
	// Samples to keep (default 3).
	Samples int
}

// Safe runs f converting a panic into an error that carries the stack.
func Safe(f func() error) (err error) {
	defer func() {
		if r := recover(); r != nil {
			err = fmt.Errorf("panic: %v\n%s", r, truncate(string(debug.Stack()), 1400))
		}
	}()
	return f()
}

func hashCase(c any) uint64 {
	b, _ := json.Marshal(c)
	return Hash64(b)
}

// one evaluation of a spec on a case; returns a non-nil error only for an
// unknown failure.
func evalCase[C any](check string, s *Spec[C], c C, count bool) error {
	err := Safe(func() error { return s.Prop(c) })
	noteGuard(err)
	if count {
		nt := s.NonTrivial == nil || s.NonTrivial(c)
		Note(nt, hashCase(c)^HashStr(check))
		if s.Classes != nil {
			for _, cl := range s.Classes(c) {
				Class(check + ":" + cl)
			}
		}
		max := s.Samples
		if max == 0 {
			max = 3
		}
		if nt {
			Sample(check, max, c)
		}
	}
	if err == nil {
		return nil
	}
	if s.Known != nil {
		if id := s.Known(c, err); id != "" {
			Excluded(id)
			KnownHit(id, truncate(err.Error(), 300))
			return nil
		}
	}
	return err
}

// Check runs the sub-check "name": replay mode, then committed regression
// cases, then n generated cases (n is divided by nothing: every shard runs n
// cases with its own seed).
func Check[C any](t *testing.T, name string, n int, s Spec[C]) {
	t.Helper()
	if replay != "" {
		cf, c, err := loadCase[C](replay)
		if err != nil {
			// not ours or unreadable
			var probe CaseFile
			if b, e := os.ReadFile(replay); e == nil && json.Unmarshal(b, &probe) == nil && probe.Check != name {
				return
			}
			Inconclusive("cannot load replay file: " + err.Error())
			return
		}
		if cf.Check != name {
			return
		}
		reps := 1
		if v := os.Getenv("VERIF_REPLAY_REPS"); v != "" {
			reps, _ = strconv.Atoi(v)
		}
		for i := 0; i < reps; i++ {
			if err := evalCase(name, &s, c, i == 0); err != nil {
				addViolation(name, replay, err)
				t.Errorf("replay %s: %v", replay, err)
				return
			}
		}
		// make evidence schema-valid for a replay run
		Note(true, 1)
		Note(true, 2)
		return
	}
	// regression cases first
	if shard == 0 {
		for _, f := range regressFiles(name) {
			_, c, err := loadCase[C](f)
			if err != nil {
				Inconclusive("cannot load regression case " + f + ": " + err.Error())
				continue
			}
			Class(name + ":regression-case")
			if err := evalCase(name, &s, c, true); err != nil {
				addViolation(name, f, err)
				t.Errorf("regression case %s: %v", f, err)
			}
		}
	}
	if n <= 0 {
		return
	}
	_ = flag.Set("rapid.checks", strconv.Itoa(n))
	var lastPath string
	var lastErr error
	failed := false
	ok := t.Run(name, func(t *testing.T) {
		rapid.Check(t, func(rt *rapid.T) {
			c := s.Gen(rt)
			if err := evalCase(name, &s, c, !failed); err != nil {
				failed = true
				lastErr = err
				lastPath = saveCase(name, c, err)
				rt.Fatalf("%v", err)
			}
		})
	})
	if !ok {
		if lastErr != nil {
			addViolation(name, lastPath, lastErr)
		} else {
			Inconclusive("sub-check " + name + " failed without a property failure (generator or harness problem)")
		}
	}
}

// FuzzCheck registers sub-check "name" as a native (coverage-guided) fuzz target.
// decode builds a case from the fuzzer's bytes by construction (never by
// rejection); the spec's oracle runs inside the target. A failing case is saved
// in the same JSON form as a rapid failure, so that --replay works on it, and a
// record for the driver is left in VERIF_OUTDIR.
func FuzzCheck[C any](f *testing.F, name string, s Spec[C], decode func(data []byte) (C, bool), seeds [][]byte) {
	for _, sd := range seeds {
		f.Add(sd)
	}
	f.Fuzz(func(t *testing.T, data []byte) {
		c, ok := decode(data)
		if !ok {
			return
		}
		if err := fuzzEval(name, &s, c); err != nil {
			t.Fatalf("%v", err)
		}
	})
}

// FuzzRapid registers sub-check "name" as a native fuzz target whose bytes drive
// the spec's own rapid generator (rapid.MakeFuzz): the typed grammar of the
// generator is kept, the search is guided by coverage instead of being blind.
func FuzzRapid[C any](f *testing.F, name string, s Spec[C]) {
	f.Fuzz(rapid.MakeFuzz(func(rt *rapid.T) {
		c := s.Gen(rt)
		if err := fuzzEval(name, &s, c); err != nil {
			rt.Fatalf("%v", err)
		}
	}))
}

func fuzzEval[C any](name string, s *Spec[C], c C) error {
	err := Safe(func() error { return s.Prop(c) })
	if err == nil {
		return nil
	}
	if s.Known != nil && s.Known(c, err) != "" {
		return nil
	}
	dir := filepath.Join(verifDir, "replays", propID)
	_ = os.MkdirAll(dir, 0o755)
	raw, _ := json.Marshal(c)
	path := filepath.Join(dir, fmt.Sprintf("%s-fuzz-%016x.json", name, Hash64(raw)))
	cf := CaseFile{Property: propID, Check: name, Case: raw, Error: truncate(err.Error(), 4000), Note: "found by the native fuzz stage"}
	b, _ := json.MarshalIndent(&cf, "", " ")
	_ = os.WriteFile(path, b, 0o644)
	if outDir != "" {
		v := Violation{Check: name, Replay: path, Error: truncate(err.Error(), 2000)}
		vb, _ := json.Marshal(&v)
		_ = os.WriteFile(filepath.Join(outDir, fmt.Sprintf("fuzzviol-%09d-%016x.json", len(raw), Hash64(raw))), vb, 0o644)
	}
	return err
}

// Sweep is the handle for an exhaustive / enumerated sub-check.
type Sweep struct {
	name   string
	t      *testing.T
	fails  int
	maxRep int
}

// NewSweep starts an enumerated sub-check. In replay mode enumerations are skipped.
func NewSweep(t *testing.T, name string) *Sweep {
	return &Sweep{name: name, t: t, maxRep: 3}
}

// Skip reports whether the sweep should not run (replay mode).
func (sw *Sweep) Skip() bool { return replay != "" }

// Stop reports that enough failures were recorded (3): a sweep on a badly
// broken tree should end instead of grinding through millions of failures.
func (sw *Sweep) Stop() bool { return sw.fails >= sw.maxRep }

// Mine reports whether item i belongs to this shard.
func (sw *Sweep) Mine(i int) bool { return i%nshards == shard }

// Case records one enumerated case; c is only marshalled when needed.
func (sw *Sweep) Case(nontrivial bool, hash uint64, c func() any, err error, known func(err error) string) {
	Note(nontrivial, hash^HashStr(sw.name))
	if nontrivial {
		mu.Lock()
		need := sampleCount[sw.name] < 3
		mu.Unlock()
		if need {
			Sample(sw.name, 3, c())
		}
	}
	if err == nil {
		return
	}
	if known != nil {
		if id := known(err); id != "" {
			Excluded(id)
			KnownHit(id, truncate(err.Error(), 300))
			return
		}
	}
	sw.fails++
	if sw.fails <= sw.maxRep {
		p := saveCaseN(sw.name, sw.fails, c(), err)
		addViolation(sw.name, p, err)
		sw.t.Errorf("%s: %v", sw.name, err)
	}
}

func saveCaseN(check string, k int, c any, err error) string {
	dir := filepath.Join(verifDir, "replays", propID)
	_ = os.MkdirAll(dir, 0o755)
	p := filepath.Join(dir, fmt.Sprintf("%s-%s-seed%d-shard%d-%d.json", check, tier, st.Seed, shard, k))
	raw, _ := json.Marshal(c)
	cf := CaseFile{Property: propID, Check: check, Case: raw, Error: truncate(err.Error(), 4000)}
	b, _ := json.MarshalIndent(&cf, "", " ")
	_ = os.WriteFile(p, b, 0o644)
	return p
}

// Replaying reports whether a replay file was given, and its check name.
func Replaying() (string, bool) {
	if replay == "" {
		return "", false
	}
	b, err := os.ReadFile(replay)
	if err != nil {
		return "", true
	}
	var cf CaseFile
	_ = json.Unmarshal(b, &cf)
	return cf.Check, true
}

// ReplayCase loads the replay file's case into v when it belongs to check.
func ReplayCase(check string, v any) bool {
	if replay == "" {
		return false
	}
	b, err := os.ReadFile(replay)
	if err != nil {
		return false
	}
	var cf CaseFile
	if json.Unmarshal(b, &cf) != nil || cf.Check != check {
		return false
	}
	return json.Unmarshal(cf.Case, v) == nil
}

// ReplayPath returns the replay file path ("" when not replaying).
func ReplayPath() string { return replay }

// Errf is fmt.Errorf.
func Errf(format string, a ...any) error { return fmt.Errorf(format, a...) }

// JoinErr joins messages.
func JoinErr(msgs []string) error {
	if len(msgs) == 0 {
		return nil
	}
	return fmt.Errorf("%s", strings.Join(msgs, "\n"))
}

// Recover is deferred at the top of TestProp: a panic in harness code becomes
// an inconclusive result (exit 2) instead of killing the process before the
// statistics are flushed.
func Recover(t *testing.T) {
	if r := recover(); r != nil {
		Inconclusive(fmt.Sprintf("harness panic: %v\n%s", r, truncate(string(debug.Stack()), 1400)))
		t.Errorf("harness panic: %v", r)
	}
}

// ---------------------------------------------------------------- load-aware hang guards

// Scaled stretches a hang guard by how oversubscribed the machine is right now
// (1-minute load average per CPU): a call that needs microseconds can take
// seconds to be scheduled when forty busy processes share sixteen cores, and a
// guard that expires then says nothing about the code. A deadlock never
// finishes, so stretching the wait only delays its report.
func Scaled(d time.Duration) time.Duration {
	if guardFired.Load() {
		// a guard has already expired in this process: what follows is the
		// shrinking of that failure, which repeats the hanging call many times
		return d
	}
	f := 1.0
	if b, err := os.ReadFile("/proc/loadavg"); err == nil {
		var l1 float64
		if _, err := fmt.Sscanf(string(b), "%f", &l1); err == nil {
			per := l1 / float64(runtime.NumCPU())
			if per > 0.5 {
				f = 1 + 3*(per-0.5)
			}
		}
	}
	if f > 8 {
		f = 8
	}
	return time.Duration(float64(d) * f)
}

// IdleDur stretches a wait that is EXPECTED to run out in normal operation
// ("nothing more arrives for d") - each one costs its full length, so it is
// stretched only mildly (at most 2x).
func IdleDur(d time.Duration) time.Duration {
	if s := Scaled(d); s < 2*d {
		return s
	}
	return 2 * d
}

// Idle is time.After(IdleDur(d)).
func Idle(d time.Duration) <-chan time.Time { return time.After(IdleDur(d)) }

var guardFired atomic.Bool

var guardWords = regexp.MustCompile(`did not return|did not finish|no call completed|still blocked|was not closed|did not close|stalled|no redraw within|not delivered within`)

// noteGuard recognises a failure that is an expired hang guard.
func noteGuard(err error) {
	if err != nil && guardWords.MatchString(err.Error()) {
		guardFired.Store(true)
	}
}

// GuardFired is called where a hang guard expired (see Scaled).
func GuardFired() { guardFired.Store(true) }

// After is a hang guard: like time.After(Scaled(d)), but measured on a clock
// that only advances while this process is actually being scheduled. A
// goroutine of the process ticks every 5 ms and credits at most 15 ms per
// tick; when forty busy processes share the cores and a tick takes 200 ms to
// come round, the guard's time passes that much more slowly, for the guarded
// call is being starved just the same. When the code under test deadlocks,
// the clock goroutine is scheduled normally and the guard fires on time.
func After(d time.Duration) <-chan time.Time {
	d = Scaled(d)
	ch := make(chan time.Time, 1)
	fair.mu.Lock()
	if !fair.started {
		fair.started = true
		go fairLoop()
	}
	heap.Push(&fair.h, fairTimer{at: fair.now + d, ch: ch})
	fair.mu.Unlock()
	return ch
}

type fairTimer struct {
	at time.Duration
	ch chan time.Time
}

type fairHeap []fairTimer

func (h fairHeap) Len() int            { return len(h) }
func (h fairHeap) Less(i, j int) bool  { return h[i].at < h[j].at }
func (h fairHeap) Swap(i, j int)       { h[i], h[j] = h[j], h[i] }
func (h *fairHeap) Push(x interface{}) { *h = append(*h, x.(fairTimer)) }
func (h *fairHeap) Pop() interface{} {
	old := *h
	n := len(old)
	x := old[n-1]
	*h = old[:n-1]
	return x
}

var fair struct {
	mu      sync.Mutex
	now     time.Duration
	h       fairHeap
	started bool
}

func fairLoop() {
	last := time.Now()
	for {
		time.Sleep(5 * time.Millisecond)
		t := time.Now()
		el := t.Sub(last)
		last = t
		if el > 15*time.Millisecond {
			el = 15 * time.Millisecond
		}
		fair.mu.Lock()
		fair.now += el
		for fair.h.Len() > 0 && fair.h[0].at <= fair.now {
			ft := heap.Pop(&fair.h).(fairTimer)
			ft.ch <- t
		}
		fair.mu.Unlock()
	}
}
