// Package csets enumerates the stateless character sets registered by tcell's
// encoding package and their repertoires, using independently instantiated
// x/text codecs (fresh encoder/decoder per call) as the reference.
package csets

import (
	"sync"
	"unicode"
	"unicode/utf8"

	"github.com/gdamore/tcell/v2"
	tenc "github.com/gdamore/tcell/v2/encoding"
)

// Stateless lists every charset registered by encoding.Register() except the
// escape-driven 7-bit ISO-2022-JP and HZ-GB2312 (registered as "ISO2022JP" and
// "GB2312"), plus the always-present US-ASCII and UTF-8.
var Stateless = []string{
	"UTF-8", "US-ASCII",
	"ISO8859-1", "ISO8859-2", "ISO8859-3", "ISO8859-4", "ISO8859-5", "ISO8859-6", "ISO8859-7", "ISO8859-8",
	"ISO8859-9", "ISO8859-10", "ISO8859-13", "ISO8859-14", "ISO8859-15", "ISO8859-16",
	"KOI8-R", "KOI8-U",
	"EUC-JP", "SHIFT_JIS", "EUC-KR", "GB18030", "GBK", "Big5",
}

// MultiByte reports whether the charset has multi-byte characters.
func MultiByte(cs string) bool {
	switch cs {
	case "UTF-8", "EUC-JP", "SHIFT_JIS", "EUC-KR", "GB18030", "GBK", "Big5":
		return true
	}
	return false
}

var once sync.Once

// Init registers the encodings (idempotent).
func Init() { once.Do(tenc.Register) }

// Encode encodes r in cs with a fresh encoder; ok=false if not representable.
func Encode(cs string, r rune) ([]byte, bool) {
	if cs == "UTF-8" {
		if !utf8.ValidRune(r) {
			return nil, false
		}
		b := make([]byte, 4)
		n := utf8.EncodeRune(b, r)
		return b[:n], true
	}
	if cs == "US-ASCII" {
		if r < 0x80 && r >= 0 {
			return []byte{byte(r)}, true
		}
		return nil, false
	}
	enc := tcell.GetEncoding(cs)
	if enc == nil {
		return nil, false
	}
	if !utf8.ValidRune(r) {
		return nil, false
	}
	src := make([]byte, 4)
	n := utf8.EncodeRune(src, r)
	dst := make([]byte, 16)
	nd, ns, err := enc.NewEncoder().Transform(dst, src[:n], true)
	if err != nil || ns != n || nd == 0 {
		return nil, false
	}
	if nd == 1 && dst[0] == 0x1a && r != 0x1a {
		return nil, false
	}
	// round trip through a fresh decoder
	back, ok := DecodeOne(cs, dst[:nd])
	if !ok || back != r {
		return nil, false
	}
	return append([]byte{}, dst[:nd]...), true
}

// DecodeOne decodes b, which must be exactly one character of cs.
func DecodeOne(cs string, b []byte) (rune, bool) {
	if cs == "UTF-8" {
		r, n := utf8.DecodeRune(b)
		if r == utf8.RuneError || n != len(b) {
			return 0, false
		}
		return r, true
	}
	if cs == "US-ASCII" {
		if len(b) == 1 && b[0] < 0x80 {
			return rune(b[0]), true
		}
		return 0, false
	}
	enc := tcell.GetEncoding(cs)
	if enc == nil {
		return 0, false
	}
	dst := make([]byte, 16)
	nd, ns, err := enc.NewDecoder().Transform(dst, b, true)
	if err != nil || ns != len(b) || nd == 0 {
		return 0, false
	}
	r, n := utf8.DecodeRune(dst[:nd])
	if r == utf8.RuneError || n != nd {
		return 0, false
	}
	return r, true
}

// Char is one character of a repertoire.
type Char struct {
	R rune
	B []byte
}

var (
	mu    sync.Mutex
	cache = map[string][]Char{}
)

// Printable reports whether r is text (not a control, not a surrogate /
// non-character, not a private-use or unassigned code point).
func Printable(r rune) bool {
	if r < 0x20 || (r >= 0x7f && r <= 0x9f) {
		return false
	}
	if !utf8.ValidRune(r) || r == 0xFFFE || r == 0xFFFF || r == 0xFFFD {
		return false
	}
	return unicode.IsPrint(r) || unicode.IsSpace(r) && r != '\t' && r != '\n' && r != '\r' && r != '\v' && r != '\f' && r != 0x85
}

// Repertoire returns every printable BMP character (plus a sample of astral
// ones for UTF-8 / GB18030) that cs can represent, with its encoding.
func Repertoire(cs string) []Char {
	Init()
	mu.Lock()
	defer mu.Unlock()
	if c, ok := cache[cs]; ok {
		return c
	}
	var out []Char
	add := func(r rune) {
		if !Printable(r) {
			return
		}
		if b, ok := Encode(cs, r); ok {
			out = append(out, Char{r, b})
		}
	}
	for r := rune(0x20); r <= 0xFFFF; r++ {
		add(r)
	}
	if cs == "UTF-8" || cs == "GB18030" {
		for r := rune(0x10000); r <= 0x2FFFF; r += 7 {
			add(r)
		}
		for _, r := range []rune{0x1F600, 0x1F680, 0x1D11E, 0x10348, 0x2070E, 0xE0041 + 0x100, 0x10FFFD} {
			add(r)
		}
	}
	cache[cs] = out
	return out
}

// EncodeLoose encodes r in cs with a fresh encoder without demanding that the
// bytes decode back to r: this is "the character set's encoding of the rune".
func EncodeLoose(cs string, r rune) ([]byte, bool) {
	if cs == "UTF-8" || cs == "US-ASCII" {
		return Encode(cs, r)
	}
	enc := tcell.GetEncoding(cs)
	if enc == nil || !utf8.ValidRune(r) {
		return nil, false
	}
	src := make([]byte, 4)
	n := utf8.EncodeRune(src, r)
	dst := make([]byte, 16)
	nd, ns, err := enc.NewEncoder().Transform(dst, src[:n], true)
	if err != nil || ns != n || nd == 0 {
		return nil, false
	}
	if dst[0] == 0x1a && r != 0x1a {
		return nil, false
	}
	return append([]byte{}, dst[:nd]...), true
}
