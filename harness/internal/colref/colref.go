// Package colref is the colour reference shared by the display checks: the
// xterm 256-colour palette formula and an independent sRGB -> CIELAB (D65)
// conversion with the CIE76 difference.
package colref

import "math"

var ansi16 = [16]int32{0x000000, 0x800000, 0x008000, 0x808000, 0x000080, 0x800080, 0x008080, 0xC0C0C0,
	0x808080, 0xFF0000, 0x00FF00, 0xFFFF00, 0x0000FF, 0xFF00FF, 0x00FFFF, 0xFFFFFF}

func level(k int) int32 {
	if k == 0 {
		return 0
	}
	return int32(55 + 40*k)
}

// Palette returns 0xRRGGBB of xterm palette index i (0..255).
func Palette(i int) int32 {
	switch {
	case i < 16:
		return ansi16[i]
	case i < 232:
		j := i - 16
		return level(j/36)<<16 | level((j/6)%6)<<8 | level(j%6)
	}
	l := int32(8 + 10*(i-232))
	return l<<16 | l<<8 | l
}

// Lab is a CIELAB colour.
type Lab struct{ L, A, B float64 }

func lin(c float64) float64 {
	if c <= 0.04045 {
		return c / 12.92
	}
	return math.Pow((c+0.055)/1.055, 2.4)
}

func f(t float64) float64 {
	if t > 216.0/24389.0 {
		return math.Cbrt(t)
	}
	return (24389.0/27.0*t + 16) / 116
}

// ToLab converts 0xRRGGBB (sRGB) to CIELAB under D65.
func ToLab(rgb int32) Lab {
	r := lin(float64((rgb>>16)&0xff) / 255)
	g := lin(float64((rgb>>8)&0xff) / 255)
	b := lin(float64(rgb&0xff) / 255)
	x := 0.4124564*r + 0.3575761*g + 0.1804375*b
	y := 0.2126729*r + 0.7151522*g + 0.0721750*b
	z := 0.0193339*r + 0.1191920*g + 0.9503041*b
	fx, fy, fz := f(x/0.95047), f(y/1.0), f(z/1.08883)
	return Lab{116*fy - 16, 500 * (fx - fy), 200 * (fy - fz)}
}

// DeltaE76 is the Euclidean distance in L*a*b*.
func DeltaE76(a, b Lab) float64 {
	return math.Sqrt((a.L-b.L)*(a.L-b.L) + (a.A-b.A)*(a.A-b.A) + (a.B-b.B)*(a.B-b.B))
}

// Nearest returns the set of palette indices in [0,n) whose CIE76 distance to
// rgb is minimal (within a relative tolerance, so near-ties are all accepted).
func Nearest(rgb int32, n int) []int {
	c := ToLab(rgb)
	best := math.Inf(1)
	d := make([]float64, n)
	for i := 0; i < n; i++ {
		d[i] = DeltaE76(c, ToLab(Palette(i)))
		if d[i] < best {
			best = d[i]
		}
	}
	var out []int
	for i := 0; i < n; i++ {
		if d[i] <= best*(1+2e-3)+1e-3 { // near-ties: implementations differ in the last digits of the sRGB matrix
			out = append(out, i)
		}
	}
	return out
}
