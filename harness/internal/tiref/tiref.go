// Package tiref is an independent reference implementation of the terminfo(5)
// parameterized-string language: a parser producing a properly nested AST, a
// tree-walking evaluator with C int semantics, a C-printf formatter, a
// well-formedness predicate and a typed program generator.  It is written from
// the terminfo(5) manual page, deliberately unlike tcell's flat skip-state loop.
package tiref

import (
	"errors"
	"fmt"
	"strconv"
	"strings"
)

// Value is an int or a string.
type Value struct {
	IsStr bool
	I     int64
	S     string
}

func IntV(i int64) Value  { return Value{I: i} }
func StrV(s string) Value { return Value{IsStr: true, S: s} }

// Node kinds.
const (
	NLit    = "lit"    // literal bytes (Text)
	NPct    = "pct"    // %%
	NParam  = "param"  // %pN (N)
	NInc    = "inc"    // %i
	NOut    = "out"    // formatted output: Flags, Width, Prec, Verb (d o x X s c); Colon
	NChar   = "char"   // %'c' (N = byte value)
	NInt    = "int"    // %{nn} (N)
	NLen    = "len"    // %l
	NOp     = "op"     // binary / unary operator (Op)
	NSetVar = "setvar" // %P<Var>
	NGetVar = "getvar" // %g<Var>
	NCond   = "cond"   // %? ... %;
)

// Clause is one "cond %t body" arm.
type Clause struct {
	Cond []Node `json:"cond"`
	Body []Node `json:"body"`
}

// Node is one element of a parsed program.
type Node struct {
	Kind    string   `json:"k"`
	Text    string   `json:"text,omitempty"`
	N       int      `json:"n,omitempty"`
	Op      string   `json:"op,omitempty"`
	Var     string   `json:"var,omitempty"`
	Flags   string   `json:"flags,omitempty"`
	Width   int      `json:"width,omitempty"` // -1 = none
	Prec    int      `json:"prec,omitempty"`  // -1 = none
	Verb    string   `json:"verb,omitempty"`
	Colon   bool     `json:"colon,omitempty"`
	Clauses []Clause `json:"clauses,omitempty"`
	Else    []Node   `json:"else,omitempty"`
	HasElse bool     `json:"haselse,omitempty"`
}

// ---------------------------------------------------------------- printing

// String renders the program in terminfo syntax.
func String(prog []Node) string {
	var sb strings.Builder
	for _, n := range prog {
		n.write(&sb)
	}
	return sb.String()
}

func (n Node) write(sb *strings.Builder) {
	switch n.Kind {
	case NLit:
		sb.WriteString(n.Text)
	case NPct:
		sb.WriteString("%%")
	case NParam:
		sb.WriteString("%p" + strconv.Itoa(n.N))
	case NInc:
		sb.WriteString("%i")
	case NOut:
		sb.WriteString("%")
		if n.Colon {
			sb.WriteString(":")
		}
		sb.WriteString(n.Flags)
		if n.Width >= 0 {
			sb.WriteString(strconv.Itoa(n.Width))
		}
		if n.Prec >= 0 {
			sb.WriteString("." + strconv.Itoa(n.Prec))
		}
		sb.WriteString(n.Verb)
	case NChar:
		sb.WriteString("%'" + string([]byte{byte(n.N)}) + "'")
	case NInt:
		sb.WriteString("%{" + strconv.Itoa(n.N) + "}")
	case NLen:
		sb.WriteString("%l")
	case NOp:
		sb.WriteString("%" + n.Op)
	case NSetVar:
		sb.WriteString("%P" + n.Var)
	case NGetVar:
		sb.WriteString("%g" + n.Var)
	case NCond:
		sb.WriteString("%?")
		for i, c := range n.Clauses {
			if i > 0 {
				sb.WriteString("%e")
			}
			for _, x := range c.Cond {
				x.write(sb)
			}
			sb.WriteString("%t")
			for _, x := range c.Body {
				x.write(sb)
			}
		}
		if n.HasElse {
			sb.WriteString("%e")
			for _, x := range n.Else {
				x.write(sb)
			}
		}
		sb.WriteString("%;")
	}
}

// ---------------------------------------------------------------- parsing

// ErrMalformed is returned (wrapped) for strings that are not well-formed
// terminfo(5) programs.
var ErrMalformed = errors.New("malformed terminfo string")

type parser struct {
	s   string
	pos int
}

func malformed(pos int, format string, a ...any) error {
	return fmt.Errorf("%w at offset %d: %s", ErrMalformed, pos, fmt.Sprintf(format, a...))
}

// Parse parses a capability string.
func Parse(s string) ([]Node, error) {
	p := &parser{s: s}
	nodes, stop, err := p.seq()
	if err != nil {
		return nil, err
	}
	if stop != "" {
		return nil, malformed(p.pos, "%%%s outside a conditional", stop)
	}
	return nodes, nil
}

// seq parses until end of string or an unmatched %t %e %; (returned as stop).
func (p *parser) seq() ([]Node, string, error) {
	var out []Node
	var lit strings.Builder
	flush := func() {
		if lit.Len() > 0 {
			out = append(out, Node{Kind: NLit, Text: lit.String(), Width: -1, Prec: -1})
			lit.Reset()
		}
	}
	for p.pos < len(p.s) {
		ch := p.s[p.pos]
		if ch != '%' {
			lit.WriteByte(ch)
			p.pos++
			continue
		}
		start := p.pos
		p.pos++
		if p.pos >= len(p.s) {
			return nil, "", malformed(start, "dangling %%")
		}
		ch = p.s[p.pos]
		p.pos++
		switch ch {
		case '%':
			flush()
			out = append(out, Node{Kind: NPct, Width: -1, Prec: -1})
		case 'i':
			flush()
			out = append(out, Node{Kind: NInc, Width: -1, Prec: -1})
		case 'p':
			if p.pos >= len(p.s) || p.s[p.pos] < '1' || p.s[p.pos] > '9' {
				return nil, "", malformed(start, "%%p needs a digit 1-9")
			}
			flush()
			out = append(out, Node{Kind: NParam, N: int(p.s[p.pos] - '0'), Width: -1, Prec: -1})
			p.pos++
		case 'P', 'g':
			if p.pos >= len(p.s) || !isLetter(p.s[p.pos]) {
				return nil, "", malformed(start, "%%%c needs a variable letter", ch)
			}
			flush()
			k := NSetVar
			if ch == 'g' {
				k = NGetVar
			}
			out = append(out, Node{Kind: k, Var: string(p.s[p.pos]), Width: -1, Prec: -1})
			p.pos++
		case '\'':
			if p.pos+1 >= len(p.s) || p.s[p.pos+1] != '\'' {
				return nil, "", malformed(start, "unterminated character constant")
			}
			flush()
			out = append(out, Node{Kind: NChar, N: int(p.s[p.pos]), Width: -1, Prec: -1})
			p.pos += 2
		case '{':
			j := p.pos
			for j < len(p.s) && p.s[j] >= '0' && p.s[j] <= '9' {
				j++
			}
			if j == p.pos || j >= len(p.s) || p.s[j] != '}' {
				return nil, "", malformed(start, "bad integer constant")
			}
			v, err := strconv.Atoi(p.s[p.pos:j])
			if err != nil {
				return nil, "", malformed(start, "integer constant out of range")
			}
			flush()
			out = append(out, Node{Kind: NInt, N: v, Width: -1, Prec: -1})
			p.pos = j + 1
		case 'l':
			flush()
			out = append(out, Node{Kind: NLen, Width: -1, Prec: -1})
		case '+', '-', '*', '/', 'm', '&', '|', '^', '=', '>', '<', 'A', 'O', '!', '~':
			flush()
			out = append(out, Node{Kind: NOp, Op: string(ch), Width: -1, Prec: -1})
		case '?':
			flush()
			n, err := p.cond(start)
			if err != nil {
				return nil, "", err
			}
			out = append(out, n)
		case 't', 'e', ';':
			flush()
			return out, string(ch), nil
		case 'd', 'o', 'x', 'X', 's', 'c', ':', '#', ' ', '0', '1', '2', '3', '4', '5', '6', '7', '8', '9':
			p.pos-- // re-read as part of the format
			n, err := p.format(start)
			if err != nil {
				return nil, "", err
			}
			flush()
			out = append(out, n)
		default:
			return nil, "", malformed(start, "unknown directive %%%c", ch)
		}
	}
	flush()
	return out, "", nil
}

func isLetter(b byte) bool { return (b >= 'a' && b <= 'z') || (b >= 'A' && b <= 'Z') }

// format parses [:]flags width.prec verb starting at p.pos (just after '%').
func (p *parser) format(start int) (Node, error) {
	n := Node{Kind: NOut, Width: -1, Prec: -1}
	if p.pos < len(p.s) && p.s[p.pos] == ':' {
		n.Colon = true
		p.pos++
	}
	for p.pos < len(p.s) {
		c := p.s[p.pos]
		if c == '#' || c == ' ' || (n.Colon && (c == '-' || c == '+')) || (c == '0' && !strings.Contains(n.Flags, "0")) {
			// '-' and '+' are only flags after a ':' (or after another flag)
			n.Flags += string(c)
			p.pos++
			continue
		}
		if (c == '-' || c == '+') && n.Flags != "" {
			n.Flags += string(c)
			p.pos++
			continue
		}
		break
	}
	j := p.pos
	for j < len(p.s) && p.s[j] >= '0' && p.s[j] <= '9' {
		j++
	}
	if j > p.pos {
		n.Width, _ = strconv.Atoi(p.s[p.pos:j])
		p.pos = j
	}
	if p.pos < len(p.s) && p.s[p.pos] == '.' {
		p.pos++
		j = p.pos
		for j < len(p.s) && p.s[j] >= '0' && p.s[j] <= '9' {
			j++
		}
		n.Prec = 0
		if j > p.pos {
			n.Prec, _ = strconv.Atoi(p.s[p.pos:j])
		}
		p.pos = j
	}
	if p.pos >= len(p.s) {
		return n, malformed(start, "format without conversion")
	}
	switch v := p.s[p.pos]; v {
	case 'd', 'o', 'x', 'X', 's', 'c':
		n.Verb = string(v)
		p.pos++
	default:
		return n, malformed(start, "bad conversion %q", v)
	}
	return n, nil
}

func (p *parser) cond(start int) (Node, error) {
	n := Node{Kind: NCond, Width: -1, Prec: -1}
	for {
		condPart, stop, err := p.seq()
		if err != nil {
			return n, err
		}
		if stop != "t" {
			return n, malformed(start, "conditional: expected %%t, got %q", stop)
		}
		body, stop, err := p.seq()
		if err != nil {
			return n, err
		}
		n.Clauses = append(n.Clauses, Clause{Cond: condPart, Body: body})
		switch stop {
		case ";":
			return n, nil
		case "e":
			// either an else-if (cond %t ...) or the final else part
			save := p.pos
			part, stop2, err := p.seq()
			if err != nil {
				return n, err
			}
			switch stop2 {
			case ";":
				n.HasElse = true
				n.Else = part
				return n, nil
			case "t":
				// else-if: re-parse from save as a new clause
				p.pos = save
				continue
			default:
				return n, malformed(start, "conditional: unterminated else part")
			}
		default:
			return n, malformed(start, "conditional not terminated by %%;")
		}
	}
}

// ---------------------------------------------------------------- evaluation

// ErrOverflow marks evaluations whose intermediate values leave the C int range.
var ErrOverflow = errors.New("value outside C int range")

// ErrType marks evaluations that use a string where a number is needed (or
// vice versa) - behaviour the manual page does not define.
var ErrType = errors.New("operand type not defined by terminfo(5)")

// ErrUnderflow marks a pop from an empty stack.
var ErrUnderflow = errors.New("stack underflow")

// OutHook, when set, observes every output conversion (used by checks to
// classify constructs whose result is unspecified).
var OutHook func(n Node, v Value)

// Machine holds the variables that persist across calls (static variables).
type Machine struct {
	Static [26]Value
}

type frame struct {
	m      *Machine
	params [9]Value
	have   int
	dyn    [26]Value
	stack  []Value
	out    []byte
}

// Eval evaluates prog with the given parameters.
func (m *Machine) Eval(prog []Node, params []Value) (string, error) {
	f := &frame{m: m}
	for i := 0; i < len(params) && i < 9; i++ {
		f.params[i] = params[i]
	}
	f.have = len(params)
	if err := f.run(prog); err != nil {
		return string(f.out), err
	}
	return string(f.out), nil
}

func (f *frame) push(v Value) error {
	if !v.IsStr && (v.I > 0x7fffffff || v.I < -0x80000000) {
		return ErrOverflow
	}
	f.stack = append(f.stack, v)
	return nil
}

func (f *frame) pop() (Value, error) {
	if len(f.stack) == 0 {
		return Value{}, ErrUnderflow
	}
	v := f.stack[len(f.stack)-1]
	f.stack = f.stack[:len(f.stack)-1]
	return v, nil
}

func (f *frame) popInt() (int64, error) {
	v, err := f.pop()
	if err != nil {
		return 0, err
	}
	if v.IsStr {
		return 0, ErrType
	}
	return v.I, nil
}

func b2i(b bool) int64 {
	if b {
		return 1
	}
	return 0
}

func (f *frame) run(prog []Node) error {
	for _, n := range prog {
		if err := f.step(n); err != nil {
			return err
		}
	}
	return nil
}

func (f *frame) step(n Node) error {
	switch n.Kind {
	case NLit:
		f.out = append(f.out, n.Text...)
	case NPct:
		f.out = append(f.out, '%')
	case NParam:
		return f.push(f.params[n.N-1])
	case NInc:
		for i := 0; i < 2; i++ {
			if !f.params[i].IsStr && i < f.have {
				f.params[i].I++
			}
		}
	case NOut:
		v, err := f.pop()
		if err != nil {
			return err
		}
		if OutHook != nil {
			OutHook(n, v)
		}
		s, err := Format(n, v)
		if err != nil {
			return err
		}
		f.out = append(f.out, s...)
	case NChar, NInt:
		return f.push(IntV(int64(n.N)))
	case NLen:
		v, err := f.pop()
		if err != nil {
			return err
		}
		if !v.IsStr {
			return ErrType
		}
		return f.push(IntV(int64(len(v.S))))
	case NSetVar:
		v, err := f.pop()
		if err != nil {
			return err
		}
		c := n.Var[0]
		if c >= 'A' && c <= 'Z' {
			f.m.Static[c-'A'] = v
		} else {
			f.dyn[c-'a'] = v
		}
	case NGetVar:
		c := n.Var[0]
		if c >= 'A' && c <= 'Z' {
			return f.push(f.m.Static[c-'A'])
		}
		return f.push(f.dyn[c-'a'])
	case NOp:
		switch n.Op {
		case "!", "~":
			a, err := f.popInt()
			if err != nil {
				return err
			}
			if n.Op == "!" {
				return f.push(IntV(b2i(a == 0)))
			}
			return f.push(IntV(^a))
		}
		b, err := f.popInt()
		if err != nil {
			return err
		}
		a, err := f.popInt()
		if err != nil {
			return err
		}
		var r int64
		switch n.Op {
		case "+":
			r = a + b
		case "-":
			r = a - b
		case "*":
			r = a * b
		case "/":
			if b != 0 {
				r = a / b
			}
		case "m":
			if b != 0 {
				r = a % b
			}
		case "&":
			r = a & b
		case "|":
			r = a | b
		case "^":
			r = a ^ b
		case "=":
			r = b2i(a == b)
		case ">":
			r = b2i(a > b)
		case "<":
			r = b2i(a < b)
		case "A":
			r = b2i(a != 0 && b != 0)
		case "O":
			r = b2i(a != 0 || b != 0)
		}
		return f.push(IntV(r))
	case NCond:
		for _, c := range n.Clauses {
			if err := f.run(c.Cond); err != nil {
				return err
			}
			v, err := f.popInt()
			if err != nil {
				return err
			}
			if v != 0 {
				return f.run(c.Body)
			}
		}
		if n.HasElse {
			return f.run(n.Else)
		}
	}
	return nil
}

// ---------------------------------------------------------------- C printf

// Format renders v per the C printf conversion described by n.
func Format(n Node, v Value) (string, error) {
	left := strings.Contains(n.Flags, "-")
	zero := strings.Contains(n.Flags, "0")
	plus := strings.Contains(n.Flags, "+")
	space := strings.Contains(n.Flags, " ")
	alt := strings.Contains(n.Flags, "#")
	pad := func(prefix, body string, allowZero bool) string {
		total := len(prefix) + len(body)
		if n.Width <= total {
			return prefix + body
		}
		fill := n.Width - total
		switch {
		case left:
			return prefix + body + strings.Repeat(" ", fill)
		case zero && allowZero:
			return prefix + strings.Repeat("0", fill) + body
		default:
			return strings.Repeat(" ", fill) + prefix + body
		}
	}
	switch n.Verb {
	case "s":
		if !v.IsStr {
			return "", ErrType
		}
		s := v.S
		if n.Prec >= 0 && n.Prec < len(s) {
			s = s[:n.Prec]
		}
		return pad("", s, false), nil
	case "c":
		if v.IsStr {
			return "", ErrType
		}
		return pad("", string([]byte{byte(v.I)}), false), nil
	case "d":
		if v.IsStr {
			return "", ErrType
		}
		neg := v.I < 0
		a := v.I
		if neg {
			a = -a
		}
		digits := strconv.FormatInt(a, 10)
		if n.Prec >= 0 {
			if n.Prec == 0 && a == 0 {
				digits = ""
			}
			for len(digits) < n.Prec {
				digits = "0" + digits
			}
		}
		prefix := ""
		switch {
		case neg:
			prefix = "-"
		case plus:
			prefix = "+"
		case space:
			prefix = " "
		}
		return pad(prefix, digits, n.Prec < 0), nil
	case "o", "x", "X":
		if v.IsStr {
			return "", ErrType
		}
		u := uint64(uint32(int32(v.I)))
		var digits string
		switch n.Verb {
		case "o":
			digits = strconv.FormatUint(u, 8)
		case "x":
			digits = strconv.FormatUint(u, 16)
		case "X":
			digits = strings.ToUpper(strconv.FormatUint(u, 16))
		}
		if n.Prec >= 0 {
			if n.Prec == 0 && u == 0 {
				digits = ""
			}
			for len(digits) < n.Prec {
				digits = "0" + digits
			}
		}
		prefix := ""
		if alt {
			switch n.Verb {
			case "o":
				if !strings.HasPrefix(digits, "0") {
					digits = "0" + digits
				}
			case "x":
				if u != 0 {
					prefix = "0x"
				}
			case "X":
				if u != 0 {
					prefix = "0X"
				}
			}
		}
		return pad(prefix, digits, n.Prec < 0), nil
	}
	return "", fmt.Errorf("bad verb %q", n.Verb)
}

// ---------------------------------------------------------------- analysis

// Usage describes which parameters a program references and how.
type Usage struct {
	MaxParam int
	Params   map[int]bool
	Nested   bool // a conditional inside a conditional
	ElseIf   bool
	Static   bool
	Conds    int
}

// Analyze walks the AST.
func Analyze(prog []Node) Usage {
	u := Usage{Params: map[int]bool{}}
	var walk func(ns []Node, depth int)
	walk = func(ns []Node, depth int) {
		for _, n := range ns {
			switch n.Kind {
			case NParam:
				u.Params[n.N] = true
				if n.N > u.MaxParam {
					u.MaxParam = n.N
				}
			case NSetVar, NGetVar:
				if n.Var[0] >= 'A' && n.Var[0] <= 'Z' {
					u.Static = true
				}
			case NCond:
				u.Conds++
				if depth > 0 {
					u.Nested = true
				}
				if len(n.Clauses) > 1 {
					u.ElseIf = true
				}
				for _, c := range n.Clauses {
					walk(c.Cond, depth+1)
					walk(c.Body, depth+1)
				}
				walk(n.Else, depth+1)
			}
		}
	}
	walk(prog, 0)
	return u
}

// StackCheck verifies that the program never pops from an empty stack on any
// path and that every conditional part leaves exactly one value for %t: the
// structural part of well-formedness (used by C14). It returns the net stack
// effect.
func StackCheck(prog []Node) (int, error) {
	return stackSeq(prog, 0)
}

func stackSeq(ns []Node, depth int) (int, error) {
	d := depth
	for _, n := range ns {
		switch n.Kind {
		case NParam, NChar, NInt, NGetVar:
			d++
		case NOut, NSetVar:
			if d < 1 {
				return d, fmt.Errorf("%w: %s pops from an empty stack", ErrMalformed, n.Kind)
			}
			d--
		case NLen:
			if d < 1 {
				return d, fmt.Errorf("%w: %%l on an empty stack", ErrMalformed)
			}
		case NOp:
			need := 2
			if n.Op == "!" || n.Op == "~" {
				need = 1
			}
			if d < need {
				return d, fmt.Errorf("%w: %%%s needs %d operands, stack has %d", ErrMalformed, n.Op, need, d)
			}
			d -= need - 1
		case NCond:
			for _, c := range n.Clauses {
				cd, err := stackSeq(c.Cond, d)
				if err != nil {
					return d, err
				}
				if cd < 1 {
					return d, fmt.Errorf("%w: %%t with nothing to test", ErrMalformed)
				}
				// %t pops the test value; bodies run from the remaining depth
				bd, err := stackSeq(c.Body, cd-1)
				if err != nil {
					return d, err
				}
				_ = bd
			}
			if n.HasElse {
				if _, err := stackSeq(n.Else, d); err != nil {
					return d, err
				}
			}
		}
	}
	return d, nil
}
