package tiref

import (
	"strings"

	"pgregory.net/rapid"
)

// GenOpts bounds the typed program generator.
type GenOpts struct {
	Depth     int  // nesting depth of conditionals
	IntOnly   bool // only integer parameters (for the ncurses cross-check)
	NoStatics bool
}

// ParamSpec is a serialisable parameter.
type ParamSpec struct {
	IsStr bool   `json:"s,omitempty"`
	I     int64  `json:"i,omitempty"`
	S     string `json:"str,omitempty"`
}

// Values converts specs to reference values.
func Values(ps []ParamSpec) []Value {
	out := make([]Value, len(ps))
	for i, p := range ps {
		if p.IsStr {
			out[i] = StrV(p.S)
		} else {
			out[i] = IntV(p.I)
		}
	}
	return out
}

type genCtx struct {
	t      *rapid.T
	opts   GenOpts
	params []ParamSpec
	ints   []int // 1-based indices of int params
	strs   []int
	strSet []string // string variables assigned earlier in the program text
}

func lit(s string) Node { return Node{Kind: NLit, Text: s, Width: -1, Prec: -1} }
func nd(k string) Node  { return Node{Kind: k, Width: -1, Prec: -1} }

var litAlphabet = []byte("abcXYZ019;:[]()<>$ =-+*/!?#'{}\\\x1b,.~^&|_")

// GenParams draws 0..6 parameters.
func GenParams(t *rapid.T, intOnly bool) []ParamSpec {
	n := rapid.IntRange(0, 6).Draw(t, "nparams")
	ps := make([]ParamSpec, n)
	for i := range ps {
		if !intOnly && rapid.IntRange(0, 4).Draw(t, "isstr") == 0 {
			ps[i] = ParamSpec{IsStr: true, S: string(rapid.SliceOfN(rapid.SampledFrom([]byte("abz09 ;/#%$<>é\x1b")), 0, 6).Draw(t, "sparam"))}
			continue
		}
		k := rapid.IntRange(0, 9).Draw(t, "ikind")
		var v int64
		switch {
		case k <= 3:
			v = int64(rapid.IntRange(0, 16).Draw(t, "iparam"))
		case k <= 6:
			v = int64(rapid.IntRange(0, 300).Draw(t, "iparam"))
		case k == 7:
			v = int64(rapid.IntRange(-5, 1100).Draw(t, "iparam"))
		case k == 8:
			v = int64(rapid.SampledFrom([]int{0, 1, 7, 8, 15, 16, 31, 32, 127, 128, 255, 256, 1023, 65535, 1 << 20}).Draw(t, "iparam"))
		default:
			v = int64(rapid.IntRange(-100000, 100000).Draw(t, "iparam"))
		}
		ps[i] = ParamSpec{I: v}
	}
	return ps
}

// GenProgram draws a well-formed, well-typed program over the given parameters.
func GenProgram(t *rapid.T, params []ParamSpec, opts GenOpts) []Node {
	g := &genCtx{t: t, opts: opts, params: params}
	for i, p := range params {
		if p.IsStr {
			g.strs = append(g.strs, i+1)
		} else {
			g.ints = append(g.ints, i+1)
		}
	}
	prog := g.block(opts.Depth, rapid.IntRange(1, 6).Draw(t, "nstmts"))
	// %i: at most once per program (ncurses applies it once per call; programs
	// with several %i are not something terminfo(5) gives a meaning to), and only
	// when the first two parameters are numbers
	ok := true
	for i := 0; i < 2 && i < len(params); i++ {
		if params[i].IsStr {
			ok = false
		}
	}
	if ok && rapid.IntRange(0, 2).Draw(t, "inc") == 0 {
		at := rapid.IntRange(0, len(prog)).Draw(t, "incat")
		np := append([]Node{}, prog[:at]...)
		np = append(np, nd(NInc))
		prog = append(np, prog[at:]...)
	}
	return prog
}

func (g *genCtx) block(depth, n int) []Node {
	var out []Node
	for i := 0; i < n; i++ {
		out = append(out, g.stmt(depth)...)
	}
	return out
}

func (g *genCtx) stmt(depth int) []Node {
	t := g.t
	k := rapid.IntRange(0, 13).Draw(t, "stmt")
	switch {
	case k <= 2:
		return []Node{lit(string(rapid.SliceOfN(rapid.SampledFrom(litAlphabet), 1, 5).Draw(t, "lit")))}
	case k == 3:
		return []Node{nd(NPct)}
	case k <= 6:
		return append(g.intExpr(3), g.outInt())
	case k == 7:
		if len(g.strs) > 0 || rapid.IntRange(0, 5).Draw(t, "strvar") == 0 {
			if e := g.strExpr(); e != nil {
				return append(e, g.outStr())
			}
		}
		return append(g.intExpr(2), g.outInt())
	case k == 8:
		// set an integer variable
		return append(g.intExpr(2), Node{Kind: NSetVar, Var: g.intVar(), Width: -1, Prec: -1})
	case k == 9:
		if e := g.strExpr(); e != nil && rapid.Bool().Draw(t, "setstr") {
			v := g.strVar()
			g.strSet = append(g.strSet, v)
			return append(e, Node{Kind: NSetVar, Var: v, Width: -1, Prec: -1})
		}
		return []Node{lit("i")}
	default:
		if depth <= 0 {
			return append(g.intExpr(2), g.outInt())
		}
		return []Node{g.cond(depth)}
	}
}

func (g *genCtx) cond(depth int) Node {
	t := g.t
	n := Node{Kind: NCond, Width: -1, Prec: -1}
	nclauses := rapid.SampledFrom([]int{1, 1, 1, 2, 2, 3}).Draw(t, "nclauses")
	for i := 0; i < nclauses; i++ {
		c := Clause{Cond: g.boolExpr()}
		c.Body = g.block(depth-1, rapid.IntRange(0, 3).Draw(t, "nbody"))
		n.Clauses = append(n.Clauses, c)
	}
	if rapid.IntRange(0, 2).Draw(t, "haselse") != 0 {
		n.HasElse = true
		n.Else = g.block(depth-1, rapid.IntRange(0, 3).Draw(t, "nelse"))
	}
	return n
}

func (g *genCtx) boolExpr() []Node {
	t := g.t
	switch rapid.IntRange(0, 5).Draw(t, "bool") {
	case 0:
		return g.intExpr(1)
	case 1:
		return append(g.intExpr(1), Node{Kind: NOp, Op: "!", Width: -1, Prec: -1})
	case 2:
		a := append(g.boolExprSimple(), g.boolExprSimple()...)
		return append(a, Node{Kind: NOp, Op: rapid.SampledFrom([]string{"A", "O"}).Draw(t, "logop"), Width: -1, Prec: -1})
	default:
		return g.boolExprSimple()
	}
}

func (g *genCtx) boolExprSimple() []Node {
	a := append(g.intExpr(1), g.intExpr(1)...)
	return append(a, Node{Kind: NOp, Op: rapid.SampledFrom([]string{"=", ">", "<"}).Draw(g.t, "cmp"), Width: -1, Prec: -1})
}

func (g *genCtx) intVar() string {
	t := g.t
	if !g.opts.NoStatics && rapid.IntRange(0, 2).Draw(t, "static") == 0 {
		return string(rune('A' + rapid.IntRange(0, 3).Draw(t, "svar")))
	}
	return string(rune('a' + rapid.IntRange(0, 3).Draw(t, "dvar")))
}

func (g *genCtx) strVar() string {
	t := g.t
	if !g.opts.NoStatics && rapid.IntRange(0, 2).Draw(t, "static") == 0 {
		return string(rune('N' + rapid.IntRange(0, 2).Draw(t, "ssvar")))
	}
	return string(rune('n' + rapid.IntRange(0, 2).Draw(t, "dsvar")))
}

func (g *genCtx) strExpr() []Node {
	t := g.t
	if len(g.strs) > 0 && rapid.IntRange(0, 3).Draw(t, "strsrc") != 0 {
		return []Node{{Kind: NParam, N: rapid.SampledFrom(g.strs).Draw(t, "sidx"), Width: -1, Prec: -1}}
	}
	if g.opts.IntOnly || len(g.strSet) == 0 {
		return nil
	}
	return []Node{{Kind: NGetVar, Var: rapid.SampledFrom(g.strSet).Draw(t, "svarget"), Width: -1, Prec: -1}}
}

func (g *genCtx) intExpr(depth int) []Node {
	t := g.t
	k := rapid.IntRange(0, 11).Draw(t, "iexpr")
	if depth <= 0 && k > 6 {
		k = k % 7
	}
	switch {
	case k <= 2:
		if len(g.ints) > 0 {
			return []Node{{Kind: NParam, N: rapid.SampledFrom(g.ints).Draw(t, "pidx"), Width: -1, Prec: -1}}
		}
		fallthrough
	case k <= 4:
		return []Node{{Kind: NInt, N: rapid.OneOf(rapid.IntRange(0, 20), rapid.IntRange(0, 300), rapid.SampledFrom([]int{8, 16, 32, 64, 127, 128, 255, 256, 1000, 65536})).Draw(t, "const"), Width: -1, Prec: -1}}
	case k == 5:
		return []Node{{Kind: NChar, N: int(rapid.SampledFrom([]byte("0 A~a!%;x@")).Draw(t, "char")), Width: -1, Prec: -1}}
	case k == 6:
		return []Node{{Kind: NGetVar, Var: g.intVar(), Width: -1, Prec: -1}}
	case k <= 9:
		op := rapid.SampledFrom([]string{"+", "-", "*", "/", "m", "&", "|", "^", "=", ">", "<", "A", "O", "-", "/", "m"}).Draw(t, "binop")
		a := append(g.intExpr(depth-1), g.intExpr(depth-1)...)
		return append(a, Node{Kind: NOp, Op: op, Width: -1, Prec: -1})
	case k == 10:
		return append(g.intExpr(depth-1), Node{Kind: NOp, Op: rapid.SampledFrom([]string{"!", "~"}).Draw(t, "unop"), Width: -1, Prec: -1})
	default:
		if e := g.strExpr(); e != nil {
			return append(e, nd(NLen))
		}
		return []Node{{Kind: NInt, N: 7, Width: -1, Prec: -1}}
	}
}

func (g *genCtx) outInt() Node {
	t := g.t
	n := Node{Kind: NOut, Verb: "d", Width: -1, Prec: -1}
	k := rapid.IntRange(0, 9).Draw(t, "ofmt")
	switch {
	case k <= 4:
		return n // plain %d
	case k == 5:
		n.Verb = "c"
		return n
	}
	n.Verb = rapid.SampledFrom([]string{"d", "d", "x", "X", "o"}).Draw(t, "verb")
	flags := rapid.SampledFrom([]string{"", "", "0", "-", "+", " ", "#", "-#", "+0", "-"}).Draw(t, "flags")
	if g.opts.IntOnly && strings.Contains(flags, "+") {
		// ncurses' tparm does not implement the documented '+' flag; keep
		// the cross-check to what both sides define
		flags = ""
	}
	if n.Verb != "d" {
		// '+' and ' ' are undefined for unsigned conversions
		switch flags {
		case "+", " ", "+0":
			flags = ""
		}
	}
	n.Flags = flags
	if len(flags) > 0 && (flags[0] == '-' || flags[0] == '+') {
		n.Colon = true
	} else if rapid.IntRange(0, 4).Draw(t, "colon") == 0 {
		n.Colon = true
	}
	if rapid.Bool().Draw(t, "haswidth") {
		n.Width = rapid.IntRange(1, 8).Draw(t, "width")
	}
	// terminfo(5): %[[:]flags][width[.precision]][doxXs] - a precision needs a width
	if n.Width >= 0 && rapid.IntRange(0, 2).Draw(t, "hasprec") == 0 {
		n.Prec = rapid.IntRange(1, 6).Draw(t, "prec")
	}
	if n.Flags == "" && n.Width < 0 && n.Prec < 0 && !n.Colon {
		// plain %x etc
		return n
	}
	return n
}

func (g *genCtx) outStr() Node {
	t := g.t
	n := Node{Kind: NOut, Verb: "s", Width: -1, Prec: -1}
	if rapid.IntRange(0, 3).Draw(t, "sfmt") == 0 {
		if rapid.Bool().Draw(t, "sleft") {
			n.Flags = "-"
			n.Colon = true
		}
		if rapid.Bool().Draw(t, "swidth") {
			n.Width = rapid.IntRange(1, 8).Draw(t, "width")
		}
		if n.Flags == "" && n.Width < 0 {
			n.Width = 3
		}
		if n.Width >= 0 && rapid.Bool().Draw(t, "sprec") {
			n.Prec = rapid.IntRange(1, 4).Draw(t, "prec")
		}
	}
	return n
}
