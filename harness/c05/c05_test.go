// C05 — events are delivered exactly once, in order, with back-pressure not loss.
package c05

import (
	"encoding/base64"
	"errors"
	"flag"
	"fmt"
	"os"
	"runtime"
	"sync"
	"testing"
	"time"

	"github.com/gdamore/tcell/v2"
	"github.com/gdamore/tcell/v2/terminfo"
	"pgregory.net/rapid"

	"verifharness/internal/faketty"
	"verifharness/internal/inref"
	"verifharness/internal/pbt"
)

func TestMain(m *testing.M) {
	os.Setenv("LC_ALL", "en_US.UTF-8")
	pbt.Main(m, "C05")
}

// Tok is one input token.
type Tok struct {
	Kind string `json:"k"` // rune mouse paste-start paste-end focus-in focus-out key
}

type Poster struct {
	N     int  `json:"n"`     // events to post
	Wait  bool `json:"wait"`  // PostEventWait instead of PostEvent
	Yield int  `json:"yield"` // Gosched calls between posts
}

type Burst struct {
	Poll    int `json:"poll"`     // PollEvent calls
	PauseUs int `json:"pause_us"` // then do not poll for this long
}

type Case struct {
	Entry    string   `json:"entry"`
	Toks     []Tok    `json:"toks"`
	ChunkEnd []int    `json:"chunk_end"` // token indices at which a read ends
	Posters  []Poster `json:"posters"`
	Resizes  int      `json:"resizes"`
	Bursts   []Burst  `json:"bursts"`
	Channel  bool     `json:"channel"` // consume through ChannelEvents
	CheckHas bool     `json:"check_has_pending"`
	// After everything above was delivered: Suspend, post SuspPosts events while
	// suspended and consume them, Resume, then a second input stream.
	Suspend   bool  `json:"suspend"`
	SuspPosts int   `json:"posts_while_suspended"`
	Toks2     []Tok `json:"toks_after_resume"`
	// The tty's Read returns (0, nil) every few ms while idle (a polling tty);
	// a last, lone ESC keypress must still come out when its timeout expires.
	PollingTty bool `json:"polling_tty"`
	FinalEsc   bool `json:"final_lone_esc"`
}

func genCase(t *rapid.T) Case {
	c := Case{Entry: rapid.SampledFrom([]string{"xterm", "xterm-256color", "xterm-kitty", "alacritty", "konsole"}).Draw(t, "entry")}
	n := rapid.OneOf(rapid.IntRange(0, 30), rapid.IntRange(20, 120)).Draw(t, "ntok")
	for i := 0; i < n; i++ {
		k := rapid.SampledFrom([]string{"rune", "rune", "rune", "rune", "mouse", "mouse", "paste-start", "paste-end", "focus-in", "focus-out", "key", "clip-ok", "clip-bad"}).Draw(t, "tok")
		c.Toks = append(c.Toks, Tok{Kind: k})
	}
	for i := 1; i <= n; i++ {
		if i == n || rapid.IntRange(0, 3).Draw(t, "cut") == 0 {
			c.ChunkEnd = append(c.ChunkEnd, i)
		}
	}
	np := rapid.IntRange(0, 3).Draw(t, "nposters")
	for i := 0; i < np; i++ {
		c.Posters = append(c.Posters, Poster{N: rapid.IntRange(1, 40).Draw(t, "pn"), Wait: rapid.Bool().Draw(t, "wait"), Yield: rapid.IntRange(0, 3).Draw(t, "yield")})
	}
	c.Resizes = rapid.IntRange(0, 3).Draw(t, "resizes")
	nb := rapid.IntRange(0, 5).Draw(t, "nbursts")
	for i := 0; i < nb; i++ {
		c.Bursts = append(c.Bursts, Burst{Poll: rapid.IntRange(0, 15).Draw(t, "poll"), PauseUs: rapid.SampledFrom([]int{0, 200, 2000, 6000, 12000}).Draw(t, "pause")})
	}
	c.Channel = rapid.IntRange(0, 3).Draw(t, "channel") == 0
	c.CheckHas = rapid.Bool().Draw(t, "has")
	if rapid.IntRange(0, 2).Draw(t, "suspend") == 0 {
		c.Suspend = true
		c.SuspPosts = rapid.IntRange(0, 6).Draw(t, "suspposts")
		n2 := rapid.IntRange(1, 12).Draw(t, "ntok2")
		for i := 0; i < n2; i++ {
			c.Toks2 = append(c.Toks2, Tok{Kind: rapid.SampledFrom([]string{"rune", "rune", "mouse", "key", "focus-in"}).Draw(t, "tok2")})
		}
	}
	c.PollingTty = rapid.IntRange(0, 3).Draw(t, "pollingtty") == 0
	c.FinalEsc = rapid.Bool().Draw(t, "finalesc")
	return c
}

type payload struct {
	G, I int
}

// build encodes the tokens; token i carries its index where the protocol allows.
func build(toks []Tok) ([][]byte, []inref.Ev) {
	var bs [][]byte
	var want []inref.Ev
	for i, tk := range toks {
		switch tk.Kind {
		case "rune":
			r := rune(0x4E00 + i)
			bs = append(bs, []byte(string(r)))
			want = append(want, inref.Ev{Kind: "key", Key: int(tcell.KeyRune), Rune: r})
		case "mouse":
			x, y := i%100, i/100
			bs = append(bs, []byte(fmt.Sprintf("\x1b[<0;%d;%dM", x+1, y+1)))
			want = append(want, inref.Ev{Kind: "mouse", X: x, Y: y, Btn: int(tcell.Button1)})
		case "clip-ok":
			// an OSC 52 reply carrying the token's index
			data := fmt.Sprintf("clip%04d", i)
			bs = append(bs, []byte("\x1b]52;c;"+base64.StdEncoding.EncodeToString([]byte(data))+"\x07"))
			want = append(want, inref.Ev{Kind: "clipboard", Data: data})
		case "clip-bad":
			// a reply whose payload is base64 characters but not valid base64:
			// recognised and dropped - it yields no event at all
			bs = append(bs, []byte([]string{"\x1b]52;c;QUJ\x07", "\x1b]52;c;=QUJ\x07", "\x1b]52;c;QQ=Q\x07"}[i%3]))
		case "paste-start":
			bs = append(bs, []byte("\x1b[200~"))
			want = append(want, inref.Ev{Kind: "paste", Start: true})
		case "paste-end":
			bs = append(bs, []byte("\x1b[201~"))
			want = append(want, inref.Ev{Kind: "paste", Start: false})
		case "focus-in":
			bs = append(bs, []byte("\x1b[I"))
			want = append(want, inref.Ev{Kind: "focus", Focus: true})
		case "focus-out":
			bs = append(bs, []byte("\x1b[O"))
			want = append(want, inref.Ev{Kind: "focus", Focus: false})
		case "key":
			bs = append(bs, []byte("\x1b[15~")) // F5
			want = append(want, inref.Ev{Kind: "key", Key: int(tcell.KeyF5)})
		}
	}
	return bs, want
}

const guardTime = 10 * time.Second

func prop(c Case) (err error) {
	base, e := terminfo.LookupTerminfo(c.Entry)
	if e != nil {
		return fmt.Errorf("harness: %v", e)
	}
	ti := *base
	ti.PadChar = ""
	tty := faketty.New(100, 100)
	if c.PollingTty {
		tty.IdleZeroRead = 3 * time.Millisecond
	}
	s, e := tcell.NewTerminfoScreenFromTtyTerminfo(tty, &ti)
	if e != nil {
		return fmt.Errorf("harness: %v", e)
	}
	if e := s.Init(); e != nil {
		return fmt.Errorf("harness: Init: %v", e)
	}
	finished := false
	defer func() {
		if !finished {
			go s.Fini()
		}
	}()
	for s.HasPendingEvent() {
		s.PollEvent()
	}
	t0 := time.Now()

	tokBytes, wantInput := build(c.Toks)

	// ---- producers
	var prodWG sync.WaitGroup
	// input
	prodWG.Add(1)
	go func() {
		defer prodWG.Done()
		prev := 0
		for _, end := range c.ChunkEnd {
			var chunk []byte
			for i := prev; i < end && i < len(tokBytes); i++ {
				chunk = append(chunk, tokBytes[i]...)
			}
			prev = end
			// a Read returns at most 128 bytes: keep tokens whole
			for len(chunk) > 0 {
				n := len(chunk)
				if n > 100 {
					n = 0
					for _, tb := range tokBytes {
						_ = tb
					}
					n = 100
					// do not cut inside a token: find a boundary <= 100
					for n > 0 && !boundary(chunk, n) {
						n--
					}
					if n == 0 {
						n = len(chunk)
					}
				}
				tty.Feed(chunk[:n])
				chunk = chunk[n:]
			}
		}
	}()
	// posters
	type postResult struct {
		accepted []int
		rejected []int
	}
	results := make([]postResult, len(c.Posters))
	for g, p := range c.Posters {
		prodWG.Add(1)
		go func(g int, p Poster) {
			defer prodWG.Done()
			for i := 0; i < p.N; i++ {
				ev := tcell.NewEventInterrupt(payload{g, i})
				if p.Wait {
					s.PostEventWait(ev)
					results[g].accepted = append(results[g].accepted, i)
				} else {
					switch err := s.PostEvent(ev); {
					case err == nil:
						results[g].accepted = append(results[g].accepted, i)
					case errors.Is(err, tcell.ErrEventQFull):
						results[g].rejected = append(results[g].rejected, i)
					default:
						results[g].rejected = append(results[g].rejected, i)
					}
				}
				for y := 0; y < p.Yield; y++ {
					runtime.Gosched()
				}
			}
		}(g, p)
	}
	// resize notifications
	prodWG.Add(1)
	go func() {
		defer prodWG.Done()
		for i := 0; i < c.Resizes; i++ {
			tty.SetSize(100, 100-(i%2), true)
			time.Sleep(300 * time.Microsecond)
		}
		tty.SetSize(100, 100, true)
	}()

	// ---- consumer
	var gotInput []inref.Ev
	gotPosted := make([][]int, len(c.Posters))
	var problem error
	var mu sync.Mutex
	record := func(ev tcell.Event) {
		now := time.Now()
		if ev == nil {
			problem = fmt.Errorf("PollEvent returned nil on a running screen")
			return
		}
		var when time.Time
		if perr := pbt.Safe(func() error { when = ev.When(); return nil }); perr != nil {
			if problem == nil {
				problem = fmt.Errorf("delivered %T is not a complete event: When() %v", ev, perr)
			}
			return
		}
		if when.Before(t0) || when.After(now) {
			if problem == nil {
				problem = fmt.Errorf("delivered %T has When()=%v outside [case start %v, delivery %v]", ev, when, t0, now)
			}
		}
		switch e := ev.(type) {
		case *tcell.EventInterrupt:
			if p, ok := e.Data().(payload); ok {
				mu.Lock()
				gotPosted[p.G] = append(gotPosted[p.G], p.I)
				mu.Unlock()
			}
		case *tcell.EventResize, *tcell.EventError:
		default:
			gotInput = append(gotInput, inref.From(ev))
		}
	}
	pollGuard := func() (tcell.Event, bool) {
		ch := make(chan tcell.Event, 1)
		go func() { ch <- s.PollEvent() }()
		select {
		case ev := <-ch:
			return ev, true
		case <-pbt.After(5 * time.Second):
			return nil, false
		}
	}
	prodDone := make(chan struct{})
	go func() { prodWG.Wait(); close(prodDone) }()

	var chanCh chan tcell.Event
	var chanQuit chan struct{}
	if c.Channel {
		chanCh = make(chan tcell.Event)
		chanQuit = make(chan struct{})
		go s.ChannelEvents(chanCh, chanQuit)
	}
	// next returns the next event if one becomes available within d. In polling
	// mode PollEvent is only called when HasPendingEvent is true (single
	// consumer: it then must not block), so no poller is ever abandoned.
	var hasPendingViolation error
	next := func(d time.Duration) (tcell.Event, bool) {
		if c.Channel {
			select {
			case ev, ok := <-chanCh:
				if !ok {
					return nil, false
				}
				return ev, true
			case <-pbt.Idle(d):
				return nil, false
			}
		}
		deadline := time.Now().Add(pbt.IdleDur(d))
		for {
			if s.HasPendingEvent() {
				ev, ok := pollGuard()
				if !ok {
					hasPendingViolation = fmt.Errorf("HasPendingEvent() was true (single consumer) but the following PollEvent blocked for 5s")
					return nil, false
				}
				return ev, true
			}
			if time.Now().After(deadline) {
				return nil, false
			}
			time.Sleep(100 * time.Microsecond)
		}
	}
	// scripted bursts
	for _, b := range c.Bursts {
		for i := 0; i < b.Poll; i++ {
			ev, ok := next(0)
			if hasPendingViolation != nil {
				return hasPendingViolation
			}
			if !ok {
				break
			}
			record(ev)
		}
		time.Sleep(time.Duration(b.PauseUs) * time.Microsecond)
	}
	// drain: until everything expected arrived, or nothing more comes
	complete := func() bool {
		if len(gotInput) < len(wantInput) {
			return false
		}
		select {
		case <-prodDone:
		default:
			return false
		}
		mu.Lock()
		defer mu.Unlock()
		for g := range c.Posters {
			if len(gotPosted[g]) < len(results[g].accepted) {
				return false
			}
		}
		return true
	}
	idle := 0
	deadline := time.Now().Add(pbt.Scaled(30 * time.Second))
	for !complete() && idle < 3 && time.Now().Before(deadline) {
		ev, ok := next(1500 * time.Millisecond)
		if hasPendingViolation != nil {
			return hasPendingViolation
		}
		if !ok {
			select {
			case <-prodDone:
				if tty.QueuedInput() == 0 {
					idle++
				}
			default:
			}
			continue
		}
		idle = 0
		record(ev)
	}
	select {
	case <-prodDone:
	case <-pbt.After(guardTime):
		return fmt.Errorf("a producer (PostEventWait / input feed / resize notification) is still blocked %v after the consumer drained everything", guardTime)
	}
	// a little grace for stragglers that would be duplicates
	for i := 0; i < 3; i++ {
		ev, ok := next(20 * time.Millisecond)
		if !ok {
			break
		}
		record(ev)
	}
	if problem != nil {
		return problem
	}
	// ---- verdicts
	if !inref.Equal(gotInput, wantInput) {
		i := 0
		for i < len(gotInput) && i < len(wantInput) && gotInput[i] == wantInput[i] {
			i++
		}
		return fmt.Errorf("input events delivered differ from the input stream: %d delivered, %d expected; first difference at index %d: delivered %v, expected %v", len(gotInput), len(wantInput), i, at(gotInput, i), at(wantInput, i))
	}
	for g := range c.Posters {
		acc := results[g].accepted
		got := gotPosted[g]
		if len(got) != len(acc) {
			return fmt.Errorf("poster %d: %d events accepted (PostEvent returned nil / PostEventWait returned) but %d delivered; accepted %v delivered %v rejected %v", g, len(acc), len(got), acc, got, results[g].rejected)
		}
		for i := range acc {
			if got[i] != acc[i] {
				return fmt.Errorf("poster %d: delivered order %v differs from posting order %v", g, got, acc)
			}
		}
		if len(results[g].rejected) > 0 {
			pbt.Class("posting:eventq-full-observed")
		}
	}
	// ---- Suspend / Resume: neither is quit or Fini. Everything so far was
	// delivered, so nothing is in flight that a hand-over of the terminal could
	// legitimately discard.
	if c.Suspend {
		chClosed := false
		nextOpen := func(d time.Duration) (tcell.Event, bool) {
			if c.Channel {
				select {
				case ev, ok := <-chanCh:
					if !ok {
						chClosed = true
						return nil, false
					}
					return ev, true
				case <-pbt.Idle(d):
					return nil, false
				}
			}
			return next(d)
		}
		guarded := func(what string, f func() error) error {
			ch := make(chan error, 1)
			go func() { ch <- f() }()
			select {
			case e := <-ch:
				if e != nil {
					return fmt.Errorf("%s failed: %v", what, e)
				}
				return nil
			case <-pbt.After(guardTime):
				return fmt.Errorf("%s did not return within %v", what, guardTime)
			}
		}
		if err := guarded("Suspend", s.Suspend); err != nil {
			return err
		}
		var acc []int
		for i := 0; i < c.SuspPosts; i++ {
			if s.PostEvent(tcell.NewEventInterrupt(payload{-1, i})) == nil {
				acc = append(acc, i)
			}
		}
		var got []int
		for len(got) < len(acc) {
			ev, ok := nextOpen(1500 * time.Millisecond)
			if hasPendingViolation != nil {
				return hasPendingViolation
			}
			if chClosed {
				return fmt.Errorf("ChannelEvents closed its channel at Suspend although neither quit nor Fini happened")
			}
			if !ok {
				break
			}
			if ev == nil {
				return fmt.Errorf("while suspended: PostEvent returned nil for %d events and HasPendingEvent was true, but PollEvent returned nil", len(acc))
			}
			if e, ok := ev.(*tcell.EventInterrupt); ok {
				if p, ok := e.Data().(payload); ok && p.G == -1 {
					got = append(got, p.I)
				}
			}
		}
		if fmt.Sprint(got) != fmt.Sprint(acc) {
			return fmt.Errorf("while suspended: events %v were accepted by PostEvent, delivered %v", acc, got)
		}
		if err := guarded("Resume", s.Resume); err != nil {
			return err
		}
		tok2, want2 := build(c.Toks2)
		for _, tb := range tok2 {
			tty.Feed(tb)
		}
		before := len(gotInput)
		idle := 0
		for len(gotInput)-before < len(want2) && idle < 3 {
			ev, ok := nextOpen(1500 * time.Millisecond)
			if hasPendingViolation != nil {
				return hasPendingViolation
			}
			if chClosed {
				return fmt.Errorf("ChannelEvents closed its channel although neither quit nor Fini happened (after Suspend and Resume)")
			}
			if !ok {
				idle++
				continue
			}
			idle = 0
			record(ev)
		}
		if problem != nil {
			return problem
		}
		if got2 := gotInput[before:]; !inref.Equal(got2, want2) {
			return fmt.Errorf("after Suspend and Resume: %d input tokens typed, %d events delivered: delivered %s, expected %s", len(want2), len(got2), inref.Show(got2), inref.Show(want2))
		}
	}
	if c.FinalEsc {
		// the ESC key on its own: held back for the 50 ms escape timeout, then delivered
		tty.Feed([]byte{0x1b})
		before := len(gotInput)
		for i := 0; i < 3 && len(gotInput) == before; i++ {
			if ev, ok := next(1500 * time.Millisecond); ok {
				record(ev)
			}
			if hasPendingViolation != nil {
				return hasPendingViolation
			}
		}
		if problem != nil {
			return problem
		}
		want := []inref.Ev{{Kind: "key", Key: int(tcell.KeyEsc)}}
		if got := gotInput[before:]; !inref.Equal(got, want) {
			return fmt.Errorf("a lone ESC keypress (polling tty: %v) was typed and polled for 4.5 s: delivered %s, expected %s", c.PollingTty, inref.Show(got), inref.Show(want))
		}
	}
	// ---- shutdown; ChannelEvents closes its channel
	done := make(chan struct{})
	go func() { s.Fini(); close(done) }()
	select {
	case <-done:
		finished = true
	case <-pbt.After(guardTime):
		return fmt.Errorf("Fini did not return within %v", guardTime)
	}
	if c.Channel {
		closed := make(chan struct{})
		go func() {
			for range chanCh {
			}
			close(closed)
		}()
		select {
		case <-closed:
		case <-pbt.After(5 * time.Second):
			return fmt.Errorf("ChannelEvents did not close its channel after Fini")
		}
	}
	return nil
}

func at(evs []inref.Ev, i int) string {
	if i < len(evs) {
		return evs[i].String()
	}
	return "<none>"
}

// boundary: does chunk[:n] end at a token boundary? Tokens are either a CJK
// rune (3 bytes, never containing ESC) or an escape sequence starting with ESC.
func boundary(chunk []byte, n int) bool {
	if n >= len(chunk) {
		return true
	}
	b := chunk[n]
	return b == 0x1b || (b >= 0xe0 && b <= 0xef)
}

func nonTrivial(c Case) bool {
	pause := false
	for _, b := range c.Bursts {
		if b.PauseUs >= 2000 {
			pause = true
		}
	}
	return len(c.Toks) >= 25 && len(c.Posters) >= 1 && (pause || len(c.Bursts) == 0)
}

func classes(c Case) []string {
	var out []string
	if len(c.Toks) >= 25 {
		out = append(out, "input-exceeds-both-queues")
	}
	if len(c.Posters) >= 2 {
		out = append(out, "several-posters")
	}
	for _, p := range c.Posters {
		if p.Wait {
			out = append(out, "post-event-wait")
			break
		}
	}
	if c.Channel {
		out = append(out, "channel-events")
	}
	if c.CheckHas {
		out = append(out, "has-pending-checked")
	}
	if c.Resizes > 0 {
		out = append(out, "resize-notifications")
	}
	if c.Suspend {
		out = append(out, "suspend-resume-then-more-input")
	}
	if c.PollingTty {
		out = append(out, "polling-tty")
	}
	if c.FinalEsc {
		out = append(out, "final-lone-esc")
	}
	if nonTrivial(c) {
		out = append(out, "backpressure-with-producers")
	}
	return out
}

func TestProp(t *testing.T) {
	defer pbt.Recover(t)
	_ = flag.Set("rapid.shrinktime", "40s")
	pbt.Describe("rapid schedule programs on a real terminfo screen over a fake tty with real goroutines: an input stream of 0-120 sequence-numbered tokens (CJK runes numbered by code point, SGR mouse reports numbered by coordinates, paste brackets, focus reports, a function key) delivered in reads that end at token boundaries; 0-3 posting goroutines (PostEvent with its result recorded, or PostEventWait) with yields; resize notifications; a consumer that polls in bursts and pauses (long enough for both internal queues to fill) or consumes through ChannelEvents; optional HasPendingEvent checks. Oracle: the input-derived events delivered equal the decoded input stream exactly (no loss, duplication, reordering); per poster the delivered payloads equal the accepted ones in order and rejected (ErrEventQFull) ones never appear; a true HasPendingEvent is followed by a PollEvent that returns within 5 s; every delivered event is non-nil, When() does not panic and lies between case start and delivery; ChannelEvents closes its channel after Fini and not at Suspend; in a third of the cases, once everything was delivered: Suspend, events posted while suspended are delivered, Resume, and a second input stream is delivered exactly. A quarter of the cases use a polling tty (Read returns (0, nil) every 3 ms while idle); half end with a lone ESC keypress that must come out as one Esc key once the 50 ms timeout passes. channel-close: ChannelEvents on a simulation or terminfo screen with 0-8 queued events, a consumer that takes some and then stops, an application channel of capacity 0-2, ended by quit or Fini after a settling time of 0-10 ms: the channel is closed within 5 s whatever the forwarder was doing (non-trivial = it held an event it could not hand over). split-backpressure: mouse reports split across three reads that arrive within 25 ms while the application does not poll for 130 ms (more events than the queue holds in between): delivered exactly as typed (odd shards run with the old timer-channel semantics; a wrong delivery is believed after three plays in a row, plays the machine was too slow for are discarded and counted). Non-trivial = at least 25 input tokens (more than both queues hold), a poster and a polling pause; distinct = hash of the case.",
		"reads end at token boundaries: a sequence split across reads under back-pressure depends on the 50 ms escape timer (timing, not asserted here; C02 covers chunking without timeouts)",
		"EventResize may legitimately be dropped when the queue is full and is ignored by the oracle",
		"schedules are those the Go scheduler produces; loss is declared only after producers finished, the tty was fully read and PollEvent stayed idle for three 1.5 s periods")
	pbt.Check(t, "program", pbt.Pick(200, 3000), pbt.Spec[Case]{Gen: genCase, Prop: prop, NonTrivial: nonTrivial, Classes: classes})
	pbt.Check(t, "channel-close", pbt.Pick(150, 3000), pbt.Spec[CloseCase]{Gen: genClose, Prop: closeProp, NonTrivial: closeNonTrivial})
	pbt.Check(t, "split-backpressure", pbt.Pick(12, 200), pbt.Spec[SplitCase]{Gen: genSplit, Prop: splitProp})
}
