package c05

import (
	"fmt"

	"github.com/gdamore/tcell/v2"
	"github.com/gdamore/tcell/v2/terminfo"
	"pgregory.net/rapid"

	"verifharness/internal/inref"
	"verifharness/internal/live"
	"verifharness/internal/pbt"
)

// SplitCase: sequence-numbered mouse reports and runes arriving in three reads
// that end inside reports, while the application is not polling (see
// live.SplitUnderBackpressure). However slowly the application polls, input is
// held back - the escape timeout must not fire on a tick that is already stale.
type SplitCase struct {
	Entry  string `json:"entry"`
	Cut1   int    `json:"cut1"`   // bytes of the first mouse report in read 1
	Filler int    `json:"filler"` // runes in read 2 (more than the event queue holds)
	Cut2   int    `json:"cut2"`   // bytes of the last mouse report in read 2
}

func genSplit(t *rapid.T) SplitCase {
	return SplitCase{
		Entry:  rapid.SampledFrom([]string{"xterm", "xterm-256color", "alacritty", "konsole"}).Draw(t, "entry"),
		Cut1:   rapid.IntRange(1, 9).Draw(t, "cut1"),
		Filler: rapid.IntRange(11, 30).Draw(t, "filler"),
		Cut2:   rapid.IntRange(1, 9).Draw(t, "cut2"),
	}
}

func splitProp(c SplitCase) error {
	base, err := terminfo.LookupTerminfo(c.Entry)
	if err != nil {
		return fmt.Errorf("harness: %v", err)
	}
	m1, m2 := []byte("\x1b[<0;11;7M"), []byte("\x1b[<0;23;9M")
	want := []inref.Ev{{Kind: "mouse", X: 10, Y: 6, Btn: int(tcell.Button1)}}
	r2 := append([]byte{}, m1[c.Cut1:]...)
	for i := 0; i < c.Filler; i++ {
		r := rune('a' + i%26)
		r2 = append(r2, byte(r))
		want = append(want, inref.Ev{Kind: "key", Key: int(tcell.KeyRune), Rune: r})
	}
	r2 = append(r2, m2[:c.Cut2]...)
	want = append(want, inref.Ev{Kind: "mouse", X: 22, Y: 8, Btn: int(tcell.Button1)})
	var first []inref.Ev
	for rep := 0; rep < 3; rep++ {
		var got []inref.Ev
		usable := false
		for try := 0; try < 4 && !usable; try++ {
			got, usable, err = live.SplitUnderBackpressure(base, m1[:c.Cut1], r2, m2[c.Cut2:], len(want))
			if err != nil {
				return err
			}
		}
		if !usable {
			pbt.Excluded("split-backpressure:machine-too-slow")
			return nil
		}
		if inref.Equal(got, want) {
			return nil
		}
		if rep == 0 {
			first = got
		}
	}
	return fmt.Errorf("%s: a mouse report cut after %d bytes, %d runes and a mouse report cut after %d bytes, in three reads arriving within 25 ms while the application does not poll for 130 ms: delivered %s, the input stream is %s (three plays in a row)", c.Entry, c.Cut1, c.Filler, c.Cut2, inref.Show(first), inref.Show(want))
}
