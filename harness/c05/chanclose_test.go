package c05

// ChannelEvents closes its channel on quit or Fini - in whatever state the forwarding
// goroutine is at that moment: idle, or holding an event it cannot hand over because the
// consumer has stopped receiving.

import (
	"fmt"
	"os"
	"time"

	"github.com/gdamore/tcell/v2"
	"github.com/gdamore/tcell/v2/terminfo"
	"pgregory.net/rapid"

	"verifharness/internal/faketty"
	"verifharness/internal/pbt"
)

type CloseCase struct {
	Sim      bool   `json:"sim"`      // SimulationScreen (same baseScreen code) or terminfo screen
	Posted   int    `json:"posted"`   // events in the queue before the forwarder starts
	Taken    int    `json:"taken"`    // events the consumer receives before it stops
	Buffered int    `json:"buffered"` // capacity of the application's channel
	End      string `json:"end"`      // quit | fini
	SettleMs int    `json:"settle_ms"`
}

func genClose(t *rapid.T) CloseCase {
	c := CloseCase{Sim: rapid.Bool().Draw(t, "sim"), Posted: rapid.IntRange(0, 8).Draw(t, "posted"), Buffered: rapid.IntRange(0, 2).Draw(t, "buffered")}
	c.Taken = rapid.IntRange(0, c.Posted).Draw(t, "taken")
	c.End = rapid.SampledFrom([]string{"quit", "quit", "fini"}).Draw(t, "end")
	c.SettleMs = rapid.SampledFrom([]int{0, 1, 10, 10}).Draw(t, "settle")
	return c
}

func closeProp(c CloseCase) error {
	var s tcell.Screen
	if c.Sim {
		s = tcell.NewSimulationScreen("UTF-8")
	} else {
		os.Setenv("LC_ALL", "en_US.UTF-8")
		base, err := terminfo.LookupTerminfo("xterm")
		if err != nil {
			return fmt.Errorf("harness: %v", err)
		}
		ti := *base
		s, err = tcell.NewTerminfoScreenFromTtyTerminfo(faketty.New(20, 5), &ti)
		if err != nil {
			return fmt.Errorf("harness: %v", err)
		}
	}
	if err := s.Init(); err != nil {
		return fmt.Errorf("harness: Init: %v", err)
	}
	finished := false
	defer func() {
		if !finished {
			s.Fini()
		}
	}()
	// the initial resize event of a terminfo screen is just another queued event
	for i := 0; i < c.Posted; i++ {
		if err := s.PostEvent(tcell.NewEventInterrupt(i)); err != nil {
			break
		}
	}
	ch := make(chan tcell.Event, c.Buffered)
	quit := make(chan struct{})
	go s.ChannelEvents(ch, quit)
	for i := 0; i < c.Taken; i++ {
		select {
		case _, ok := <-ch:
			if !ok {
				return fmt.Errorf("ChannelEvents closed its channel although neither quit nor Fini happened (event %d of %d)", i, c.Taken)
			}
		case <-pbt.After(5 * time.Second):
			return fmt.Errorf("ChannelEvents does not forward: event %d of %d queued ones did not arrive within 5 s", i, c.Posted)
		}
	}
	// the consumer stops receiving; give the forwarder time to pick up the next event and park on the hand-over
	time.Sleep(time.Duration(c.SettleMs) * time.Millisecond)
	if c.End == "quit" {
		close(quit)
	} else {
		finished = true
		s.Fini()
	}
	// the channel must now be closed; events already on their way may still come out first
	guard := pbt.After(5 * time.Second)
	for n := 0; ; n++ {
		select {
		case _, ok := <-ch:
			if !ok {
				return nil
			}
			if n > c.Posted+4 {
				return fmt.Errorf("after %s: ChannelEvents keeps delivering (%d events) instead of closing its channel", c.End, n)
			}
		case <-guard:
			return fmt.Errorf("after %s with %d queued events of which the consumer took %d (channel capacity %d): ChannelEvents did not close its channel within 5 s - a consumer ranging over it never ends", c.End, c.Posted, c.Taken, c.Buffered)
		}
	}
}

func closeNonTrivial(c CloseCase) bool {
	// the forwarder holds an event it cannot hand over when the end comes
	return c.Posted-c.Taken > c.Buffered && c.SettleMs > 0
}
