package c02

import (
	"fmt"

	"pgregory.net/rapid"

	"verifharness/internal/inref"
	"verifharness/internal/live"
	"verifharness/internal/pbt"
)

// StaleCase: a sequence split across reads while the application is not
// polling. Read 1 ends inside an escape sequence (the escape timer is armed);
// read 2 follows at once, completes it, produces more events than the event
// queue holds (the main loop parks on the full queue for longer than the
// timer) and itself ends inside another sequence; read 3, completing that one,
// has been read too before the application starts polling. No escape timeout
// lies between the arrival of any two reads, so the decode must equal that of
// the concatenated stream.
type StaleCase struct {
	Entry  string `json:"entry"`
	Seq1   string `json:"seq1"` // complete key sequence, cut after Cut1 bytes
	Cut1   int    `json:"cut1"`
	Filler int    `json:"filler"` // runes between (>= 11: more than the event queue holds)
	Seq2   string `json:"seq2"`
	Cut2   int    `json:"cut2"`
}

var staleSeqs = []string{"\x1b[A", "\x1b[B", "\x1b[1;5C", "\x1bOP", "\x1b[15~", "\x1b[<0;3;4M"}

func genStale(t *rapid.T) StaleCase {
	c := StaleCase{Entry: rapid.SampledFrom([]string{"xterm", "xterm-256color", "alacritty", "konsole"}).Draw(t, "entry")}
	c.Seq1 = rapid.SampledFrom(staleSeqs).Draw(t, "seq1")
	c.Cut1 = rapid.IntRange(1, len(c.Seq1)-1).Draw(t, "cut1")
	c.Filler = rapid.IntRange(11, 25).Draw(t, "filler")
	c.Seq2 = rapid.SampledFrom(staleSeqs).Draw(t, "seq2")
	c.Cut2 = rapid.IntRange(1, len(c.Seq2)-1).Draw(t, "cut2")
	return c
}

// staleOnce plays the case once. usable=false: the machine was too slow for the
// three reads to arrive within one escape timeout of each other (nothing can be said).
func staleOnce(c StaleCase, e *entryInfo, want []inref.Ev) (got []inref.Ev, usable bool, err error) {
	var r2 []byte
	r2 = append(r2, c.Seq1[c.Cut1:]...)
	for i := 0; i < c.Filler; i++ {
		r2 = append(r2, byte('a'+i%26))
	}
	r2 = append(r2, c.Seq2[:c.Cut2]...)
	return live.SplitUnderBackpressure(e.TI, []byte(c.Seq1[:c.Cut1]), r2, []byte(c.Seq2[c.Cut2:]), len(want))
}

func staleProp(c StaleCase) error {
	e, err := info(c.Entry)
	if err != nil {
		return err
	}
	var all []byte
	all = append(all, c.Seq1...)
	for i := 0; i < c.Filler; i++ {
		all = append(all, byte('a'+i%26))
	}
	all = append(all, c.Seq2...)
	want, err := run(e, "UTF-8", [][]byte{all})
	if err != nil {
		return err
	}
	// A wrong decode is only believed when it shows in three usable plays in a
	// row: goroutine starvation on a loaded machine can make a real timeout fall
	// between two reads, which the load guard in staleOnce cannot rule out entirely.
	var first []inref.Ev
	for rep := 0; rep < 3; rep++ {
		var got []inref.Ev
		usable := false
		for try := 0; try < 4 && !usable; try++ {
			got, usable, err = staleOnce(c, e, want.evs)
			if err != nil {
				return err
			}
		}
		if !usable {
			pbt.Excluded("stale-timer:machine-too-slow")
			return nil
		}
		if inref.Equal(got, want.evs) {
			return nil
		}
		if rep == 0 {
			first = got
		}
	}
	return fmt.Errorf("%s: %q cut after %d bytes, %d runes, %q cut after %d bytes, in three reads arriving within 25 ms while the application does not poll for 130 ms (main loop parked on the full event queue): delivered %s, the stream decodes to %s (three plays in a row)", c.Entry, c.Seq1, c.Cut1, c.Filler, c.Seq2, c.Cut2, inref.Show(first), inref.Show(want.evs))
}
