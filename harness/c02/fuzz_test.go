package c02

import (
	"sort"
	"testing"

	"verifharness/internal/pbt"
)

var fuzzEntries = []string{"xterm-256color", "xterm", "rxvt-unicode", "linux", "screen", "st", "alacritty", "xterm-kitty", "wy60", "vt52", "hpterm", "vt220", "tmux", "konsole", "aixterm", "sun"}
var fuzzCharsets = []string{"UTF-8", "UTF-8", "ISO8859-1", "EUC-JP", "KOI8-R", "US-ASCII", "GBK", "GB18030"}

// decodeFuzz: byte 0 entry, byte 1 charset, byte 2 partition mode and number
// of cuts k, last k bytes cut positions, the rest is the input stream.
func decodeFuzz(d []byte) (Case, bool) {
	if len(d) < 4 {
		return Case{}, false
	}
	c := Case{Entry: fuzzEntries[int(d[0])%len(fuzzEntries)], Charset: fuzzCharsets[int(d[1])%len(fuzzCharsets)]}
	mode := int(d[2])
	body := d[3:]
	if len(body) > 96 {
		body = body[:96]
	}
	if mode%8 == 7 { // every byte alone
		c.Data = append([]byte{}, body...)
		for i := 1; i < len(c.Data); i++ {
			c.Cuts = append(c.Cuts, i)
		}
		return c, true
	}
	k := mode%4 + 1
	if k >= len(body) {
		k = len(body) - 1
	}
	c.Data = append([]byte{}, body[:len(body)-k]...)
	if len(c.Data) > 1 {
		for _, b := range body[len(body)-k:] {
			c.Cuts = append(c.Cuts, 1+int(b)%(len(c.Data)-1))
		}
		sort.Ints(c.Cuts)
	}
	return c, true
}

// FuzzPartition: the partition-independence oracle of the "partition" sub-check
// under Go's coverage-guided fuzzer (thorough tier).
func FuzzPartition(f *testing.F) {
	loadEntries()
	seeds := [][]byte{
		[]byte("\x00\x00\x01\x1b[A\x1b[1;5C\x02"),
		[]byte("\x00\x00\x02\x1b[<0;12;7M\x1b[<0;12;7m\x03\x09"),
		[]byte("\x00\x00\x01\x1b[M !!\x1b[M#!!\x02"),
		[]byte("\x00\x00\x02\x1b[200~ab\x1b[201~\x03\x08"),
		[]byte("\x00\x00\x01\x1b]52;c;aGVsbG8=\x07x\x05"),
		[]byte("\x00\x00\x01\x1b]52;c;aGVsbG8=\x1b\\x\x05"),
		[]byte("\x00\x00\x07\x1b[I\x1b[O\x1bOa\xe4\xb8\x96"),
		[]byte("\x02\x00\x01\x1b[Oa\x1b[Ob\x03"),
		[]byte("\x08\x00\x01\x01F\r\x01L\r\x02"),
		[]byte("\x00\x03\x01\x8f\xb0\xa1\xa4\xa2\x02"),
		[]byte("\x00\x07\x02\x81\x30\x81\x30\x1b\x1b[A\x03\x05"),
		[]byte("\x00\x00\x01\x9bM !!\x9b<0;1;1M\x04"),
	}
	pbt.FuzzCheck(f, "partition", pbt.Spec[Case]{Prop: prop}, decodeFuzz, seeds)
}

// FuzzPartitionGrammar: the same oracle, the fuzzer's bytes driving the token-grammar generator.
func FuzzPartitionGrammar(f *testing.F) {
	loadEntries()
	pbt.FuzzRapid(f, "partition", pbt.Spec[Case]{Gen: genCase, Prop: prop})
}

// FuzzEpochs: segments separated by expired timeouts (see epochProp).
func FuzzEpochs(f *testing.F) {
	loadEntries()
	pbt.FuzzRapid(f, "epochs", pbt.Spec[EpochCase]{Gen: genEpoch, Prop: epochProp})
}
