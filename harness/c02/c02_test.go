// C02 — input decoding is independent of read chunking and consumes every byte.
package c02

import (
	"bytes"
	"encoding/base64"
	"fmt"
	"os"
	"sort"
	"testing"
	"time"
	"unicode/utf8"

	"github.com/gdamore/tcell/v2"
	"github.com/gdamore/tcell/v2/encoding"
	"github.com/gdamore/tcell/v2/terminfo"
	"pgregory.net/rapid"

	"verifharness/internal/faketty"
	"verifharness/internal/inref"
	"verifharness/internal/live"
	"verifharness/internal/pbt"
)

func TestMain(m *testing.M) {
	encoding.Register()
	pbt.Main(m, "C02")
}

// ---------------------------------------------------------------- entries

type entryInfo struct {
	Name  string
	TI    *terminfo.Terminfo
	Keys  []string
	Mouse bool
	Clip  bool // OSC 52 replies are recognised
	Paste bool
}

var (
	entryNames []string
	infos      = map[string]*entryInfo{}
)

func loadEntries() {
	m := terminfo.VerifTerminfos()
	for n := range m {
		entryNames = append(entryNames, n)
	}
	sort.Strings(entryNames)
}

func info(name string) (*entryInfo, error) {
	if e, ok := infos[name]; ok {
		return e, nil
	}
	ti, err := terminfo.LookupTerminfo(name)
	if err != nil {
		return nil, fmt.Errorf("harness: %q: %v", name, err)
	}
	cp := *ti
	tbl, err := tcell.VerifKeyTable(&cp)
	if err != nil {
		return nil, fmt.Errorf("harness: %v", err)
	}
	e := &entryInfo{Name: name, TI: &cp, Mouse: cp.Mouse != ""}
	for k, v := range tbl {
		e.Keys = append(e.Keys, k)
		if v.Key > tcell.KeyF64 && k == "\x1b[200~" {
			e.Paste = true
		}
	}
	sort.Strings(e.Keys)
	// the library recognises OSC 52 replies on xterm-like terminals
	e.Clip = cp.XTermLike || len(name) >= 5 && name[:5] == "xterm"
	infos[name] = e
	return e, nil
}

func (e *entryInfo) decoder(charset string) (*tcell.VerifInput, error) {
	cp := *e.TI
	return tcell.VerifNewInput(&cp, charset, 80, 24)
}

// ---------------------------------------------------------------- decoding helpers

type result struct {
	evs  []inref.Ev
	left int
}

// run feeds chunks (no expiry in between) and finishes with an expiring scan.
// A scan that does not return within the guard is a stall.
func run(e *entryInfo, charset string, chunks [][]byte) (result, error) {
	in, err := e.decoder(charset)
	if err != nil {
		return result{}, fmt.Errorf("harness: %v", err)
	}
	type out struct {
		r   result
		err error
	}
	done := make(chan out, 1)
	go func() {
		var o out
		o.err = pbt.Safe(func() error {
			var all []tcell.Event
			for _, c := range chunks {
				evs, _ := in.Scan(c, false)
				all = append(all, evs...)
			}
			evs, left := in.Scan(nil, true)
			all = append(all, evs...)
			for i, ev := range all {
				if ev == nil {
					return fmt.Errorf("event %d is nil", i)
				}
			}
			o.r = result{inref.FromAll(all), left}
			return nil
		})
		done <- o
	}()
	select {
	case o := <-done:
		return o.r, o.err
	case <-pbt.After(10 * time.Second):
		return result{}, fmt.Errorf("decoding stalled: no result within 10s")
	}
}

func split(b []byte, cuts []int) [][]byte {
	var out [][]byte
	prev := 0
	for _, c := range cuts {
		if c > prev && c < len(b) {
			out = append(out, b[prev:c])
			prev = c
		}
	}
	return append(out, b[prev:])
}

// ---------------------------------------------------------------- partition independence (M1-M3)

type Case struct {
	Entry   string `json:"entry"`
	Charset string `json:"charset"`
	Data    []byte `json:"data"`
	Cuts    []int  `json:"cuts"`
	Tokens  []int  `json:"token_ends,omitempty"` // end offsets of generated tokens (for classification)
}

func genToken(t *rapid.T, e *entryInfo) []byte {
	switch rapid.IntRange(0, 13).Draw(t, "tok") {
	case 0, 1, 2:
		if len(e.Keys) > 0 {
			return []byte(rapid.SampledFrom(e.Keys).Draw(t, "key"))
		}
		return []byte("x")
	case 3:
		r := inref.MouseReport{SGR: true, Cb: rapid.SampledFrom([]int{0, 1, 2, 32, 35, 64, 65, 4, 16}).Draw(t, "cb"), Cx: rapid.IntRange(1, 120).Draw(t, "cx"), Cy: rapid.IntRange(1, 40).Draw(t, "cy"), Release: rapid.Bool().Draw(t, "rel")}
		return r.Bytes()
	case 4:
		r := inref.MouseReport{SGR: false, Cb: rapid.SampledFrom([]int{0, 1, 2, 3, 32, 35, 64}).Draw(t, "cb"), Cx: rapid.IntRange(1, 200).Draw(t, "cx"), Cy: rapid.IntRange(1, 100).Draw(t, "cy")}
		return r.Bytes()
	case 5:
		return []byte(rapid.SampledFrom([]string{"\x1b[200~", "\x1b[201~"}).Draw(t, "paste"))
	case 6:
		return []byte(rapid.SampledFrom([]string{"\x1b[I", "\x1b[O"}).Draw(t, "focus"))
	case 7:
		payload := rapid.SliceOfN(rapid.Byte(), 0, 9).Draw(t, "clip")
		enc := base64.StdEncoding.EncodeToString(payload)
		if rapid.IntRange(0, 4).Draw(t, "badb64") == 0 {
			enc = rapid.SampledFrom([]string{"=", "A", "QUJ", "====", "QQ=", "Q=Q="}).Draw(t, "bad")
		}
		term := rapid.SampledFrom([]string{"\a", "\x1b\\"}).Draw(t, "term")
		return []byte("\x1b]52;c;" + enc + term)
	case 8, 9:
		return []byte(rapid.SampledFrom([]string{"a", "hello", "é", "世界", "😀", "~", " ", "Ω€", "[", "O", "M", "<", "0;1;1M"}).Draw(t, "text"))
	case 10:
		return []byte{0x1b}
	case 11:
		return rapid.SliceOfN(rapid.SampledFrom([]byte{0x80, 0x9b, 0xc3, 0xe4, 0xff, 0xf0, 0x90, 0xa4, 0xa2, 0x8e}), 1, 3).Draw(t, "invalid")
	case 12:
		return []byte{byte(rapid.IntRange(0, 31).Draw(t, "ctl"))}
	}
	return []byte(rapid.SampledFrom([]string{"\x1b[", "\x1bO", "\x1b]", "\x1b]52;c;", "\x1b[<", "\x1b[M", "\x1b[<0;", "\x9b"}).Draw(t, "prefix"))
}

func mutate(t *rapid.T, b []byte) []byte {
	if len(b) == 0 {
		return b
	}
	switch rapid.IntRange(0, 3).Draw(t, "mut") {
	case 0:
		return b[:rapid.IntRange(0, len(b)-1).Draw(t, "trunc")]
	case 1:
		i := rapid.IntRange(0, len(b)-1).Draw(t, "dup")
		return append(append(append([]byte{}, b[:i+1]...), b[i]), b[i+1:]...)
	case 2:
		i := rapid.IntRange(0, len(b)-1).Draw(t, "flip")
		nb := append([]byte{}, b...)
		nb[i] = rapid.Byte().Draw(t, "newbyte")
		return nb
	}
	i := rapid.IntRange(0, len(b)).Draw(t, "ins")
	return append(append(append([]byte{}, b[:i]...), rapid.SampledFrom([]byte("x;M\x1b\a~0")).Draw(t, "insb")), b[i:]...)
}

func genCase(t *rapid.T) Case {
	c := Case{Entry: rapid.SampledFrom(entryNames).Draw(t, "entry")}
	if rapid.IntRange(0, 2).Draw(t, "favour") == 0 {
		c.Entry = rapid.SampledFrom([]string{"xterm", "xterm-256color", "rxvt-unicode", "linux", "screen", "st", "alacritty", "xterm-kitty", "wy60", "vt52", "hpterm"}).Draw(t, "fav")
	}
	c.Charset = rapid.SampledFrom([]string{"UTF-8", "UTF-8", "UTF-8", "ISO8859-1", "EUC-JP", "KOI8-R", "US-ASCII", "GBK"}).Draw(t, "charset")
	e, err := info(c.Entry)
	if err != nil {
		t.Fatalf("%v", err)
	}
	mode := rapid.IntRange(0, 9).Draw(t, "mode")
	switch {
	case mode <= 6:
		n := rapid.IntRange(1, 6).Draw(t, "ntok")
		for i := 0; i < n; i++ {
			tok := genToken(t, e)
			if mode >= 5 && rapid.IntRange(0, 2).Draw(t, "domut") == 0 {
				tok = mutate(t, tok)
			}
			c.Data = append(c.Data, tok...)
			c.Tokens = append(c.Tokens, len(c.Data))
		}
	default:
		c.Data = rapid.SliceOfN(rapid.Byte(), 0, 24).Draw(t, "bytes")
	}
	if len(c.Data) > 1 {
		switch rapid.IntRange(0, 4).Draw(t, "cutmode") {
		case 0: // every byte alone
			for i := 1; i < len(c.Data); i++ {
				c.Cuts = append(c.Cuts, i)
			}
		default:
			n := rapid.IntRange(1, 5).Draw(t, "ncuts")
			for i := 0; i < n; i++ {
				c.Cuts = append(c.Cuts, rapid.IntRange(1, len(c.Data)-1).Draw(t, "cut"))
			}
			sort.Ints(c.Cuts)
		}
	}
	return c
}

func prop(c Case) error {
	e, err := info(c.Entry)
	if err != nil {
		return err
	}
	whole, err := run(e, c.Charset, [][]byte{c.Data})
	if err != nil {
		return fmt.Errorf("%s/%s: one read of %q: %v", c.Entry, c.Charset, c.Data, err)
	}
	if whole.left != 0 {
		return fmt.Errorf("%s/%s: %d byte(s) of %q remain buffered after the escape timeout expired", c.Entry, c.Charset, whole.left, c.Data)
	}
	parts, err := run(e, c.Charset, split(c.Data, c.Cuts))
	if err != nil {
		return fmt.Errorf("%s/%s: %q split at %v: %v", c.Entry, c.Charset, c.Data, c.Cuts, err)
	}
	if parts.left != 0 {
		return fmt.Errorf("%s/%s: %d byte(s) of %q (split at %v) remain buffered after the escape timeout expired", c.Entry, c.Charset, parts.left, c.Data, c.Cuts)
	}
	if !inref.Equal(whole.evs, parts.evs) {
		return fmt.Errorf("%s/%s: %q decodes to %s in one read but to %s when split at %v", c.Entry, c.Charset, c.Data, inref.Show(whole.evs), inref.Show(parts.evs), c.Cuts)
	}
	return nil
}

func nonTrivial(c Case) bool {
	// >= 2 chunks with a cut strictly inside a multi-byte token
	if len(c.Cuts) == 0 {
		return false
	}
	prev := 0
	for _, end := range c.Tokens {
		if end-prev >= 2 {
			for _, cut := range c.Cuts {
				if cut > prev && cut < end {
					return true
				}
			}
		}
		prev = end
	}
	if len(c.Tokens) == 0 {
		return len(c.Data) >= 3
	}
	return false
}

func classes(c Case) []string {
	var out []string
	if len(c.Tokens) == 0 {
		out = append(out, "arbitrary-bytes")
	} else {
		out = append(out, "token-string")
	}
	if len(c.Cuts) == len(c.Data)-1 && len(c.Data) > 1 {
		out = append(out, "every-byte-alone")
	}
	if bytes.Contains(c.Data, []byte("\x1b]52;c;")) {
		out = append(out, "osc52")
	}
	if bytes.Contains(c.Data, []byte("\x1b[<")) {
		out = append(out, "sgr-mouse")
	}
	if bytes.Contains(c.Data, []byte("\x1b[M")) {
		out = append(out, "x11-mouse")
	}
	if bytes.Contains(c.Data, []byte("\x1b[200~")) || bytes.Contains(c.Data, []byte("\x1b[201~")) {
		out = append(out, "paste-bracket")
	}
	if !utf8.Valid(c.Data) {
		out = append(out, "invalid-utf8")
	}
	if c.Charset != "UTF-8" {
		out = append(out, "legacy-charset")
	}
	if nonTrivial(c) {
		out = append(out, "cut-inside-token")
	}
	return out
}

// ---------------------------------------------------------------- conservation (M4)

// Embed: text A, one complete recognised token T, text B; expected events are
// computed without the library: runes of A, the token's event(s), runes of B.
type EmbedCase struct {
	Entry string `json:"entry"`
	A     string `json:"a"`
	Kind  string `json:"kind"` // clipboard-bel clipboard-st paste-start paste-end focus-in focus-out sgr-mouse key
	Arg   []byte `json:"arg,omitempty"`
	B     string `json:"b"`
	Cuts  []int  `json:"cuts"`
}

func runesOf(s string) []inref.Ev {
	var out []inref.Ev
	for _, r := range s {
		out = append(out, inref.Ev{Kind: "key", Key: int(tcell.KeyRune), Rune: r})
	}
	return out
}

func genEmbed(t *rapid.T) EmbedCase {
	c := EmbedCase{}
	c.Entry = rapid.SampledFrom([]string{"xterm", "xterm-256color", "xterm-kitty", "alacritty", "st", "rxvt-unicode", "linux", "konsole", "tmux", "xterm-ghostty", "foot", "gnome"}).Draw(t, "entry")
	text := func(l string) string {
		return rapid.SampledFrom([]string{"", "a", "x", "ab", "é", "世", "xyz~", "0", "Q", "=", "/", "A=="}).Draw(t, l)
	}
	c.A, c.B = text("a"), text("b")
	c.Kind = rapid.SampledFrom([]string{"clipboard-bel", "clipboard-st", "clipboard-bel", "paste-start", "paste-end", "focus-in", "focus-out", "sgr-mouse", "key"}).Draw(t, "kind")
	switch c.Kind {
	case "clipboard-bel", "clipboard-st":
		c.Arg = rapid.SliceOfN(rapid.Byte(), 0, 10).Draw(t, "payload")
	case "key":
		e, err := info(c.Entry)
		if err != nil {
			t.Fatalf("%v", err)
		}
		var multi []string
		for _, k := range e.Keys {
			if len(k) >= 3 && k[0] == 0x1b {
				multi = append(multi, k)
			}
		}
		c.Arg = []byte(rapid.SampledFrom(multi).Draw(t, "key"))
	}
	total := len(c.A) + 12 + len(c.B)
	n := rapid.IntRange(0, 4).Draw(t, "ncuts")
	for i := 0; i < n; i++ {
		c.Cuts = append(c.Cuts, rapid.IntRange(1, total).Draw(t, "cut"))
	}
	sort.Ints(c.Cuts)
	return c
}

func (c EmbedCase) token(e *entryInfo) ([]byte, []inref.Ev, bool) {
	switch c.Kind {
	case "clipboard-bel", "clipboard-st":
		if !e.Clip {
			return nil, nil, false
		}
		term := "\a"
		if c.Kind == "clipboard-st" {
			term = "\x1b\\"
		}
		return []byte("\x1b]52;c;" + base64.StdEncoding.EncodeToString(c.Arg) + term), []inref.Ev{{Kind: "clipboard", Data: string(c.Arg)}}, true
	case "paste-start":
		return []byte("\x1b[200~"), []inref.Ev{{Kind: "paste", Start: true}}, e.Paste
	case "paste-end":
		return []byte("\x1b[201~"), []inref.Ev{{Kind: "paste", Start: false}}, e.Paste
	case "focus-in":
		return []byte("\x1b[I"), []inref.Ev{{Kind: "focus", Focus: true}}, true
	case "focus-out":
		// on the rxvt family ESC [ O is a prefix of key sequences: what follows matters
		for _, k := range e.Keys {
			if len(k) > 3 && k[:3] == "\x1b[O" {
				return nil, nil, false
			}
		}
		return []byte("\x1b[O"), []inref.Ev{{Kind: "focus", Focus: false}}, true
	case "sgr-mouse":
		if !e.Mouse {
			return nil, nil, false
		}
		return []byte("\x1b[<0;5;7M"), []inref.Ev{{Kind: "mouse", X: 4, Y: 6, Btn: int(tcell.Button1)}}, true
	case "key":
		tbl, _ := tcell.VerifKeyTable(e.TI)
		v, ok := tbl[string(c.Arg)]
		if !ok || v.Key > tcell.KeyF64 {
			return nil, nil, false
		}
		return c.Arg, []inref.Ev{{Kind: "key", Key: int(v.Key), Mod: int(v.Mod)}}, true
	}
	return nil, nil, false
}

func embedProp(c EmbedCase) error {
	e, err := info(c.Entry)
	if err != nil {
		return err
	}
	tok, tevs, ok := c.token(e)
	if !ok {
		pbt.Excluded("token-not-recognised-on-entry")
		return nil
	}
	data := append(append([]byte(c.A), tok...), []byte(c.B)...)
	want := append(append(runesOf(c.A), tevs...), runesOf(c.B)...)
	got, err := run(e, "UTF-8", split(data, c.Cuts))
	if err != nil {
		return fmt.Errorf("%s: %q: %v", c.Entry, data, err)
	}
	if got.left != 0 || !inref.Equal(got.evs, want) {
		return fmt.Errorf("%s: text %q + %s token %q + text %q (split at %v) decodes to %s (%d left), want %s", c.Entry, c.A, c.Kind, tok, c.B, c.Cuts, inref.Show(got.evs), got.left, inref.Show(want))
	}
	return nil
}

// ---------------------------------------------------------------- several timeout epochs on one decoder

// EpochCase: segments of input, each followed by an expiry of the escape timeout,
// on ONE decoder. Once the timeout has expired nothing may remain - neither
// bytes nor modifier state - so the events must equal those of each segment
// decoded on a fresh decoder.
type EpochCase struct {
	Entry string   `json:"entry"`
	Segs  [][]byte `json:"segments"`
}

func genEpoch(t *rapid.T) EpochCase {
	c := EpochCase{Entry: rapid.SampledFrom(entryNames).Draw(t, "entry")}
	e, err := info(c.Entry)
	if err != nil {
		t.Fatalf("%v", err)
	}
	n := rapid.IntRange(2, 5).Draw(t, "nseg")
	for i := 0; i < n; i++ {
		var seg []byte
		switch rapid.IntRange(0, 6).Draw(t, "segkind") {
		case 0:
			seg = []byte("\x1b\x1b")
		case 1:
			seg = []byte("\x1b")
		case 2:
			seg = []byte(rapid.SampledFrom([]string{"\x1b[", "\x1bO", "\x1b[<0;1", "\x1b\x1b[", "\x1b]52;c;QQ", "a\x1b", "\x1b\x1bO"}).Draw(t, "partial"))
		default:
			k := rapid.IntRange(1, 3).Draw(t, "ntok")
			for j := 0; j < k; j++ {
				seg = append(seg, genToken(t, e)...)
			}
		}
		c.Segs = append(c.Segs, seg)
	}
	return c
}

func epochProp(c EpochCase) error {
	e, err := info(c.Entry)
	if err != nil {
		return err
	}
	in, err := e.decoder("UTF-8")
	if err != nil {
		return fmt.Errorf("harness: %v", err)
	}
	for i, seg := range c.Segs {
		var got []tcell.Event
		var left int
		if perr := pbt.Safe(func() error {
			evs, _ := in.Scan(seg, false)
			got = append(got, evs...)
			evs, left = in.Scan(nil, true)
			got = append(got, evs...)
			return nil
		}); perr != nil {
			return perr
		}
		want, err := run(e, "UTF-8", [][]byte{seg})
		if err != nil {
			return err
		}
		// which mouse buttons are held is state that rightly outlives a timeout
		// (a drag lasts longer than 50 ms); it belongs to C12, not here
		gotEv, wantEv := noButtons(inref.FromAll(got)), noButtons(want.evs)
		if left != 0 || !inref.Equal(gotEv, wantEv) {
			return fmt.Errorf("%s: segment %d %q after earlier segments %q (each followed by an expired escape timeout) decodes to %s (%d left); on a fresh decoder it decodes to %s", c.Entry, i, seg, c.Segs[:i], inref.Show(inref.FromAll(got)), left, inref.Show(want.evs))
		}
	}
	return nil
}

func noButtons(evs []inref.Ev) []inref.Ev {
	out := append([]inref.Ev{}, evs...)
	for i := range out {
		if out[i].Kind == "mouse" {
			out[i].Btn = 0
		}
	}
	return out
}

// ---------------------------------------------------------------- production timer path

// TimerCase: bytes that end in an incomplete sequence are sent through a real
// screen (fake tty, real goroutines, the real 50 ms escape timer); once the
// timer expires the buffered bytes must come out, exactly as the synchronous
// hook's expiring scan delivers them.
type TimerCase struct {
	Entry   string `json:"entry"`
	Data    []byte `json:"data"`
	Polling bool   `json:"polling_tty"` // the tty's Read returns (0, nil) every few ms while idle
}

func timerProp(c TimerCase) error {
	e, err := info(c.Entry)
	if err != nil {
		return err
	}
	want, err := run(e, "UTF-8", [][]byte{c.Data})
	if err != nil {
		return err
	}
	os.Setenv("LC_ALL", "en_US.UTF-8")
	cp := *e.TI
	cp.PadChar = ""
	tty := faketty.New(80, 24)
	if c.Polling {
		tty.IdleZeroRead = 4 * time.Millisecond
	}
	s, err := tcell.NewTerminfoScreenFromTtyTerminfo(tty, &cp)
	if err != nil {
		return fmt.Errorf("harness: %v", err)
	}
	if err := s.Init(); err != nil {
		return fmt.Errorf("harness: %v", err)
	}
	defer s.Fini()
	for s.HasPendingEvent() {
		s.PollEvent()
	}
	tty.Feed(c.Data)
	var got []inref.Ev
	deadline := time.Now().Add(pbt.Scaled(3 * time.Second))
	for len(got) < len(want.evs) && time.Now().Before(deadline) {
		if s.HasPendingEvent() {
			got = append(got, inref.From(s.PollEvent()))
		} else {
			time.Sleep(time.Millisecond)
		}
	}
	// nothing further may arrive
	time.Sleep(80 * time.Millisecond)
	for s.HasPendingEvent() {
		got = append(got, inref.From(s.PollEvent()))
	}
	if !inref.Equal(got, want.evs) {
		return fmt.Errorf("%s (polling tty: %v): %q through the real screen (50 ms escape timer) delivered %s within 3s, the expiring scan gives %s", c.Entry, c.Polling, c.Data, inref.Show(got), inref.Show(want.evs))
	}
	return nil
}

func timerSweep(t *testing.T) {
	sw := pbt.NewSweep(t, "timer-flush")
	var rc TimerCase
	if pbt.ReplayCase("timer-flush", &rc) {
		sw.Case(true, 1, func() any { return rc }, pbt.Safe(func() error { return timerProp(rc) }), nil)
		pbt.Note(true, 2)
		return
	}
	if sw.Skip() {
		return
	}
	datas := []string{"\x1b", "\x1b[", "\x1bO", "a\x1b", "\x1b[<0;1", "\x1b]52;c;QUJD", "\x1b[1;", "xy\x1b[20", "\xe4\xb8", "\x1b\x1b", "\x1b[M ", "\x1b[I\x1b[", "\x1b[200~ab\x1b[201"}
	ents := []string{"xterm", "linux", "rxvt-unicode", "vt100"}
	if pbt.Thorough() {
		ents = append(ents, "screen", "st", "konsole", "wy60", "ansi", "xterm-kitty")
	}
	item := 0
	for _, en := range ents {
		for _, d := range datas {
			item++
			if !sw.Mine(item) {
				continue
			}
			for _, polling := range []bool{false, true} {
				if polling && item%3 != 0 {
					continue
				}
				c := TimerCase{Entry: en, Data: []byte(d), Polling: polling}
				sw.Case(true, pbt.HashStr("timer", en, d, fmt.Sprint(polling)), func() any { return c }, pbt.Safe(func() error { return timerProp(c) }), nil)
			}
		}
	}
}

// ---------------------------------------------------------------- the real read pipeline

// LiveCase: complete tokens delivered in several tty reads (each read ends at a
// token boundary, so the escape timer is not involved) through a real screen
// with its input and main goroutines; the application polls only after the
// pipeline is saturated. Expected: exactly what the synchronous decoder gives
// for the whole byte string.
type LiveCase struct {
	Entry  string   `json:"entry"`
	Tokens [][]byte `json:"tokens"`
	PerRd  []int    `json:"tokens_per_read"`
	Defer  bool     `json:"defer_poll"`
}

func genLive(t *rapid.T) LiveCase {
	c := LiveCase{Entry: rapid.SampledFrom([]string{"xterm", "xterm-256color", "linux", "rxvt-unicode", "screen", "st", "vt220", "konsole"}).Draw(t, "entry")}
	e, err := info(c.Entry)
	if err != nil {
		t.Fatalf("%v", err)
	}
	n := rapid.IntRange(1, 90).Draw(t, "ntok")
	for i := 0; i < n; i++ {
		var tok []byte
		switch rapid.IntRange(0, 5).Draw(t, "k") {
		case 0, 1, 2:
			tok = []byte(string(rune(0x4E00 + i)))
		case 3:
			tok = []byte{byte('a' + i%26)}
		case 4:
			var keys []string
			for _, k := range e.Keys {
				if len(k) >= 3 && k[0] == 0x1b {
					keys = append(keys, k)
				}
			}
			if len(keys) > 0 {
				tok = []byte(rapid.SampledFrom(keys).Draw(t, "key"))
			} else {
				tok = []byte("k")
			}
		default:
			if e.Mouse {
				tok = []byte(fmt.Sprintf("\x1b[<0;%d;%dM", i%70+1, i/70+1)) // inside 80x24, the size both decoders clip to
			} else {
				tok = []byte("m")
			}
		}
		c.Tokens = append(c.Tokens, tok)
	}
	left := n
	for left > 0 {
		k := rapid.IntRange(1, 4).Draw(t, "perread")
		if k > left {
			k = left
		}
		c.PerRd = append(c.PerRd, k)
		left -= k
	}
	c.Defer = rapid.IntRange(0, 3).Draw(t, "defer") != 0
	return c
}

func liveProp(c LiveCase) error {
	e, err := info(c.Entry)
	if err != nil {
		return err
	}
	var all []byte
	for _, tk := range c.Tokens {
		all = append(all, tk...)
	}
	want, err := run(e, "UTF-8", [][]byte{all})
	if err != nil {
		return err
	}
	var reads [][]byte
	i := 0
	for _, k := range c.PerRd {
		var rd []byte
		for j := 0; j < k && i < len(c.Tokens); j++ {
			rd = append(rd, c.Tokens[i]...)
			i++
		}
		for len(rd) > 120 { // a Read hands over at most 128 bytes
			reads = append(reads, rd[:1])
			rd = rd[1:]
		}
		reads = append(reads, rd)
	}
	got, err := live.RunReads(e.TI, "UTF-8", reads, c.Defer, len(want.evs))
	if err != nil {
		return err
	}
	if !inref.Equal(got, want.evs) {
		k := 0
		for k < len(got) && k < len(want.evs) && got[k] == want.evs[k] {
			k++
		}
		g, w := "<none>", "<none>"
		if k < len(got) {
			g = got[k].String()
		}
		if k < len(want.evs) {
			w = want.evs[k].String()
		}
		return fmt.Errorf("%s: %d tokens in %d reads (polling deferred: %v) through the real screen: %d events delivered, one read decodes to %d; first difference at %d: got %s want %s", c.Entry, len(c.Tokens), len(reads), c.Defer, len(got), len(want.evs), k, g, w)
	}
	return nil
}

func TestProp(t *testing.T) {
	defer pbt.Recover(t)
	loadEntries()
	pbt.Describe("partition: rapid byte strings (token grammar: keys of the entry's real key table, SGR/X11 mouse reports, paste brackets, focus reports, OSC 52 replies with BEL/ST and valid/invalid base64, UTF-8 text, lone ESC, control and invalid bytes, sequence prefixes; mutated tokens; arbitrary bytes) x registered entries x charsets x read partitions (incl. every byte alone), decoded by the production collectEventsFromInput through the synchronous verif hook: one read + expiry vs the partition + expiry must give equal events, zero leftover, no panic, no stall; embed: text A + one complete recognised token + text B with expected events computed independently (runes of A, the token's event, runes of B); epochs: several input segments on one decoder, each followed by an expiry of the escape timeout, must decode like the same segments on fresh decoders (no bytes and no modifier state survive an expiry); stale-timer: a key sequence split across reads while the application does not poll (read 1 ends inside a sequence, read 2 completes it, overfills the event queue and ends inside another sequence, read 3 completes that; all three arrive within 25 ms, the application resumes polling 130 ms later): no escape timeout lies between any two reads, so the events must be those of the concatenated stream (a wrong decode is only believed after three plays in a row; plays the machine was too slow for are discarded and counted); live-reads: complete tokens (more than both internal queues hold) delivered in many tty reads through a real screen with its goroutines while the application defers polling, compared with the synchronous decode of the whole string; timer-flush: inputs ending in an incomplete sequence sent through a real screen (fake tty, real goroutines): once the production 50 ms escape timer expires the buffered bytes must come out exactly as the expiring scan of the hook delivers them. Non-trivial = >= 2 chunks with a cut strictly inside a multi-byte token; distinct = hash of the case.",
		"no escape timeout expires between the chunks of one case (the hook scans synchronously); one expiring scan ends every case",
		"what a malformed sequence decodes to is unspecified: only partition independence, zero leftover and no panic/stall apply to it",
		"a scan that does not return within 10 s counts as a stall")
	pbt.Check(t, "partition", pbt.Pick(40000, 400000), pbt.Spec[Case]{Gen: genCase, Prop: prop, NonTrivial: nonTrivial, Classes: classes})
	timerSweep(t)
	pbt.Check(t, "epochs", pbt.Pick(20000, 150000), pbt.Spec[EpochCase]{Gen: genEpoch, Prop: epochProp,
		NonTrivial: func(c EpochCase) bool {
			for _, s := range c.Segs[:len(c.Segs)-1] {
				if len(s) > 0 && s[len(s)-1] == 0x1b || bytes.HasSuffix(s, []byte("\x1b[")) {
					return true
				}
			}
			return false
		}})
	pbt.Check(t, "stale-timer", pbt.Pick(24, 400), pbt.Spec[StaleCase]{Gen: genStale, Prop: staleProp})
	pbt.Check(t, "live-reads", pbt.Pick(120, 2000), pbt.Spec[LiveCase]{Gen: genLive, Prop: liveProp,
		NonTrivial: func(c LiveCase) bool { return len(c.Tokens) > 25 && len(c.PerRd) > 3 && c.Defer }})
	pbt.Check(t, "embed", pbt.Pick(15000, 150000), pbt.Spec[EmbedCase]{Gen: genEmbed, Prop: embedProp,
		NonTrivial: func(c EmbedCase) bool { return len(c.Cuts) > 0 && (c.A != "" || c.B != "") }})
}
