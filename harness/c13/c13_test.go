// C13 — Show() redraws only cells whose appearance changed; locked cells never.
package c13

import (
	"fmt"
	"strings"
	"testing"

	"pgregory.net/rapid"

	"verifharness/internal/pbt"
	"verifharness/internal/shadow"
	"verifharness/internal/tsrun"
)

func TestMain(m *testing.M) { pbt.Main(m, "C13") }

type Case struct {
	Cfg tsrun.Config `json:"cfg"`
	Ops []tsrun.Op   `json:"ops"`
}

var entries []string

func genCase(t *rapid.T) Case {
	o := tsrun.GenOpts{MaxOps: pbt.Pick(40, 80), Resize: true, Lock: true, MaxW: pbt.Pick(10, 20), MaxH: pbt.Pick(5, 8), MinW: 2, Urls: true}
	c := Case{Cfg: tsrun.GenConfig(t, entries, o)}
	ops := tsrun.GenOps(t, c.Cfg.W, c.Cfg.H, o)
	// more Shows: the property is about consecutive Shows
	var out []tsrun.Op
	for _, op := range ops {
		out = append(out, op)
		if op.Kind != "show" && rapid.IntRange(0, 3).Draw(t, "extrashow") == 0 {
			out = append(out, tsrun.Op{Kind: "show"})
		}
	}
	if rapid.IntRange(0, 2).Draw(t, "dupshow") == 0 {
		out = append(out, tsrun.Op{Kind: "show"})
	}
	if rapid.IntRange(0, 5).Draw(t, "fault") == 0 {
		// a tty write that fails part-way through one frame, then Shows without changes
		x, y := rapid.IntRange(0, c.Cfg.W-1).Draw(t, "fx"), rapid.IntRange(0, c.Cfg.H-1).Draw(t, "fy")
		out = append(out, tsrun.Op{Kind: "set", X: x, Y: y, R: 'F'}, tsrun.Op{Kind: "writefault", N: rapid.IntRange(0, 40).Draw(t, "fn")}, tsrun.Op{Kind: "show"}, tsrun.Op{Kind: "show"})
		if rapid.Bool().Draw(t, "flock") {
			out = append(out, tsrun.Op{Kind: "lock", X: x, Y: y, W: 1, H: 1, On: true}, tsrun.Op{Kind: "show"})
		}
	}
	c.Ops = out
	return c
}

type cellSet map[[2]int]bool

const knownWideCorner = "C01-amtrick-wide-rune-at-corner"

func prop(c Case) error {
	r, err := tsrun.New(c.Cfg)
	if err != nil {
		return err
	}
	if err := r.Init(); err != nil {
		return err
	}
	defer r.Close()

	var allowed, mustWrite, lockedNow cellSet
	lockedAtLastShow := cellSet{}
	unlockCalled := cellSet{}
	anyChange := false
	wasFull := false
	r.BeforeMark = func(full bool) {
		sh := r.Shadow
		wasFull = full
		allowed, mustWrite, lockedNow = cellSet{}, cellSet{}, cellSet{}
		anyChange = false
		for y := 0; y < sh.H; y++ {
			row := sh.ExpectedRow(y)
			oldRow := sh.SnapRow(y)
			for x := 0; x < sh.W; x++ {
				cell := sh.At(x, y)
				add := func(xx int) {
					if xx >= 0 && xx < sh.W {
						allowed[[2]int{xx, y}] = true
					}
				}
				if cell.Locked {
					lockedNow[[2]int{x, y}] = true
					// a locked cell is not painted, but a wide rune stored in it
					// (even transiently) covers / uncovers its right neighbour
					if sh.Touched(x, y) && (sh.MaxWidth(x, y) == 2 || sh.SnapWidth(x, y) == 2 || oldRow[x].Width == 2 || row[x].Width == 2) {
						anyChange = true
						add(x + 1)
					}
					continue
				}
				// visible change: content touched since the previous Show (possibly
				// changed and changed back), or the cell became covered / uncovered /
				// changed display width because a wide rune to its left changed
				if sh.Touched(x, y) || oldRow[x].Hidden != row[x].Hidden || oldRow[x].Width != row[x].Width {
					anyChange = true
					add(x)
					if sh.MaxWidth(x, y) == 2 || oldRow[x].Width == 2 || row[x].Width == 2 || sh.SnapWidth(x, y) == 2 {
						add(x + 1)
					}
				}
				if cell.R == 0 {
					add(x) // never-written cells are normalised to blanks lazily
				}
				if unlockCalled[[2]int{x, y}] {
					anyChange = true
					add(x)
				}
				if lockedAtLastShow[[2]int{x, y}] {
					// unlocked since the previous Show: repainted by this one
					anyChange = true
					add(x)
					if !row[x].Hidden {
						mustWrite[[2]int{x, y}] = true
					}
				}
			}
		}
		// repainting a wide rune writes both of its columns
		for y := 0; y < sh.H; y++ {
			row := sh.ExpectedRow(y)
			for x := 0; x+1 < sh.W; x++ {
				if row[x].Width == 2 && allowed[[2]int{x, y}] {
					allowed[[2]int{x + 1, y}] = true
				}
			}
		}
		// the neighbour used to paint the bottom-right corner on auto-margin terminals
		if r.Caps.AMTrick && sh.W >= 2 && allowed[[2]int{sh.W - 1, sh.H - 1}] {
			allowed[[2]int{sh.W - 2, sh.H - 1}] = true
		}
	}

	tainted := false
	for i, op := range c.Ops {
		if op.Kind == "lock" && !op.On {
			// LockRegion(..., false) marks the whole region for repainting
			for y := op.Y; y < op.Y+op.H; y++ {
				for x := op.X; x < op.X+op.W; x++ {
					unlockCalled[[2]int{x, y}] = true
				}
			}
		}
		pt, err := r.Apply(op)
		if err != nil {
			return fmt.Errorf("step %d (%s): %v", i, op.Kind, err)
		}
		if pt == tsrun.None {
			continue
		}
		if r.Faulted {
			// the tty accepted only part of this frame: nothing to say about it,
			// but the library must not make up for it later by writing cells
			// that did not change (the next Shows are checked as usual)
			lockedAtLastShow = lockedNow
			unlockCalled = cellSet{}
			continue
		}
		if r.WideAtCornerOnTrickTerminal() {
			tainted = true // the known defect damages the display from here on
		}
		tag := ""
		if tainted || r.WideAtCornerOnTrickTerminal() {
			tag = "[" + knownWideCorner + "] "
		}
		if err := r.CheckStrict(); err != nil {
			return fmt.Errorf("%sstep %d (%s): %v", tag, i, op.Kind, err)
		}
		t := r.Term
		sh := r.Shadow
		// locked cells are never written while locked (full repaints included)
		for y := 0; y < sh.H && y < t.H; y++ {
			for x := 0; x < sh.W && x < t.W; x++ {
				written := t.At(x, y).Stamp == t.Block
				k := [2]int{x, y}
				if written && lockedNow[k] && t.At(x, y).Cont && x > 0 && !lockedNow[[2]int{x - 1, y}] {
					// the second column of a wide rune the application itself put on
					// the unlocked cell to the left: the application's own overlap
					written = false
				}
				if written && lockedNow[k] {
					return fmt.Errorf("%sstep %d (%s) on %s: locked cell (%d,%d) was written", tag, i, op.Kind, c.Cfg.Entry, x, y)
				}
				if !wasFull {
					if written && !allowed[k] {
						return fmt.Errorf("%sstep %d (%s) on %s %dx%d: cell (%d,%d) was written although neither it nor a wide rune covering/uncovering it changed since the previous Show", tag, i, op.Kind, c.Cfg.Entry, sh.W, sh.H, x, y)
					}
				}
				if mustWrite[k] && !written {
					return fmt.Errorf("%sstep %d (%s) on %s: cell (%d,%d) was unlocked since the previous Show but not repainted", tag, i, op.Kind, c.Cfg.Entry, x, y)
				}
			}
		}
		if !wasFull && !anyChange {
			if t.Printed > 0 || t.Erases > 0 || t.Inserts > 0 {
				return fmt.Errorf("%sstep %d (%s) on %s: no content changed since the previous Show, yet %d glyph(s) were printed, %d erase(s), %d insert(s)", tag, i, op.Kind, c.Cfg.Entry, t.Printed, t.Erases, t.Inserts)
			}
		}
		if !wasFull && t.Erases > 0 {
			return fmt.Errorf("%sstep %d (%s) on %s: a plain Show erased part of the display", tag, i, op.Kind, c.Cfg.Entry)
		}
		lockedAtLastShow = lockedNow
		unlockCalled = cellSet{}
	}
	return nil
}

func known(c Case, err error) string {
	if strings.HasPrefix(err.Error(), "["+knownWideCorner+"]") {
		return knownWideCorner
	}
	return ""
}

func nonTrivial(c Case) bool {
	// a Show after a partial change: Show, then some set, then Show
	stage := 0
	for _, op := range c.Ops {
		switch op.Kind {
		case "show", "sync":
			if stage == 2 {
				return true
			}
			stage = 1
		case "set", "setcell":
			if stage >= 1 {
				stage = 2
			}
		}
	}
	return false
}

func classes(c Case) []string {
	var out []string
	seen := map[string]bool{}
	add := func(s string) {
		if !seen[s] {
			seen[s] = true
			out = append(out, s)
		}
	}
	prevShow := false
	for _, op := range c.Ops {
		switch op.Kind {
		case "show":
			if prevShow {
				add("show-without-change")
			}
			prevShow = true
			continue
		case "lock":
			if op.On {
				add("lock")
			} else {
				add("unlock")
			}
		case "set", "setcell":
			if shadow.RuneWidth(op.R) == 2 {
				add("wide")
			}
		case "resize":
			add("resize")
		case "writefault":
			add("tty-write-fault")
		}
		prevShow = false
	}
	if nonTrivial(c) {
		add("show-after-partial-change")
	}
	return out
}

func TestProp(t *testing.T) {
	defer pbt.Recover(t)
	entries = tsrun.ECMAEntries()
	pbt.Describe("the C01 draw histories with extra Shows (incl. Shows with nothing changed and sets that re-store identical content) and lock/unlock regions, on every ECMA-48-family registered name; the reference terminal stamps every cell print with the number of the Show block, so after each plain Show: written cells must be a subset of {cells whose rune/combining/style changed since the previous Show} + {columns covered or uncovered by a changed wide rune} + {the neighbour (w-2,h-1) when the bottom-right cell is repainted on an auto-margin-trick terminal}; a Show with no change prints nothing and erases nothing; locked cells are never printed (also during Sync / resize redraws); cells unlocked since the previous Show are printed by this one. Non-trivial = Show, then a set, then Show; distinct = hash of the case.",
		"erasing the screen during Sync is not counted as writing to locked cells (Sync repaints everything by contract)",
		"a cell that was never written (rune 0) may be painted once as a blank",
		"content hidden under an unchanged wide rune does not have to be painted when it changes",
		"a locked cell that is the second column of a wide rune the application stored in the unlocked cell to its left is exempt (the application's own overlap)",
		"a cell whose content was changed and changed back between two Shows, or that lies in a region passed to LockRegion(...,false), may be repainted")
	pbt.Check(t, "history", pbt.Pick(10000, 60000), pbt.Spec[Case]{Gen: genCase, Prop: prop, NonTrivial: nonTrivial, Classes: classes, Known: known})
}
