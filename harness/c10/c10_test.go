// C10 — concurrent use of one Screen from several goroutines is free of data races.
//
// This package is built with -race by the driver. Each pair (and each generated
// set) of Screen methods runs as its own sub-test, so the race detector's
// per-test accounting attributes a report to the methods involved.
package c10

import (
	"fmt"
	"os"
	"path/filepath"
	"reflect"
	"runtime"
	"strings"
	"sync"
	"sync/atomic"
	"testing"
	"time"

	"github.com/gdamore/tcell/v2"
	"github.com/gdamore/tcell/v2/terminfo"
	"golang.org/x/text/encoding"

	"verifharness/internal/csets"
	"verifharness/internal/faketty"
	"verifharness/internal/pbt"
	"verifharness/internal/vt"
)

func TestMain(m *testing.M) {
	csets.Init()
	os.Setenv("LC_ALL", "en_US.UTF-8")
	pbt.Main(m, "C10")
}

type method struct {
	name string
	f    func(s tcell.Screen, i int)
	// state: touches screen state (for the non-triviality rule)
	state bool
}

var st1 = tcell.StyleDefault.Foreground(tcell.ColorRed).Bold(true)
var st2 = tcell.StyleDefault.Background(tcell.NewRGBColor(10, 20, 30)).Underline(tcell.UnderlineStyleCurly)

var combSink atomic.Int64

var methods = []method{
	{"SetContent", func(s tcell.Screen, i int) { s.SetContent(i%20, i%6, rune('a'+i%26), []rune{rune(0x0300 + i%3)}, st1) }, true},
	{"SetCell", func(s tcell.Screen, i int) { s.SetCell(i%20, i%6, st2, '世') }, true},
	{"GetContent", func(s tcell.Screen, i int) {
		// the application looks at what it got back (after the call returned)
		_, comb, _, _ := s.GetContent(i%20, i%6)
		var sum rune
		for k := 0; k < 4; k++ {
			for _, r := range comb {
				sum += r
			}
			runtime.Gosched()
		}
		combSink.Store(int64(sum))
	}, true},
	{"Fill", func(s tcell.Screen, i int) { s.Fill(rune('0'+i%10), st1) }, true},
	{"Clear", func(s tcell.Screen, i int) { s.Clear() }, true},
	{"SetStyle", func(s tcell.Screen, i int) { s.SetStyle(st2) }, true},
	{"ShowCursor", func(s tcell.Screen, i int) { s.ShowCursor(i%20, i%6) }, true},
	{"HideCursor", func(s tcell.Screen, i int) { s.HideCursor() }, true},
	{"SetCursorStyle", func(s tcell.Screen, i int) { s.SetCursorStyle(tcell.CursorStyle(i%7), tcell.ColorGreen) }, true},
	{"Size", func(s tcell.Screen, i int) { s.Size() }, true},
	{"Show", func(s tcell.Screen, i int) { s.Show() }, true},
	{"Sync", func(s tcell.Screen, i int) { s.Sync() }, true},
	{"LockRegion", func(s tcell.Screen, i int) { s.LockRegion(i%5, i%3, 2, 2, i%2 == 0) }, true},
	{"EnableMouse", func(s tcell.Screen, i int) { s.EnableMouse(tcell.MouseFlags(i % 8)) }, true},
	{"DisableMouse", func(s tcell.Screen, i int) { s.DisableMouse() }, true},
	{"EnablePaste", func(s tcell.Screen, i int) { s.EnablePaste() }, true},
	{"DisablePaste", func(s tcell.Screen, i int) { s.DisablePaste() }, true},
	{"EnableFocus", func(s tcell.Screen, i int) { s.EnableFocus() }, true},
	{"DisableFocus", func(s tcell.Screen, i int) { s.DisableFocus() }, true},
	{"SetTitle", func(s tcell.Screen, i int) { s.SetTitle(fmt.Sprint("t", i)) }, true},
	{"Beep", func(s tcell.Screen, i int) { _ = s.Beep() }, true},
	{"SetSize", func(s tcell.Screen, i int) { s.SetSize(20+i%3, 6) }, true},
	{"CanDisplay", func(s tcell.Screen, i int) { s.CanDisplay(rune(0x2500+i%64), i%2 == 0) }, true},
	{"RegisterRuneFallback", func(s tcell.Screen, i int) { s.RegisterRuneFallback(rune(0x2500+i%8), "+") }, true},
	{"UnregisterRuneFallback", func(s tcell.Screen, i int) { s.UnregisterRuneFallback(rune(0x2500 + i%8)) }, true},
	{"PostEvent", func(s tcell.Screen, i int) { _ = s.PostEvent(tcell.NewEventInterrupt(i)) }, false},
	{"HasPendingEvent", func(s tcell.Screen, i int) { s.HasPendingEvent() }, false},
	{"Colors", func(s tcell.Screen, i int) { s.Colors() }, false},
	{"CharacterSet", func(s tcell.Screen, i int) { s.CharacterSet() }, false},
	{"HasMouse", func(s tcell.Screen, i int) { s.HasMouse() }, false},
	{"HasKey", func(s tcell.Screen, i int) { s.HasKey(tcell.KeyF1) }, false},
	{"SetClipboard", func(s tcell.Screen, i int) { s.SetClipboard([]byte("clip")) }, true},
	{"GetClipboard", func(s tcell.Screen, i int) { s.GetClipboard() }, true},
	{"SuspendResume", func(s tcell.Screen, i int) {
		if i%40 == 0 {
			_ = s.Suspend()
			_ = s.Resume()
		}
	}, true},
}

type Case struct {
	Screen  string   `json:"screen"` // terminfo | simulation
	Methods []string `json:"methods"`
}

// tcellStacks returns the stacks of goroutines that have a tcell frame.
func tcellStacks() string {
	buf := make([]byte, 1<<20)
	n := runtime.Stack(buf, true)
	var out []string
	for _, g := range strings.Split(string(buf[:n]), "\n\n") {
		if strings.Contains(g, "gdamore/tcell/v2.") {
			lines := strings.Split(g, "\n")
			if len(lines) > 11 {
				lines = lines[:11]
			}
			out = append(out, strings.Join(lines, "\n"))
		}
	}
	if len(out) > 7 {
		out = out[:7]
	}
	return strings.Join(out, "\n--\n")
}

func contains(l []string, s string) bool {
	for _, x := range l {
		if x == s {
			return true
		}
	}
	return false
}

func lookup(name string) *method {
	for i := range methods {
		if methods[i].name == name {
			return &methods[i]
		}
	}
	return nil
}

var raceLogPrefix string

func raceLogSize() int64 {
	if raceLogPrefix == "" {
		return 0
	}
	files, _ := filepath.Glob(raceLogPrefix + ".*")
	var n int64
	for _, f := range files {
		if st, err := os.Stat(f); err == nil {
			n += st.Size()
		}
	}
	return n
}

func raceLogTail(from int64) string {
	files, _ := filepath.Glob(raceLogPrefix + ".*")
	var sb strings.Builder
	for _, f := range files {
		b, err := os.ReadFile(f)
		if err != nil {
			continue
		}
		if int64(len(b)) > from {
			b = b[from:]
		}
		sb.Write(b)
	}
	s := sb.String()
	// keep the frames that name tcell functions
	var keep []string
	for _, line := range strings.Split(s, "\n") {
		if strings.Contains(line, "DATA RACE") || strings.Contains(line, "gdamore/tcell/v2.") || strings.HasPrefix(line, "Previous") || strings.HasPrefix(line, "Read at") || strings.HasPrefix(line, "Write at") {
			keep = append(keep, strings.TrimSpace(line))
		}
		if len(keep) > 14 {
			break
		}
	}
	return strings.Join(keep, " | ")
}

var iterations = 250

// staticVarForm rewrites the parameterized strings of a description into an
// equivalent form that goes through terminfo's static variables (%PA..%PI,
// %gA..%gI): "%p1%PA%p2%PB" in front and %gA for every %p1 and so on. Static
// variables live in one process-wide array inside the terminfo package, so a
// description written this way is only safe while every evaluation happens
// under the screen lock - which is what the statement promises.
func staticVarForm(ti *terminfo.Terminfo) {
	conv := func(s string) string {
		if !strings.Contains(s, "%p") || strings.Contains(s, "%i") || strings.Contains(s, "%P") || strings.Contains(s, "%g") {
			return s
		}
		maxp := 0
		for k := 1; k <= 9; k++ {
			if strings.Contains(s, fmt.Sprintf("%%p%d", k)) {
				maxp = k
			}
		}
		pre := ""
		for k := 1; k <= maxp; k++ {
			pre += fmt.Sprintf("%%p%d%%P%c", k, 'A'+k-1)
			s = strings.ReplaceAll(s, fmt.Sprintf("%%p%d", k), fmt.Sprintf("%%g%c", 'A'+k-1))
		}
		return pre + s
	}
	v := reflect.ValueOf(ti).Elem()
	for i := 0; i < v.NumField(); i++ {
		if f := v.Field(i); f.Kind() == reflect.String && f.CanSet() {
			f.SetString(conv(f.String()))
		}
	}
	// the two that use %i / implicit stack order, by hand
	ti.SetCursor = "%p1%PA%p2%PB\x1b[%gA%{1}%+%d;%gB%{1}%+%dH"
	ti.SetWindowSize = "%p1%PC%p2%PD\x1b[8;%gD%d;%gC%dt"
}

// runCase runs the methods concurrently on a live screen with the library's own
// goroutines busy (input, resize notifications, a poller).
func runCase(c Case) (err error) {
	var s tcell.Screen
	var tty *faketty.Tty
	var term *vt.Term
	var sim tcell.SimulationScreen
	switch c.Screen {
	case "terminfo", "terminfo-latin1", "terminfo-svars", "terminfo-iso2022jp":
		var enc encoding.Encoding
		if c.Screen == "terminfo-iso2022jp" {
			// a charset with shift states: the screen's one encoder is stateful in
			// earnest (the reference terminal does not speak ISO-2022-JP, so the
			// output is not interpreted on this screen)
			os.Setenv("LC_ALL", "ja_JP.ISO-2022-JP")
		} else if c.Screen == "terminfo-latin1" {
			// an 8-bit locale: the screen's encoder is stateful and unencodable
			// runes go through the ACS map and the fallback map
			os.Setenv("LC_ALL", "en_US.ISO8859-1")
			enc = tcell.GetEncoding("ISO8859-1")
		} else {
			os.Setenv("LC_ALL", "en_US.UTF-8")
		}
		base, e := terminfo.LookupTerminfo("xterm-256color")
		if e != nil {
			return fmt.Errorf("harness: %v", e)
		}
		ti := *base
		ti.PadChar = ""
		if c.Screen == "terminfo-svars" {
			staticVarForm(&ti)
		}
		tty = faketty.New(20, 6)
		if c.Screen != "terminfo-iso2022jp" {
			term = vt.New(20, 6, enc, vt.Profile{})
			tty.Sink = func(b []byte) { term.Write(b) }
		}
		s, e = tcell.NewTerminfoScreenFromTtyTerminfo(tty, &ti)
		if e != nil {
			return fmt.Errorf("harness: %v", e)
		}
	default:
		sim = tcell.NewSimulationScreen("UTF-8")
		s = sim
	}
	if e := s.Init(); e != nil {
		return fmt.Errorf("harness: Init: %v", e)
	}
	if sim != nil {
		sim.SetSize(20, 6)
	}
	var stop, stopPoller atomic.Bool
	var bg, pollerWG sync.WaitGroup
	var firstPanic atomic.Value
	catch := func(who string) {
		if p := recover(); p != nil {
			buf := make([]byte, 2048)
			n := runtime.Stack(buf, false)
			firstPanic.Store(fmt.Sprintf("%s panicked: %v\n%s", who, p, buf[:n]))
		}
	}
	// background traffic
	bg.Add(1)
	pollerWG.Add(1)
	go func() { // poller: keeps draining until the traffic generator has stopped
		defer pollerWG.Done()
		defer catch("poller")
		for !stopPoller.Load() {
			if s.HasPendingEvent() {
				s.PollEvent()
			} else {
				runtime.Gosched()
			}
		}
	}()
	go func() { // input and resize traffic
		defer bg.Done()
		defer catch("traffic")
		for i := 0; !stop.Load(); i++ {
			if tty != nil {
				tty.Feed([]byte("k\x1b[<0;3;3M\x1b[A"))
				tty.SetSize(20, 6+i%2, true) // the height really changes (the reference terminal clamps rows, so no tokenizer noise)
			} else {
				sim.InjectKey(tcell.KeyRune, 'k', 0)
				sim.InjectMouse(1, 1, tcell.Button1, 0)
			}
			time.Sleep(200 * time.Microsecond)
		}
	}()
	var wg sync.WaitGroup
	var progress atomic.Int64
	for gi, name := range c.Methods {
		m := lookup(name)
		if m == nil {
			return fmt.Errorf("harness: unknown method %q", name)
		}
		wg.Add(1)
		go func(gi int, m *method) {
			defer wg.Done()
			defer catch(m.name)
			for i := 0; i < iterations; i++ {
				m.f(s, i*7+gi)
				progress.Add(1)
				if i%16 == 0 {
					runtime.Gosched()
				}
			}
		}(gi, m)
	}
	done := make(chan struct{})
	go func() { wg.Wait(); close(done) }()
	// A deadlock or a spin inside a call shows as no call of any method
	// completing for 30 s; slowness (a loaded machine, the race detector) does
	// not, however long the whole case takes.
	last, lastAt, began := int64(-1), time.Now(), time.Now()
wait:
	for {
		select {
		case <-done:
			break wait
		case <-time.After(time.Second):
		}
		if p := progress.Load(); p != last {
			last, lastAt = p, time.Now()
		} else if time.Since(lastAt) > 30*time.Second {
			stop.Store(true)
			stopPoller.Store(true)
			return fmt.Errorf("methods %v: no call completed for 30s after %d calls (deadlock?); goroutines with tcell frames:\n%s", c.Methods, last, tcellStacks())
		}
		if time.Since(began) > 10*time.Minute {
			stop.Store(true)
			stopPoller.Store(true)
			pbt.Inconclusive(fmt.Sprintf("methods %v still making progress after 10 minutes (%d calls); case abandoned", c.Methods, last))
			return nil
		}
	}
	stop.Store(true)
	bgDone := make(chan struct{})
	go func() { bg.Wait(); close(bgDone) }()
	select {
	case <-bgDone:
	case <-pbt.After(10 * time.Second):
		stopPoller.Store(true)
		return fmt.Errorf("the input / resize traffic goroutine is still blocked 10s after the methods %v finished", c.Methods)
	}
	stopPoller.Store(true)
	pollerWG.Wait()
	// Fini is a Screen method like the others: several goroutines may call it at once
	fin := make(chan struct{})
	go func() {
		var fw sync.WaitGroup
		var gate sync.WaitGroup
		gate.Add(1)
		for k := 0; k < 3; k++ {
			fw.Add(1)
			go func() { defer fw.Done(); defer catch("Fini (three concurrent calls)"); gate.Wait(); s.Fini() }()
		}
		gate.Done()
		fw.Wait()
		close(fin)
	}()
	select {
	case <-fin:
	case <-pbt.After(10 * time.Second):
		return fmt.Errorf("Fini did not return after methods %v; goroutines with tcell frames:\n%s", c.Methods, tcellStacks())
	}
	if p := firstPanic.Load(); p != nil {
		return fmt.Errorf("%v", p)
	}
	if term != nil {
		_ = tty.QueuedInput() // lock barrier
		if len(term.Errors) > 0 {
			return fmt.Errorf("output stream corrupted while %v ran concurrently: %s", c.Methods, strings.Join(term.Errors, "; "))
		}
	}
	return nil
}

// runAttributed runs the case as a sub-test and turns a race report into an error.
func runAttributed(t *testing.T, c Case) error {
	var err error
	before := raceLogSize()
	ok := t.Run(c.Screen+"/"+strings.Join(c.Methods, "+"), func(t *testing.T) {
		err = pbt.Safe(func() error { return runCase(c) })
		if err != nil {
			t.Errorf("%v", err)
		}
	})
	if err != nil {
		return err
	}
	if !ok || raceLogSize() > before {
		return fmt.Errorf("data race while %v ran concurrently on the %s screen: %s", c.Methods, c.Screen, raceLogTail(before))
	}
	return nil
}

func TestProp(t *testing.T) {
	defer pbt.Recover(t)
	// GORACE=log_path=<prefix> is set by the driver
	for _, kv := range strings.Fields(os.Getenv("GORACE")) {
		if strings.HasPrefix(kv, "log_path=") {
			raceLogPrefix = strings.TrimPrefix(kv, "log_path=")
		}
	}
	pbt.Describe("built with the Go race detector. pairs: every unordered pair (incl. a method with itself) of 34 Screen methods runs concurrently in loops of 250 calls (1500 in thorough) on a live terminfo screen (xterm-256color over a fake tty with input and resize-notification traffic and a poller, so the library's own goroutines take part) and on a SimulationScreen, each pair as its own sub-test; sets: generated sets of 3-4 methods. Oracle: no race report (sub-test failure or growth of the race log, reported with the tcell frames of the two stacks), no panic or runtime fault in any goroutine, no deadlock, and on the terminfo screen every byte written tokenizes in the strict reference terminal (a Show block reaches the tty as one Write, so corruption needs a torn buffer). Non-trivial = both methods touch screen state; distinct = sorted method set + screen.",
		"the race detector only sees accesses that execute; this is exploration over the schedules the Go scheduler produces in 250-iteration loops",
		"identity of a finding is the pair of tcell functions in the race report, not the number of reports",
		"Suspend/Resume are issued by at most one goroutine at a time (lifecycle calls have a single owner)")
	if pbt.Thorough() {
		iterations = 1500
	}
	sw := pbt.NewSweep(t, "pairs")
	var rc Case
	if pbt.ReplayCase("pairs", &rc) || pbt.ReplayCase("sets", &rc) {
		err := runAttributed(t, rc)
		sw.Case(true, 1, func() any { return rc }, err, nil)
		pbt.Note(true, 2)
		return
	}
	if sw.Skip() {
		return
	}
	item := 0
	charsetSensitive := map[string]bool{"CanDisplay": true, "RegisterRuneFallback": true, "UnregisterRuneFallback": true}
	emitters := map[string]bool{"Show": true, "Sync": true, "SetSize": true, "SetCursorStyle": true, "ShowCursor": true, "SetTitle": true, "SetClipboard": true, "SuspendResume": true, "SetContent": true}
	for _, screen := range []string{"terminfo", "simulation", "terminfo-latin1", "terminfo-svars", "terminfo-iso2022jp"} {
		for i := range methods {
			for j := i; j < len(methods); j++ {
				if screen == "terminfo-latin1" && !pbt.Thorough() && !charsetSensitive[methods[i].name] && !charsetSensitive[methods[j].name] {
					continue // quick: the 8-bit locale only for the methods that depend on it
				}
				if screen == "terminfo-iso2022jp" && !(methods[i].name == "CanDisplay" || methods[j].name == "CanDisplay") {
					continue // the stateful charset matters to what shares the encoder with CanDisplay
				}
				if screen == "terminfo-iso2022jp" && !pbt.Thorough() && !(methods[i].name == "CanDisplay" && (methods[j].name == "CanDisplay" || methods[j].name == "Show" || methods[j].name == "Sync")) && !(methods[j].name == "CanDisplay" && (methods[i].name == "SetContent" || methods[i].name == "Show" || methods[i].name == "Sync")) {
					continue
				}
				if screen == "terminfo-svars" && !pbt.Thorough() && !(emitters[methods[i].name] && emitters[methods[j].name]) {
					continue // quick: the static-variable description only for pairs of methods that evaluate parameterized strings
				}
				item++
				if !sw.Mine(item) {
					continue
				}
				if sw.Stop() {
					continue // enough failures recorded: every further hang costs its full watchdog time
				}
				if methods[i].name == "SuspendResume" && methods[j].name == "SuspendResume" {
					continue // lifecycle calls have one owner; two goroutines suspending and resuming each other is not a use the statement describes
				}
				c := Case{Screen: screen, Methods: []string{methods[i].name, methods[j].name}}
				err := runAttributed(t, c)
				sw.Case(methods[i].state && methods[j].state, pbt.HashStr(screen, methods[i].name, methods[j].name), func() any { return c }, err, nil)
			}
		}
	}
	pbt.Exhaustive("all unordered pairs of the 34 listed Screen methods x {terminfo screen in a UTF-8 locale, SimulationScreen}; in an ISO8859-1 locale all pairs in thorough and the pairs involving CanDisplay / RegisterRuneFallback / UnregisterRuneFallback in quick; on a description whose parameterized strings go through terminfo static variables (process-wide state in the terminfo package) all pairs in thorough and the pairs of string-emitting methods in quick; in an ISO-2022-JP locale (an encoder with shift states) the pairs involving CanDisplay; every case ends with three concurrent Fini calls")
	// generated larger sets
	sets := pbt.NewSweep(t, "sets")
	n := pbt.Pick(12, 200)
	seed := pbt.Seed()
	next := func() int {
		seed ^= seed << 13
		seed ^= seed >> 7
		seed ^= seed << 17
		return int(seed % uint64(len(methods)))
	}
	for k := 0; k < n; k++ {
		sz := 3 + k%2
		c := Case{Screen: []string{"terminfo", "simulation"}[k%2]}
		for len(c.Methods) < sz {
			m := methods[next()].name
			if m == "SuspendResume" && contains(c.Methods, m) {
				continue
			}
			c.Methods = append(c.Methods, m)
		}
		err := runAttributed(t, c)
		sets.Case(true, pbt.HashStr("set", c.Screen, strings.Join(c.Methods, "+")), func() any { return c }, err, nil)
	}
}
