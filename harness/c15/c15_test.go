// C15 — TPuts strips only padding; TGoto and TColor are right for every terminal.
package c15

import (
	"bytes"
	"fmt"
	"sort"
	"strconv"
	"strings"
	"testing"
	"time"

	"github.com/gdamore/tcell/v2/terminfo"
	_ "github.com/gdamore/tcell/v2/terminfo/extended"
	"pgregory.net/rapid"

	"verifharness/internal/pbt"
	"verifharness/internal/vt"
)

func TestMain(m *testing.M) { pbt.Main(m, "C15") }

// ---------------------------------------------------------------- TPuts

// refStrip implements the statement: every well-formed $<n[.m][*][/]> removed,
// an unterminated "$<" written verbatim. ok=false: the string contains a
// terminated but malformed specification (unspecified). delays in ms.
func refStrip(s string) (out string, delayMs float64, nspecs int, ok bool) {
	var sb strings.Builder
	ok = true
	for {
		i := strings.Index(s, "$<")
		if i < 0 {
			sb.WriteString(s)
			return sb.String(), delayMs, nspecs, ok
		}
		sb.WriteString(s[:i])
		rest := s[i+2:]
		j := strings.IndexByte(rest, '>')
		if j < 0 {
			sb.WriteString(s[i:])
			return sb.String(), delayMs, nspecs, ok
		}
		spec := rest[:j]
		d, good := parseSpec(spec)
		if !good {
			return "", 0, 0, false
		}
		delayMs += d
		nspecs++
		s = rest[j+1:]
	}
}

func parseSpec(spec string) (float64, bool) {
	i := 0
	for i < len(spec) && spec[i] >= '0' && spec[i] <= '9' {
		i++
	}
	if i == 0 {
		return 0, false
	}
	num := spec[:i]
	if i < len(spec) && spec[i] == '.' {
		k := i + 1
		for k < len(spec) && spec[k] >= '0' && spec[k] <= '9' {
			k++
		}
		num = spec[:k]
		i = k
	}
	flags := spec[i:]
	switch flags {
	case "", "*", "/", "*/", "/*":
	default:
		return 0, false
	}
	if strings.HasSuffix(num, ".") {
		num += "0"
	}
	d, err := strconv.ParseFloat(num, 64)
	if err != nil {
		return 0, false
	}
	return d, true
}

type PutsCase struct {
	S       []byte `json:"s"`
	PadChar bool   `json:"padchar"`
	Split   int    `json:"split"` // writer accepts at most Split bytes per Write call semantics (0 = unlimited)
}

type chunkWriter struct {
	buf    bytes.Buffer
	writes int
}

func (w *chunkWriter) Write(p []byte) (int, error) {
	w.writes++
	return w.buf.Write(p)
}

func genPuts(t *rapid.T) PutsCase {
	var sb []byte
	n := rapid.IntRange(0, 8).Draw(t, "n")
	for i := 0; i < n; i++ {
		switch rapid.IntRange(0, 9).Draw(t, "tok") {
		case 0, 1, 2:
			sb = append(sb, rapid.SliceOfN(rapid.SampledFrom([]byte("ab\x1b[H;0m$<>.*/5 ")), 1, 5).Draw(t, "lit")...)
		case 3, 4, 5, 6:
			// well-formed padding spec with small delay
			spec := "$<" + strconv.Itoa(rapid.IntRange(0, 4).Draw(t, "ms"))
			if rapid.Bool().Draw(t, "frac") {
				spec += "." + strconv.Itoa(rapid.IntRange(0, 9).Draw(t, "tenths"))
			}
			spec += rapid.SampledFrom([]string{"", "", "*", "/", "*/", "/*"}).Draw(t, "flags")
			sb = append(sb, spec+">"...)
		case 7:
			sb = append(sb, "$<"...)
			sb = append(sb, rapid.SliceOfN(rapid.SampledFrom([]byte("0123.*/ab")), 0, 4).Draw(t, "unterminated")...)
		case 8:
			sb = append(sb, rapid.SliceOfN(rapid.SampledFrom([]byte("$<>")), 1, 4).Draw(t, "markers")...)
		default:
			sb = append(sb, rapid.SliceOfN(rapid.Byte(), 1, 4).Draw(t, "bytes")...)
		}
	}
	return PutsCase{S: sb, PadChar: rapid.Bool().Draw(t, "pad")}
}

func putsProp(c PutsCase) error {
	want, delay, _, ok := refStrip(string(c.S))
	ti := &terminfo.Terminfo{}
	if c.PadChar {
		ti.PadChar = "\x00"
	}
	w := &chunkWriter{}
	t0 := time.Now()
	ti.TPuts(w, string(c.S))
	el := time.Since(t0)
	if !ok {
		pbt.Excluded("unspecified:terminated-malformed-padding")
		return nil
	}
	if got := w.buf.String(); got != want {
		return fmt.Errorf("TPuts(%q) wrote %q, want %q (only well-formed $<..> specifications removed)", c.S, got, want)
	}
	if c.PadChar && el < time.Duration(delay*float64(time.Millisecond)) {
		return fmt.Errorf("TPuts(%q) with a pad character returned after %v, specified delay %.1fms", c.S, el, delay)
	}
	return nil
}

func putsNonTrivial(c PutsCase) bool {
	_, _, n, ok := refStrip(string(c.S))
	return ok && n >= 2 && bytes.Contains(c.S, []byte("."))
}

func putsClasses(c PutsCase) []string {
	var out []string
	_, d, n, ok := refStrip(string(c.S))
	if !ok {
		return []string{"malformed-terminated"}
	}
	if n > 0 {
		out = append(out, "has-padding")
	}
	if n >= 2 {
		out = append(out, "two-or-more-specs")
	}
	if d > 0 && c.PadChar {
		out = append(out, "sleeps")
	}
	s := string(c.S)
	if i := strings.LastIndex(s, "$<"); i >= 0 && !strings.Contains(s[i:], ">") {
		out = append(out, "unterminated")
	}
	return out
}

// no-sleep side: without a pad character TPuts must not sleep.
func noSleepCheck(t *testing.T) {
	if _, r := pbt.Replaying(); r {
		return
	}
	sw := pbt.NewSweep(t, "tputs-nosleep")
	for i, s := range []string{"a$<300>b", "$<150>x$<150/>", "\x1b[H$<250*>"} {
		want, delay, _, _ := refStrip(s)
		best := time.Hour
		for try := 0; try < 3; try++ {
			w := &chunkWriter{}
			t0 := time.Now()
			(&terminfo.Terminfo{}).TPuts(w, s)
			if el := time.Since(t0); el < best {
				best = el
			}
			if w.buf.String() != want {
				sw.Case(true, pbt.HashStr(s), func() any { return s }, fmt.Errorf("TPuts(%q) wrote %q want %q", s, w.buf.String(), want), nil)
			}
		}
		var err error
		if best >= time.Duration(delay*float64(time.Millisecond)) {
			err = fmt.Errorf("TPuts(%q) without a pad character took %v in the best of 3 tries: it slept although the description has no pad character", s, best)
		}
		sw.Case(true, pbt.HashStr("nosleep", strconv.Itoa(i)), func() any { return s }, err, nil)
	}
	// and with a pad character the delay is honoured
	for i, s := range []string{"a$<20>b", "$<7.5>x$<12/>"} {
		_, delay, _, _ := refStrip(s)
		w := &chunkWriter{}
		t0 := time.Now()
		(&terminfo.Terminfo{PadChar: "\x00"}).TPuts(w, s)
		el := time.Since(t0)
		var err error
		if el < time.Duration(delay*float64(time.Millisecond)) {
			err = fmt.Errorf("TPuts(%q) with a pad character returned after %v < %.1fms", s, el, delay)
		}
		sw.Case(true, pbt.HashStr("sleep", strconv.Itoa(i)), func() any { return s }, err, nil)
	}
}

// ---------------------------------------------------------------- TGoto

func family(name string) string {
	switch name {
	case "vt52":
		return "vt52"
	case "wy50", "wy60", "wyse50", "wyse60":
		return "wyse"
	case "hpterm", "X-hpterm":
		return "hp"
	}
	return "ansi"
}

// decodeGoto returns (col,row) addressed by s under the family's convention.
func decodeGoto(fam, s string) (int, int, error) {
	stripped, _, _, ok := refStrip(s)
	if !ok {
		return 0, 0, fmt.Errorf("malformed padding in %q", s)
	}
	s = stripped
	switch fam {
	case "ansi":
		if !strings.HasPrefix(s, "\x1b[") || !strings.HasSuffix(s, "H") {
			return 0, 0, fmt.Errorf("not an ANSI CUP sequence: %q", s)
		}
		parts := strings.Split(s[2:len(s)-1], ";")
		if len(parts) != 2 {
			return 0, 0, fmt.Errorf("CUP needs two parameters: %q", s)
		}
		r, err1 := strconv.Atoi(parts[0])
		c, err2 := strconv.Atoi(parts[1])
		if err1 != nil || err2 != nil || strconv.Itoa(r) != parts[0] || strconv.Itoa(c) != parts[1] {
			return 0, 0, fmt.Errorf("CUP parameters not plain decimals: %q", s)
		}
		return c - 1, r - 1, nil
	case "vt52", "wyse":
		lead := "\x1bY"
		if fam == "wyse" {
			lead = "\x1b="
		}
		if !strings.HasPrefix(s, lead) || len(s) != 4 {
			return 0, 0, fmt.Errorf("not a %s cursor address: %q", fam, s)
		}
		return int(s[3]) - 32, int(s[2]) - 32, nil
	case "hp":
		if !strings.HasPrefix(s, "\x1b&a") || !strings.HasSuffix(s, "C") {
			return 0, 0, fmt.Errorf("not an HP cursor address: %q", s)
		}
		body := s[3 : len(s)-1]
		i := strings.IndexByte(body, 'y')
		if i < 0 {
			return 0, 0, fmt.Errorf("HP address lacks the row part: %q", s)
		}
		r, err1 := strconv.Atoi(body[:i])
		c, err2 := strconv.Atoi(body[i+1:])
		if err1 != nil || err2 != nil {
			return 0, 0, fmt.Errorf("HP address parameters: %q", s)
		}
		return c, r, nil
	}
	return 0, 0, fmt.Errorf("unknown family")
}

type entryRef struct {
	Name string
	TI   *terminfo.Terminfo
}

func entries() []entryRef {
	m := terminfo.VerifTerminfos()
	var names []string
	for n := range m {
		names = append(names, n)
	}
	sort.Strings(names)
	var out []entryRef
	for _, n := range names {
		out = append(out, entryRef{n, m[n]})
	}
	return out
}

type GotoCase struct {
	Entry string `json:"entry"`
	Col   int    `json:"col"`
	Row   int    `json:"row"`
}

func gotoOne(e entryRef, col, row int) error {
	fam := family(e.Name)
	if (fam == "vt52" || fam == "wyse") && (col > 223 || row > 223) {
		return nil // the convention cannot express it
	}
	s := e.TI.TGoto(col, row)
	c, r, err := decodeGoto(fam, s)
	if err != nil {
		return fmt.Errorf("%s: TGoto(%d,%d) = %q: %v", e.Name, col, row, s, err)
	}
	if c != col || r != row {
		return fmt.Errorf("%s: TGoto(col=%d,row=%d) = %q addresses col=%d,row=%d under the %s convention", e.Name, col, row, s, c, r, fam)
	}
	return nil
}

func gotoSweep(t *testing.T) {
	sw := pbt.NewSweep(t, "tgoto")
	var rc GotoCase
	if pbt.ReplayCase("tgoto", &rc) {
		for _, e := range entries() {
			if e.Name == rc.Entry {
				sw.Case(true, 1, func() any { return rc }, gotoOne(e, rc.Col, rc.Row), nil)
			}
		}
		pbt.Note(true, 2)
		return
	}
	if sw.Skip() {
		return
	}
	item := 0
	for _, e := range entries() {
		for row := 0; row <= 300; row++ {
			item++
			if !sw.Mine(item) {
				continue
			}
			for col := 0; col <= 300; col++ {
				err := gotoOne(e, col, row)
				if err != nil || (col*301+row)%3011 == 7 {
					cc, rr := col, row
					sw.Case(col != row && (col > 9 || row > 9), pbt.HashStr("goto", e.Name, strconv.Itoa(col), strconv.Itoa(row)), func() any { return GotoCase{e.Name, cc, rr} }, err, nil)
				} else {
					pbt.NoteN(1)
				}
			}
		}
	}
	pbt.Exhaustive("TGoto: every registered name and alias x (col,row) in 0..300 x 0..300")
}

// ---------------------------------------------------------------- TColor

type ColorCase struct {
	Entry string `json:"entry"`
	Fg    int    `json:"fg"`
	Bg    int    `json:"bg"`
}

func expectColor(colors, v int) (vt.Color, bool) {
	if colors == 8 && v > 7 && v < 16 {
		v -= 8
	}
	if v < 0 || v >= colors {
		return vt.Color{}, true
	}
	if v > 255 {
		return vt.Color{}, false // unspecified
	}
	return vt.Color{Kind: vt.ColPalette, V: int32(v)}, true
}

func colorOne(term *vt.Term, e entryRef, fg, bg int) (error, bool) {
	wf, ok1 := expectColor(e.TI.Colors, fg)
	wb, ok2 := expectColor(e.TI.Colors, bg)
	if !ok1 || !ok2 {
		return nil, false
	}
	s := e.TI.TColor(fg, bg)
	term.Pen = vt.Pen{}
	term.Errors = term.Errors[:0]
	stripped, _, _, _ := refStrip(s)
	term.Write([]byte(stripped))
	if len(term.Errors) > 0 || term.Pending() {
		return fmt.Errorf("%s: TColor(%d,%d) = %q is not a well-formed colour sequence: %v %s", e.Name, fg, bg, s, term.Errors, term.PendingDesc()), true
	}
	if term.Printed > 0 {
		term.Printed = 0
		return fmt.Errorf("%s: TColor(%d,%d) = %q prints text", e.Name, fg, bg, s), true
	}
	want := vt.Pen{Fg: wf, Bg: wb}
	if term.Pen != want {
		return fmt.Errorf("%s (colors=%d): TColor(%d,%d) = %q selects fg=%v bg=%v (pen %+v), want fg=%v bg=%v and nothing else", e.Name, e.TI.Colors, fg, bg, s, term.Pen.Fg, term.Pen.Bg, term.Pen, wf, wb), true
	}
	return nil, true
}

func colorSweep(t *testing.T) {
	sw := pbt.NewSweep(t, "tcolor")
	term := vt.New(4, 2, nil, vt.Profile{})
	var rc ColorCase
	if pbt.ReplayCase("tcolor", &rc) {
		for _, e := range entries() {
			if e.Name == rc.Entry {
				err, _ := colorOne(term, e, rc.Fg, rc.Bg)
				sw.Case(true, 1, func() any { return rc }, err, nil)
			}
		}
		pbt.Note(true, 2)
		return
	}
	if sw.Skip() {
		return
	}
	full := pbt.Thorough()
	item := 0
	for _, e := range entries() {
		for fg := -1; fg <= 300; fg++ {
			item++
			if !sw.Mine(item) {
				continue
			}
			for bg := -1; bg <= 300; bg++ {
				if !full && fg > 20 && bg > 20 && (fg*7+bg*3)%5 != 0 {
					continue
				}
				err, specified := colorOne(term, e, fg, bg)
				if !specified {
					pbt.Excluded("unspecified:index-256-or-more-on-direct-colour-entry")
					continue
				}
				if err != nil || (fg*302+bg)%2999 == 5 {
					f, b := fg, bg
					sw.Case(e.TI.Colors > 0 && fg >= 0 && bg >= 0, pbt.HashStr("color", e.Name, strconv.Itoa(fg), strconv.Itoa(bg)), func() any { return ColorCase{e.Name, f, b} }, err, nil)
				} else {
					pbt.NoteN(1)
				}
			}
		}
	}
	if full {
		pbt.Exhaustive("TColor: every registered name and alias x (fg,bg) in -1..300 x -1..300")
	} else {
		pbt.Exhaustive("TColor: every registered name and alias x (fg,bg): all pairs with fg<=20 or bg<=20, one in five of the rest of -1..300 x -1..300")
	}
}

func TestProp(t *testing.T) {
	defer pbt.Recover(t)
	pbt.Describe("tputs: rapid strings over the padding alphabet ($ < > . * / digits, ESC, letters, arbitrary bytes) with well-formed, unterminated and malformed specifications, PadChar set/unset, compared with a reference stripper; tputs-nosleep: timing of fixed strings with and without a pad character; tgoto: every registered name x (col,row) in 0..300^2 decoded by a per-family decoder (ANSI 1-based decimal; VT52 ESC Y / Wyse ESC = offset-32 bytes for positions <= 223; HP ESC &a<row>y<col>C); tcolor: every registered name x (fg,bg) in -1..300^2 interpreted by the reference terminal's SGR decoder. Non-trivial = TPuts string with >= 2 padding specifications incl. a decimal / addressing with col != row and a multi-digit coordinate / colour pair with both components valid on a colour terminal.",
		"strings containing a terminated but malformed $<...> are unspecified (only no-panic is required; counted as excluded)",
		"time.Sleep never returns early (used as lower bound); without a pad character the best of three runs must be faster than the specified delay of >= 300 ms",
		"TColor indices in [256, colors) on the 2^24-colour entry are unspecified",
		"terminal family chosen by entry name: vt52 -> ESC Y, wy50/wy60 -> ESC =, hpterm -> HP, everything else ANSI")
	pbt.Check(t, "tputs", pbt.Pick(4000, 30000), pbt.Spec[PutsCase]{Gen: genPuts, Prop: putsProp, NonTrivial: putsNonTrivial, Classes: putsClasses})
	noSleepCheck(t)
	gotoSweep(t)
	colorSweep(t)
}
