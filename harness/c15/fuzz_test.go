package c15

import (
	"testing"

	"verifharness/internal/pbt"
)

func FuzzTputs(f *testing.F) {
	pbt.FuzzRapid(f, "tputs", pbt.Spec[PutsCase]{Gen: genPuts, Prop: putsProp})
}
