package c12

import (
	"testing"

	"verifharness/internal/pbt"
)

func FuzzHistories(f *testing.F) {
	pbt.FuzzRapid(f, "histories", pbt.Spec[Case]{Gen: genCase, Prop: prop, Known: known})
}
