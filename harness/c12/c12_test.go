// C12 — mouse reports decode to the right position, buttons and modifiers.
package c12

import (
	"fmt"
	"sort"
	"strconv"
	"testing"
	"time"

	"github.com/gdamore/tcell/v2"
	"github.com/gdamore/tcell/v2/encoding"
	"github.com/gdamore/tcell/v2/terminfo"
	"pgregory.net/rapid"

	"verifharness/internal/faketty"
	"verifharness/internal/inref"
	"verifharness/internal/pbt"
)

func TestMain(m *testing.M) {
	// applications commonly link the optional charsets; that must not change
	// how mouse reports (notably the 8-bit CSI forms) decode in a UTF-8 locale
	encoding.Register()
	pbt.Main(m, "C12")
}

// entries with mouse support that the reports are sent through
var entryNames = []string{"xterm", "xterm-256color", "alacritty", "konsole", "gnome", "linux", "screen", "rxvt-unicode", "st", "tmux", "xterm-kitty", "foot"}

type Case struct {
	Entry   string              `json:"entry"`
	W       int                 `json:"w"`
	H       int                 `json:"h"`
	Reports []inref.MouseReport `json:"reports"`
	Cuts    []int               `json:"cuts,omitempty"`  // byte offsets at which a read ends (third pass)
	EscAt   []int               `json:"esc_before,omitempty"` // a stray ESC byte directly in front of these reports (same read)
	Calls   []string            `json:"calls,omitempty"` // live pass: EnableMouse re-programming before report i ("" none, "all", "drag", "buttons")
}

func entry(name string) (*terminfo.Terminfo, error) {
	ti, err := terminfo.LookupTerminfo(name)
	if err != nil {
		return nil, fmt.Errorf("harness: entry %q not found: %v", name, err)
	}
	cp := *ti
	return &cp, nil
}

// prop sends the reports one at a time through the production parser and
// compares each resulting event with the reference decoder.
func prop(c Case) error { return propOn(nil, c) }

var decoders = map[string]*tcell.VerifInput{}

// cachedDecoder returns a decoder for (entry, size) that is reused by the dense
// sweep; its press/drag state is reset with an SGR release report.
func cachedDecoder(c Case) (*tcell.VerifInput, error) {
	key := fmt.Sprintf("%s/%dx%d", c.Entry, c.W, c.H)
	if in, ok := decoders[key]; ok {
		evs, left := in.Scan([]byte("\x1b[<0;1;1m"), false)
		if len(evs) != 1 || left != 0 {
			return nil, fmt.Errorf("harness: state reset report not decoded on %s (%d events, %d bytes left)", key, len(evs), left)
		}
		return in, nil
	}
	ti, err := entry(c.Entry)
	if err != nil {
		return nil, err
	}
	in, err := tcell.VerifNewInput(ti, "UTF-8", c.W, c.H)
	if err != nil {
		return nil, fmt.Errorf("harness: %v", err)
	}
	decoders[key] = in
	return in, nil
}

func propOn(in *tcell.VerifInput, c Case) error {
	if err := propOn1(in, c); err != nil {
		return err
	}
	if in != nil || len(c.Reports) < 2 {
		return nil
	}
	// the same reports arriving in ONE read must decode to the same events (a
	// report must consume exactly its own bytes, whatever its introducer)
	if err := propReads(c, nil); err != nil {
		return err
	}
	if len(c.Cuts) > 0 {
		// ... and in reads that end inside reports
		return propReads(c, c.Cuts)
	}
	return nil
}

func propReads(c Case, cuts []int) error {
	ti, err := entry(c.Entry)
	if err != nil {
		return err
	}
	in, err := tcell.VerifNewInput(ti, "UTF-8", c.W, c.H)
	if err != nil {
		return fmt.Errorf("harness: %v", err)
	}
	var all []byte
	for _, r := range c.Reports {
		all = append(all, r.Bytes()...)
	}
	var evs []tcell.Event
	prev := 0
	for _, cut := range cuts {
		if cut > prev && cut < len(all) {
			e, _ := in.Scan(all[prev:cut], false)
			evs = append(evs, e...)
			prev = cut
		}
	}
	e, _ := in.Scan(all[prev:], false)
	evs = append(evs, e...)
	more, left := in.Scan(nil, true)
	evs = append(evs, more...)
	got := inref.FromAll(evs)
	var st inref.MouseState
	if len(got) != len(c.Reports) || left != 0 {
		return fmt.Errorf("%d reports sent in reads ending at %v (one read if empty) (%q) decode to %d events %s with %d bytes left", len(c.Reports), cuts, all, len(got), inref.Show(got), left)
	}
	for i, r := range c.Reports {
		want := st.Decode(r, c.W, c.H)
		g := got[i]
		if g.Kind != "mouse" || g.X != want.X || g.Y != want.Y || tcell.ModMask(g.Mod) != want.Mod || (want.ButtonsSet && tcell.ButtonMask(g.Btn) != want.Buttons) {
			return fmt.Errorf("report %d %+v of %d sent in reads ending at %v (one read if empty): decoded %s, want position (%d,%d) mod %d buttons %#x(set=%v)", i, r, len(c.Reports), cuts, g, want.X, want.Y, want.Mod, int(want.Buttons), want.ButtonsSet)
		}
	}
	return nil
}

// liveProp: the history through a real screen (fake tty, the library's
// goroutines), one report per read, each event awaited with PollEvent; between
// reports the application may re-program mouse tracking with EnableMouse (the
// idiom of asking for drag events only while a button is down). The button the
// terminal is following stays held whatever the application asks to be told.
func liveProp(c Case) error {
	ti, err := entry(c.Entry)
	if err != nil {
		return err
	}
	ti.PadChar = ""
	tty := faketty.New(c.W, c.H)
	s, err := tcell.NewTerminfoScreenFromTtyTerminfo(tty, ti)
	if err != nil {
		return fmt.Errorf("harness: %v", err)
	}
	if err := s.Init(); err != nil {
		return fmt.Errorf("harness: Init: %v", err)
	}
	fin := make(chan struct{})
	defer func() {
		go func() { s.Fini(); close(fin) }()
		select {
		case <-fin:
		case <-pbt.After(10 * time.Second):
		}
	}()
	s.EnableMouse()
	next := func() (inref.Ev, bool) {
		deadline := time.Now().Add(pbt.Scaled(5 * time.Second))
		for time.Now().Before(deadline) {
			if !s.HasPendingEvent() {
				time.Sleep(50 * time.Microsecond)
				continue
			}
			ev := s.PollEvent()
			if _, ok := ev.(*tcell.EventMouse); ok {
				return inref.From(ev), true
			}
			if _, ok := ev.(*tcell.EventKey); ok {
				return inref.From(ev), true
			}
		}
		return inref.Ev{}, false
	}
	var st inref.MouseState
	for i, r := range c.Reports {
		call := ""
		if i < len(c.Calls) {
			call = c.Calls[i]
		}
		switch call {
		case "all":
			s.EnableMouse()
		case "drag":
			s.EnableMouse(tcell.MouseButtonEvents | tcell.MouseDragEvents)
		case "buttons":
			s.EnableMouse(tcell.MouseButtonEvents)
		}
		tty.Feed(r.Bytes())
		g, ok := next()
		want := st.Decode(r, c.W, c.H)
		if !ok {
			return fmt.Errorf("live: report %d %+v (bytes %q) produced no event within 5s", i, r, r.Bytes())
		}
		if g.Kind != "mouse" || g.X != want.X || g.Y != want.Y || tcell.ModMask(g.Mod) != want.Mod || (want.ButtonsSet && tcell.ButtonMask(g.Btn) != want.Buttons) {
			return fmt.Errorf("live (real screen %dx%d, EnableMouse calls %q before the reports): report %d %+v after %v: delivered %s, want position (%d,%d) mod %d buttons %#x(set=%v)", c.W, c.H, c.Calls, i, r, c.Reports[:i], g, want.X, want.Y, want.Mod, int(want.Buttons), want.ButtonsSet)
		}
	}
	return nil
}

func genLive(t *rapid.T) Case {
	c := genCase(t)
	c.Cuts = nil
	for i := range c.Reports {
		// 8-bit CSI and over-long forms need the escape timer in the live pipeline; keep to what decodes at once
		c.Reports[i].EightBit = false
		c.Calls = append(c.Calls, rapid.SampledFrom([]string{"", "", "", "all", "drag", "buttons"}).Draw(t, "call"))
	}
	return c
}

func propOn1(in *tcell.VerifInput, c Case) error {
	if in == nil {
		ti, err := entry(c.Entry)
		if err != nil {
			return err
		}
		in, err = tcell.VerifNewInput(ti, "UTF-8", c.W, c.H)
		if err != nil {
			return fmt.Errorf("harness: %v", err)
		}
	}
	var st inref.MouseState
	escAt := map[int]bool{}
	for _, k := range c.EscAt {
		escAt[k] = true
	}
	for i, r := range c.Reports {
		b := r.Bytes()
		if escAt[i] && !r.EightBit {
			// the pending Alt prefix is swallowed by the report: it belongs to no
			// key, and a mouse event carries the modifiers of its own report only
			b = append([]byte{0x1b}, b...)
		}
		evs, left := in.Scan(b, false)
		if left > 0 {
			more, l2 := in.Scan(nil, true)
			evs = append(evs, more...)
			left = l2
		}
		want := st.Decode(r, c.W, c.H)
		tag := ""
		got := inref.FromAll(evs)
		if len(got) != 1 || got[0].Kind != "mouse" || left != 0 {
			return fmt.Errorf("%sreport %d %+v (bytes %q) on %s %dx%d: decoded to %s with %d bytes left, want exactly one mouse event", tag, i, r, b, c.Entry, c.W, c.H, inref.Show(got), left)
		}
		g := got[0]
		if g.X != want.X || g.Y != want.Y {
			return fmt.Errorf("%sreport %d %+v (bytes %q) on %dx%d: position (%d,%d), want (%d,%d)", tag, i, r, b, c.W, c.H, g.X, g.Y, want.X, want.Y)
		}
		if tcell.ModMask(g.Mod) != want.Mod {
			return fmt.Errorf("%sreport %d %+v (bytes %q): modifiers %d, want %d", tag, i, r, b, g.Mod, want.Mod)
		}
		if want.ButtonsSet && tcell.ButtonMask(g.Btn) != want.Buttons {
			return fmt.Errorf("%sreport %d %+v (bytes %q) after %v: buttons %#x, want %#x", tag, i, r, b, c.Reports[:i], g.Btn, int(want.Buttons))
		}
	}
	return nil
}

func known(c Case, err error) string { return "" }

func genReport(t *rapid.T, w, h int, sgr bool, allow8 bool) inref.MouseReport {
	r := inref.MouseReport{SGR: sgr}
	if allow8 && rapid.IntRange(0, 9).Draw(t, "8bit") == 0 {
		r.EightBit = true
	}
	btn := rapid.SampledFrom([]int{0, 0, 0, 1, 2, 3, 64, 65, 66, 67, 128, 129}).Draw(t, "button")
	mods := rapid.SampledFrom([]int{0, 0, 0, 4, 8, 16, 12, 20, 24, 28}).Draw(t, "mods")
	motion := 0
	if rapid.IntRange(0, 2).Draw(t, "motion") == 0 {
		motion = 32
	}
	r.Cb = btn | mods | motion
	coord := func(n int, label string) int {
		switch rapid.IntRange(0, 7).Draw(t, label+"-class") {
		case 0:
			return 1
		case 1:
			return n
		case 2:
			return n + 1
		case 3:
			return rapid.IntRange(0, 300).Draw(t, label)
		case 4:
			if sgr {
				return rapid.SampledFrom([]int{-5, -1, 0, 99999, 12345}).Draw(t, label)
			}
			return rapid.SampledFrom([]int{0, 1, 222, 223}).Draw(t, label)
		}
		return rapid.IntRange(1, n).Draw(t, label)
	}
	r.Cx, r.Cy = coord(w, "cx"), coord(h, "cy")
	if sgr {
		r.Release = rapid.IntRange(0, 3).Draw(t, "release") == 0
	} else {
		// legacy bytes must fit into a byte
		if r.Cb > 223 {
			r.Cb &= 127
		}
		if r.Cx > 223 {
			r.Cx = 223
		}
		if r.Cy > 223 {
			r.Cy = 223
		}
		if r.Cx < 0 {
			r.Cx = 0
		}
		if r.Cy < 0 {
			r.Cy = 0
		}
	}
	return r
}

func genCase(t *rapid.T) Case {
	c := Case{Entry: rapid.SampledFrom(entryNames).Draw(t, "entry")}
	c.W = rapid.OneOf(rapid.IntRange(1, 200), rapid.SampledFrom([]int{1, 2, 80})).Draw(t, "w")
	c.H = rapid.OneOf(rapid.IntRange(1, 60), rapid.SampledFrom([]int{1, 24})).Draw(t, "h")
	sgr := rapid.IntRange(0, 3).Draw(t, "sgr") != 0
	n := rapid.IntRange(1, 12).Draw(t, "n")
	// a press / drag / release skeleton with noise
	for i := 0; i < n; i++ {
		r := genReport(t, c.W, c.H, sgr, true)
		switch rapid.IntRange(0, 5).Draw(t, "shape") {
		case 0: // plain press
			r.Cb &^= 32
			r.Release = false
		case 1: // drag
			r.Cb |= 32
			r.Release = false
		case 2: // release
			if sgr {
				r.Release = true
			} else {
				r.Cb = (r.Cb &^ 0xc3) | 3
			}
		}
		c.Reports = append(c.Reports, r)
	}
	total := 0
	for _, r := range c.Reports {
		total += len(r.Bytes())
	}
	ncuts := rapid.IntRange(0, 4).Draw(t, "ncuts")
	for i := 0; i < ncuts && total > 1; i++ {
		c.Cuts = append(c.Cuts, rapid.IntRange(1, total-1).Draw(t, "cut"))
	}
	sort.Ints(c.Cuts)
	if !escEsc[c.Entry] && rapid.IntRange(0, 3).Draw(t, "esc") == 0 {
		c.EscAt = append(c.EscAt, rapid.IntRange(0, len(c.Reports)-1).Draw(t, "escat"))
	}
	return c
}

// escEsc: entries with a key sequence starting ESC ESC (a stray ESC in front of
// another sequence is ambiguous there)
var escEsc = func() map[string]bool {
	m := map[string]bool{}
	for _, n := range entryNames {
		ti, err := terminfo.LookupTerminfo(n)
		if err != nil {
			continue
		}
		cp := *ti
		tbl, err := tcell.VerifKeyTable(&cp)
		if err != nil {
			continue
		}
		for k := range tbl {
			if len(k) > 1 && k[:2] == "\x1b\x1b" {
				m[n] = true
			}
		}
	}
	return m
}()

func nonTrivial(c Case) bool {
	// press -> drag -> release somewhere in the history
	stage := 0
	for _, r := range c.Reports {
		code := r.Cb &^ (4 | 8 | 16 | 32)
		motion := r.Cb&32 != 0
		rel := (r.SGR && r.Release) || (!r.SGR && code == 3 && !motion)
		switch {
		case stage == 0 && !motion && !rel && code <= 2:
			stage = 1
		case stage == 1 && motion:
			stage = 2
		case stage == 2 && rel:
			return true
		}
	}
	return false
}

func classes(c Case) []string {
	var out []string
	seen := map[string]bool{}
	add := func(s string) {
		if !seen[s] {
			seen[s] = true
			out = append(out, s)
		}
	}
	for _, r := range c.Reports {
		if r.SGR {
			add("sgr")
		} else {
			add("x11")
		}
		if r.EightBit {
			add("8bit-csi")
		}
		if r.Cb&32 != 0 {
			add("motion")
		}
		if r.Cx > c.W || r.Cy > c.H {
			add("beyond-screen")
		}
		if r.Cx <= 0 || r.Cy <= 0 {
			add("zero-or-negative-coord")
		}
		if r.Cb&^(4|8|16|32) >= 64 {
			add("wheel")
		}
	}
	if nonTrivial(c) {
		add("press-drag-release")
	}
	return out
}

// exhaustive single-report sweep
func sweep(t *testing.T) {
	sw := pbt.NewSweep(t, "single-report")
	var rc Case
	if pbt.ReplayCase("single-report", &rc) {
		err := prop(rc)
		var kf func(error) string
		if err != nil {
			kf = func(e error) string { return known(rc, e) }
		}
		sw.Case(true, 1, func() any { return rc }, err, kf)
		pbt.Note(true, 2)
		return
	}
	if sw.Skip() {
		return
	}
	type size struct{ w, h int }
	sizes := []size{{1, 1}, {80, 24}, {200, 60}}
	coords := func(n int, sgr bool) []int {
		if sgr {
			return []int{-3, 0, 1, 2, n - 1, n, n + 1, n + 50, 99999}
		}
		cs := []int{0, 1, 2, n - 1, n, n + 1, 223}
		var out []int
		for _, c := range cs {
			if c >= 0 && c <= 223 {
				out = append(out, c)
			}
		}
		return out
	}
	item := 0
	entries := entryNames
	if !pbt.Thorough() {
		entries = []string{"xterm", "linux", "rxvt-unicode"}
	}
	for _, en := range entries {
		for _, sz := range sizes {
			for _, sgr := range []bool{true, false} {
				maxCb := 255
				if !sgr {
					maxCb = 223
				}
				for cb := 0; cb <= maxCb; cb++ {
					item++
					if !sw.Mine(item) {
						continue
					}
					if sw.Stop() {
						return
					}
					for _, eight := range []bool{false, true} {
						for _, rel := range []bool{false, true} {
							if rel && !sgr {
								continue
							}
							for _, cx := range coords(sz.w, sgr) {
								for yi, cy := range coords(sz.h, sgr) {
									if yi%2 == 1 && cx != sz.w {
										continue // thin out the y classes except on the x edge
									}
									// each report on a fresh decoder, and once after a press (held state)
									for _, pre := range []bool{false, true} {
										c := Case{Entry: en, W: sz.w, H: sz.h}
										if pre {
											c.Reports = append(c.Reports, inref.MouseReport{SGR: sgr, Cb: 0, Cx: 1, Cy: 1})
										}
										c.Reports = append(c.Reports, inref.MouseReport{SGR: sgr, EightBit: eight, Cb: cb, Cx: cx, Cy: cy, Release: rel})
										err := pbt.Safe(func() error {
											in, e := cachedDecoder(c)
											if e != nil {
												return e
											}
											return propOn(in, c)
										})
										if err != nil {
											// confirm on a fresh decoder (the replay file is self-contained)
											delete(decoders, fmt.Sprintf("%s/%dx%d", c.Entry, c.W, c.H))
											err = pbt.Safe(func() error { return prop(c) })
										}
										if err != nil || (cb*31+cx*7+cy)%503 == 0 {
											cc := c
											var kf func(error) string
											if err != nil {
												kf = func(e error) string { return known(cc, e) }
											}
											sw.Case(cb&32 != 0 && pre, pbt.HashStr("m", en, strconv.Itoa(sz.w), fmt.Sprint(sgr, eight, rel, pre), strconv.Itoa(cb), strconv.Itoa(cx), strconv.Itoa(cy)), func() any { return cc }, err, kf)
										} else {
											pbt.NoteN(1)
										}
									}
								}
							}
						}
					}
				}
			}
		}
	}
	pbt.Exhaustive("single reports: button codes 0..255 (X11: 0..223) x finals M/m x {ESC [, 0x9B} x coordinate classes (negative, 0, 1, 2, edge-1, edge, edge+1, far beyond, 5-digit) x screen sizes {1x1, 80x24, 200x60}, each on a fresh decoder and after a press")
}

func TestProp(t *testing.T) {
	defer pbt.Recover(t)
	pbt.Describe("single-report: exhaustive sweep (see exhaustive_subspaces) through the production parser (synchronous verif hook) on entries with mouse support; histories: rapid sequences of 1-12 press/motion/wheel/release reports (SGR or legacy X11 form, modifiers, coordinates inside/edge/beyond/negative/multi-digit, screen 1x1..200x60) on one decoder instance, each event compared with a reference xterm mouse decoder with press/drag/release state. Non-trivial = history containing press -> drag -> release (sweep: motion report after a press); distinct = hash of the case.",
		"button codes xterm assigns to wheel left/right (66,67) and buttons 8-11 (bit 7), and wheel codes carrying the motion bit, are outside the statement's list: only position and modifiers are asserted for them",
		"legacy X11 reports carry code+32, x+32, y+32 as single bytes, so only values <= 223 exist in that form",
		"histories are decoded three times: one report per read, all reports in a single read, and in reads ending at random byte offsets inside reports (no timeout in between)",
		"live-histories: the same histories through a real screen on a fake tty, one report per read awaited with PollEvent, with EnableMouse(all / buttons+drag / buttons) calls between reports: the held button survives re-programming of the tracking modes")
	sweep(t)
	pbt.Check(t, "histories", pbt.Pick(30000, 400000), pbt.Spec[Case]{Gen: genCase, Prop: prop, NonTrivial: nonTrivial, Classes: classes, Known: known})
	pbt.Check(t, "live-histories", pbt.Pick(150, 3000), pbt.Spec[Case]{Gen: genLive, Prop: liveProp, NonTrivial: func(c Case) bool {
		if !nonTrivial(c) {
			return false
		}
		for _, x := range c.Calls {
			if x != "" {
				return true
			}
		}
		return false
	}})
}
