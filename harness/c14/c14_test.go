// C14 — built-in terminal database is complete, well-formed and lookups are stable.
package c14

import (
	"errors"
	"fmt"
	"os"
	"reflect"
	"sort"
	"strconv"
	"strings"
	"testing"

	"github.com/gdamore/tcell/v2"
	"github.com/gdamore/tcell/v2/terminfo"
	"pgregory.net/rapid"

	"verifharness/internal/faketty"
	"verifharness/internal/pbt"
	"verifharness/internal/tiref"
	"verifharness/internal/vt"
)

func TestMain(m *testing.M) { pbt.Main(m, "C14") }

// ---------------------------------------------------------------- snapshot

var (
	registry map[string]*terminfo.Terminfo // name/alias -> registered pointer
	snapshot map[*terminfo.Terminfo]terminfo.Terminfo
	names    []string
)

func clone(t terminfo.Terminfo) terminfo.Terminfo {
	t.Aliases = append([]string(nil), t.Aliases...)
	return t
}

func takeSnapshot() {
	registry = terminfo.VerifTerminfos()
	snapshot = map[*terminfo.Terminfo]terminfo.Terminfo{}
	names = names[:0]
	for n, p := range registry {
		names = append(names, n)
		if _, ok := snapshot[p]; !ok {
			snapshot[p] = clone(*p)
		}
	}
	sort.Strings(names)
}

func restore() {
	for p, s := range snapshot {
		*p = clone(s)
	}
}

// ---------------------------------------------------------------- static well-formedness

// paramCount: how many parameters tcell supplies when it expands the field.
var paramCount = map[string]int{
	"SetCursor": 2, "SetFg": 1, "SetBg": 1, "SetFgBg": 2, "SetFgRGB": 3, "SetBgRGB": 3, "SetFgBgRGB": 6,
	"UnderlineColor": 1, "UnderlineColorRGB": 3, "CursorColorRGB": 3, "CursorColor": 1,
	"EnterUrl": 2, "SetWindowSize": 2, "SetWindowTitle": 1,
}

type EntryCase struct {
	Name  string `json:"name"`
	Field string `json:"field,omitempty"`
}

func checkEntryStatic(name string) []error {
	var errs []error
	e, err := terminfo.LookupTerminfo(name)
	if err != nil || e == nil {
		return []error{fmt.Errorf("registered name %q does not resolve: %v", name, err)}
	}
	if e.SetCursor == "" {
		errs = append(errs, fmt.Errorf("%s: no cursor addressing (cup empty)", name))
	}
	v := reflect.ValueOf(e).Elem()
	keys := map[string][]string{}
	for i := 0; i < v.NumField(); i++ {
		f := v.Field(i)
		fname := v.Type().Field(i).Name
		if f.Kind() != reflect.String {
			continue
		}
		s := f.String()
		if s == "" {
			continue
		}
		if strings.HasPrefix(fname, "Key") {
			keys[s] = append(keys[s], fname)
			continue
		}
		switch fname {
		case "Name", "AltChars", "Mouse", "PadChar", "PasteStart", "PasteEnd":
			continue
		}
		stripped := s
		prog, perr := tiref.Parse(stripped)
		if perr != nil {
			errs = append(errs, fmt.Errorf("%s.%s = %q is not a well-formed terminfo(5) string: %v", name, fname, s, perr))
			continue
		}
		if _, serr := tiref.StackCheck(prog); serr != nil {
			errs = append(errs, fmt.Errorf("%s.%s = %q: %v", name, fname, s, serr))
		}
		u := tiref.Analyze(prog)
		if u.MaxParam > paramCount[fname] {
			errs = append(errs, fmt.Errorf("%s.%s = %q uses parameter %d, the library supplies %d", name, fname, s, u.MaxParam, paramCount[fname]))
		}
	}
	// key sequences: none is a proper prefix of another
	var ks []string
	for k := range keys {
		ks = append(ks, k)
	}
	sort.Strings(ks)
	for _, a := range ks {
		for _, b := range ks {
			if a != b && strings.HasPrefix(b, a) {
				errs = append(errs, fmt.Errorf("%s: key sequence %q (%s) is a proper prefix of %q (%s)", name, a, strings.Join(keys[a], ","), b, strings.Join(keys[b], ",")))
			}
		}
	}
	// colours
	hasFg, hasBg := e.SetFg != "", e.SetBg != ""
	if (e.Colors > 0) != (hasFg && hasBg) || hasFg != hasBg {
		errs = append(errs, fmt.Errorf("%s: colors=%d but setaf present=%v setab present=%v", name, e.Colors, hasFg, hasBg))
	}
	if e.Colors > 256 && e.SetFgRGB == "" && e.SetBgRGB == "" && e.SetFgBgRGB == "" {
		errs = append(errs, fmt.Errorf("%s: %d colours but no direct-colour strings after lookup", name, e.Colors))
	}
	if hasFg && hasBg {
		term := vt.New(2, 1, nil, vt.Profile{})
		lim := e.Colors
		if lim > 256 {
			lim = 256
		}
		for i := 0; i < lim; i++ {
			for _, which := range []string{"fg", "bg", "fgbg"} {
				term.Pen = vt.Pen{}
				term.Errors = nil
				var s string
				want := vt.Pen{}
				col := vt.Color{Kind: vt.ColPalette, V: int32(i)}
				switch which {
				case "fg":
					s = e.TParm(e.SetFg, i)
					want.Fg = col
				case "bg":
					s = e.TParm(e.SetBg, i)
					want.Bg = col
				case "fgbg":
					if e.SetFgBg == "" {
						continue
					}
					j := (i*7 + 3) % lim
					s = e.TParm(e.SetFgBg, i, j)
					want.Fg = col
					want.Bg = vt.Color{Kind: vt.ColPalette, V: int32(j)}
				}
				term.Write([]byte(s))
				if len(term.Errors) > 0 || term.Pending() || term.Pen != want {
					errs = append(errs, fmt.Errorf("%s: %s string for colour %d = %q selects fg=%v bg=%v (errors %v), want fg=%v bg=%v", name, which, i, s, term.Pen.Fg, term.Pen.Bg, term.Errors, want.Fg, want.Bg))
					break
				}
			}
		}
	}
	return errs
}

func staticSweep(t *testing.T) {
	sw := pbt.NewSweep(t, "entries")
	var rc EntryCase
	replaying := pbt.ReplayCase("entries", &rc)
	if !replaying && sw.Skip() {
		return
	}
	for i, n := range names {
		if replaying && n != rc.Name {
			continue
		}
		if !replaying && !sw.Mine(i) {
			continue
		}
		restore()
		setenv(Env{})
		errs := checkEntryStatic(n)
		name := n
		var err error
		if len(errs) > 0 {
			var msgs []string
			for _, e := range errs {
				msgs = append(msgs, e.Error())
			}
			err = pbt.JoinErr(msgs)
		}
		sw.Case(true, pbt.HashStr("entry", n), func() any { return EntryCase{Name: name} }, err, knownStatic)
	}
	if replaying {
		pbt.Note(true, 2)
		return
	}
	pbt.Exhaustive("every registered name and alias: resolves, has cup, every string field parses as terminfo(5) with only supplied parameters, colours consistent and setaf/setab/setfgbg(i) select palette entry i for all i < min(colors,256), key fields prefix-free")
}

func knownStatic(err error) string { return "" }

// ---------------------------------------------------------------- lookup model

type Env struct {
	ColorTerm string `json:"colorterm,omitempty"`
	TrueColor string `json:"tcell_truecolor,omitempty"`
}

func setenv(e Env) {
	os.Setenv("COLORTERM", e.ColorTerm)
	os.Setenv("TCELL_TRUECOLOR", e.TrueColor)
	if e.ColorTerm == "" {
		os.Unsetenv("COLORTERM")
	}
	if e.TrueColor == "" {
		os.Unsetenv("TCELL_TRUECOLOR")
	}
}

const (
	stdFgRGB   = "\x1b[38;2;%p1%d;%p2%d;%p3%dm"
	stdBgRGB   = "\x1b[48;2;%p1%d;%p2%d;%p3%dm"
	stdFgBgRGB = "\x1b[38;2;%p1%d;%p2%d;%p3%d;48;2;%p4%d;%p5%d;%p6%dm"
	std256Fg   = "\x1b[%?%p1%{8}%<%t3%p1%d%e%p1%{16}%<%t9%p1%{8}%-%d%e38;5;%p1%d%;m"
	std256Bg   = "\x1b[%?%p1%{8}%<%t4%p1%d%e%p1%{16}%<%t10%p1%{8}%-%d%e48;5;%p1%d%;m"
	std256FgBg = "\x1b[%?%p1%{8}%<%t3%p1%d%e%p1%{16}%<%t9%p1%{8}%-%d%e38;5;%p1%d%;;%?%p2%{8}%<%t4%p2%d%e%p2%{16}%<%t10%p2%{8}%-%d%e48;5;%p2%d%;m"
)

// modelLookup is the documented synthesis applied to the immutable snapshot.
func modelLookup(name string, env Env) (*terminfo.Terminfo, bool) {
	if name == "" {
		return nil, false
	}
	var base *terminfo.Terminfo
	if p, ok := registry[name]; ok {
		c := clone(snapshot[p])
		base = &c
	}
	addTC := false
	switch env.ColorTerm {
	case "truecolor", "24bit", "24-bit":
		addTC = true
	}
	add256 := false
	if base != nil && base.TrueColor {
		addTC = true
	} else if base == nil && strings.HasSuffix(name, "-truecolor") {
		stem := strings.TrimSuffix(name, "-truecolor")
		for _, s := range []string{"-256color", "-88color", "-color", ""} {
			if b, ok := modelLookup(stem+s, env); ok {
				base, addTC = b, true
				break
			}
		}
	}
	if base == nil && strings.HasSuffix(name, "-256color") {
		stem := strings.TrimSuffix(name, "-256color")
		for _, s := range []string{"-88color", "-color"} {
			if b, ok := modelLookup(stem+s, env); ok {
				base, add256 = b, true
				break
			}
		}
	}
	if base == nil {
		return nil, false
	}
	switch env.TrueColor {
	case "":
	case "disable":
		addTC = false
	default:
		addTC = true
	}
	if addTC && base.SetFgBgRGB == "" && base.SetFgRGB == "" && base.SetBgRGB == "" {
		base.SetFgRGB, base.SetBgRGB, base.SetFgBgRGB = stdFgRGB, stdBgRGB, stdFgBgRGB
	}
	if add256 {
		base.Colors = 256
		base.SetFg, base.SetBg, base.SetFgBg = std256Fg, std256Bg, std256FgBg
		base.ResetFgBg = "\x1b[39;49m"
	}
	return base, true
}

type Lookup struct {
	Name string `json:"name"`
	Env  Env    `json:"env"`
	Root bool   `json:"root,omitempty"` // through tcell.LookupTerminfo (root package) instead of terminfo.LookupTerminfo
}

type HistCase struct {
	Lookups []Lookup `json:"lookups"`
}

func genEnv(t *rapid.T) Env {
	return Env{
		ColorTerm: rapid.SampledFrom([]string{"", "", "", "truecolor", "24bit", "24-bit", "other"}).Draw(t, "colorterm"),
		TrueColor: rapid.SampledFrom([]string{"", "", "", "disable", "enable", "1"}).Draw(t, "tcell_truecolor"),
	}
}

func genName(t *rapid.T) string {
	k := rapid.IntRange(0, 9).Draw(t, "namekind")
	base := rapid.SampledFrom(names).Draw(t, "base")
	stem := base
	for _, suf := range []string{"-256color", "-88color", "-color", "-truecolor", "-direct"} {
		stem = strings.TrimSuffix(stem, suf)
	}
	switch {
	case k <= 2:
		return base
	case k <= 6:
		return stem + rapid.SampledFrom([]string{"-256color", "-truecolor", "-color", "-88color", "", "-256color-truecolor", "-truecolor-256color", "-color-truecolor", "-88color-truecolor"}).Draw(t, "suffix")
	case k == 7:
		return base + rapid.SampledFrom([]string{"-256color", "-truecolor"}).Draw(t, "suffix2")
	case k == 8:
		return rapid.SampledFrom([]string{"", "dumb", "unknown", "xterm-", "-truecolor", "-256color", "XTERM", "xterm-256colour", "vt100-256color", "nosuch-truecolor"}).Draw(t, "garbage")
	}
	return string(rapid.SliceOfN(rapid.SampledFrom([]rune("xtermvc-2560lo")), 0, 12).Draw(t, "rand"))
}

func genHist(t *rapid.T) HistCase {
	n := rapid.IntRange(1, 6).Draw(t, "n")
	var c HistCase
	var env Env
	for i := 0; i < n; i++ {
		if i == 0 || rapid.IntRange(0, 2).Draw(t, "newenv") == 0 {
			env = genEnv(t)
		}
		name := genName(t)
		if i > 0 && rapid.IntRange(0, 3).Draw(t, "related") == 0 {
			// look up something related to an earlier name (its base, or a variant)
			prev := c.Lookups[rapid.IntRange(0, i-1).Draw(t, "prev")].Name
			stem := prev
			for _, suf := range []string{"-truecolor", "-256color", "-88color", "-color"} {
				stem = strings.TrimSuffix(stem, suf)
			}
			name = stem + rapid.SampledFrom([]string{"", "-color", "-88color", "-256color", "-truecolor"}).Draw(t, "relsuffix")
		}
		lk := Lookup{Name: name, Env: env}
		if _, ok := modelLookup(name, env); ok && rapid.IntRange(0, 3).Draw(t, "root") == 0 {
			// names the built-in database resolves: the root-package entry point must
			// behave the same (for unknown names it would consult the host's infocmp)
			lk.Root = true
		}
		c.Lookups = append(c.Lookups, lk)
	}
	return c
}

func diffEntries(a, b *terminfo.Terminfo) string {
	va, vb := reflect.ValueOf(a).Elem(), reflect.ValueOf(b).Elem()
	var out []string
	for i := 0; i < va.NumField(); i++ {
		if !reflect.DeepEqual(va.Field(i).Interface(), vb.Field(i).Interface()) {
			out = append(out, fmt.Sprintf("%s: got %q want %q", va.Type().Field(i).Name, fmt.Sprint(va.Field(i).Interface()), fmt.Sprint(vb.Field(i).Interface())))
		}
	}
	return strings.Join(out, "; ")
}

func histProp(c HistCase) error {
	restore()
	defer restore()
	for i, l := range c.Lookups {
		setenv(l.Env)
		var got *terminfo.Terminfo
		var err error
		want, ok := modelLookup(l.Name, l.Env)
		if l.Root && ok {
			got, err = tcell.LookupTerminfo(l.Name)
		} else {
			got, err = terminfo.LookupTerminfo(l.Name)
		}
		if !ok {
			if err == nil || !errors.Is(err, terminfo.ErrTermNotFound) || got != nil {
				return fmt.Errorf("lookup %d %q: unknown name must fail with ErrTermNotFound, got entry=%v err=%v", i, l.Name, got != nil, err)
			}
			continue
		}
		if err != nil || got == nil {
			return fmt.Errorf("lookup %d %q (env %+v): failed with %v, expected an entry", i, l.Name, l.Env, err)
		}
		if d := diffEntries(got, want); d != "" {
			return fmt.Errorf("lookup %d of %q (env %+v) after %v differs from the same lookup on a fresh database: %s", i, l.Name, l.Env, c.Lookups[:i], d)
		}
	}
	setenv(Env{})
	return nil
}

func histNonTrivial(c HistCase) bool {
	// a variant lookup before a lookup of (something resolving to) its base
	for i, l := range c.Lookups {
		if strings.HasSuffix(l.Name, "-truecolor") || strings.HasSuffix(l.Name, "-256color") || l.Env.ColorTerm != "" || l.Env.TrueColor != "" {
			if _, ok := modelLookup(l.Name, l.Env); ok && i+1 < len(c.Lookups) {
				return true
			}
		}
	}
	return false
}

func histClasses(c HistCase) []string {
	var out []string
	seen := map[string]bool{}
	add := func(s string) {
		if !seen[s] {
			seen[s] = true
			out = append(out, s)
		}
	}
	for _, l := range c.Lookups {
		_, ok := modelLookup(l.Name, l.Env)
		_, direct := registry[l.Name]
		switch {
		case !ok:
			add("unknown-name")
		case direct:
			add("registered-name")
		default:
			add("synthesized-variant")
		}
		if l.Env.ColorTerm != "" {
			add("COLORTERM-set")
		}
		if l.Env.TrueColor == "disable" {
			add("TCELL_TRUECOLOR=disable")
		} else if l.Env.TrueColor != "" {
			add("TCELL_TRUECOLOR=other")
		}
	}
	return out
}

// ---------------------------------------------------------------- screen level Colors()

type ScreenCase struct {
	Name string `json:"name"`
	Env  Env    `json:"env"`
}

func screenProp(c ScreenCase) error {
	restore()
	defer restore()
	setenv(c.Env)
	defer setenv(Env{})
	want, ok := modelLookup(c.Name, c.Env)
	if !ok {
		return nil
	}
	ti, err := terminfo.LookupTerminfo(c.Name)
	if err != nil {
		return fmt.Errorf("lookup %q failed: %v", c.Name, err)
	}
	cp := clone(*ti)
	cp.PadChar = ""
	os.Setenv("LC_ALL", "en_US.UTF-8")
	s, err := tcell.NewTerminfoScreenFromTtyTerminfo(faketty.New(10, 4), &cp)
	if err != nil {
		return fmt.Errorf("screen for %q: %v", c.Name, err)
	}
	if err := s.Init(); err != nil {
		return fmt.Errorf("Init for %q: %v", c.Name, err)
	}
	defer s.Fini()
	direct := (want.SetFgRGB != "" || want.SetBgRGB != "" || want.SetFgBgRGB != "") && c.Env.TrueColor != "disable"
	got := s.Colors()
	if direct && got != 1<<24 {
		return fmt.Errorf("%q (env %+v): direct colour is on but Colors() = %d", c.Name, c.Env, got)
	}
	if !direct && got != want.Colors {
		return fmt.Errorf("%q (env %+v): direct colour is off, Colors() = %d, description says %d", c.Name, c.Env, got, want.Colors)
	}
	return nil
}

func genScreen(t *rapid.T) ScreenCase {
	return ScreenCase{Name: genName(t), Env: genEnv(t)}
}

// pair sweep: all ordered pairs (variant of A, then B) for B among names related to A
func pairSweep(t *testing.T) {
	sw := pbt.NewSweep(t, "lookup-pairs")
	var rc HistCase
	if pbt.ReplayCase("lookup-pairs", &rc) {
		sw.Case(true, 1, func() any { return rc }, histProp(rc), nil)
		pbt.Note(true, 2)
		return
	}
	if sw.Skip() {
		return
	}
	stems := map[string]bool{}
	for _, n := range names {
		s := n
		for _, suf := range []string{"-truecolor", "-256color", "-88color", "-color", "-direct"} {
			s = strings.TrimSuffix(s, suf)
		}
		stems[s] = true
	}
	var ss []string
	for s := range stems {
		ss = append(ss, s)
	}
	sort.Strings(ss)
	sufs := []string{"", "-color", "-88color", "-256color", "-truecolor", "-256color-truecolor"}
	envs := []Env{{}, {ColorTerm: "truecolor"}, {TrueColor: "disable"}}
	item := 0
	for _, s := range ss {
		for _, a := range sufs {
			for _, b := range sufs {
				for ei, e1 := range envs {
					item++
					if !sw.Mine(item) {
						continue
					}
					c := HistCase{Lookups: []Lookup{{Name: s + a, Env: e1}, {Name: s + b, Env: Env{}}}}
					err := histProp(c)
					cc := c
					sw.Case(a != b, pbt.HashStr("pair", s, a, b, strconv.Itoa(ei)), func() any { return cc }, err, nil)
				}
			}
		}
	}
	pbt.Exhaustive("lookup pairs: for every base stem of the database, every ordered pair of {'' -color -88color -256color -truecolor -256color-truecolor} variants, first lookup under env {none, COLORTERM=truecolor, TCELL_TRUECOLOR=disable}, second under a clean env")
}

func TestProp(t *testing.T) {
	defer pbt.Recover(t)
	takeSnapshot()
	pbt.Describe("entries: exhaustive over every registered name and alias (listing hook) and every capability field; lookup-pairs: exhaustive ordered pairs of variant lookups per base; histories: rapid lookup histories (1-6 lookups over registered names, their -color/-88color/-256color/-truecolor variants, unknown names and garbage, each under an environment COLORTERM x TCELL_TRUECOLOR), every result deep-compared with a pure model of the documented synthesis applied to an immutable snapshot of the database (history independence), registry restored between cases; screens: Colors() of an initialised screen is 2^24 exactly when direct colour is on; screens-shared: a screen built on the very entry the database handed out (as NewTerminfoScreen does), run under LINES/COLUMNS values with mode calls, drawing and a Suspend/Resume cycle, leaves every later lookup equal to the snapshot model. Non-trivial = history with a synthesized/environment-dependent lookup followed by another lookup; distinct = hash of the case.",
		"harness/internal/tiref parser is the well-formedness definition; harness/internal/vt SGR decoder defines which palette entry a colour string selects",
		"which bases a -256color / -truecolor name may be synthesized from (-88color/-color, resp. -256color/-88color/-color/bare) is taken from the library's documented behaviour",
		"the package-level terminfo.LookupTerminfo is exercised (the root-package fallback to infocmp depends on the host's terminfo database and is not part of the built-in database)")
	staticSweep(t)
	pairSweep(t)
	pbt.Check(t, "histories", pbt.Pick(30000, 300000), pbt.Spec[HistCase]{Gen: genHist, Prop: histProp, NonTrivial: histNonTrivial, Classes: histClasses})
	pbt.Check(t, "screens", pbt.Pick(400, 3000), pbt.Spec[ScreenCase]{Gen: genScreen, Prop: screenProp,
		NonTrivial: func(c ScreenCase) bool { _, ok := modelLookup(c.Name, c.Env); return ok }})
	pbt.Check(t, "screens-shared", pbt.Pick(1500, 12000), pbt.Spec[SharedCase]{Gen: genShared, Prop: sharedProp,
		NonTrivial: func(c SharedCase) bool {
			_, ok := modelLookup(c.Name, c.Env)
			return ok && (c.Lines != "" || c.Columns != "" || len(c.Calls) > 0)
		}})
	restore()
	setenv(Env{})
}
