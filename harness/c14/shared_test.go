package c14

// A screen is normally built on the very *Terminfo the database hands out (that is what
// NewTerminfoScreen does with $TERM). Running a screen - under any LINES / COLUMNS, with
// modes switched and a Suspend/Resume cycle - must leave the database as it was: later
// lookups of the name, and of every other name, still equal the snapshot model.

import (
	"fmt"
	"os"
	"strings"

	"github.com/gdamore/tcell/v2"
	"github.com/gdamore/tcell/v2/terminfo"
	"pgregory.net/rapid"

	"verifharness/internal/faketty"
)

type SharedCase struct {
	Name    string   `json:"name"`
	Env     Env      `json:"env"`
	Lines   string   `json:"lines,omitempty"`
	Columns string   `json:"columns,omitempty"`
	Root    bool     `json:"root,omitempty"` // looked up through tcell.LookupTerminfo
	Calls   []string `json:"calls,omitempty"`
	After   []string `json:"after"` // names looked up afterwards
}

func genShared(t *rapid.T) SharedCase {
	c := SharedCase{Name: genName(t), Env: genEnv(t), Root: rapid.Bool().Draw(t, "root")}
	c.Lines = rapid.SampledFrom([]string{"", "", "43", "7", "abc", "0"}).Draw(t, "lines")
	// (a negative value makes Init panic in CellBuffer.Resize on the pinned tree: outside this property, noted in DESIGN.md)
	c.Columns = rapid.SampledFrom([]string{"", "", "132", "11", "0", "x"}).Draw(t, "columns")
	c.Calls = rapid.SliceOfN(rapid.SampledFrom([]string{"mouse", "paste", "focus", "show", "sync", "suspres", "title", "cursor", "size", "draw", "clipboard"}), 0, 6).Draw(t, "calls")
	n := rapid.IntRange(1, 3).Draw(t, "nafter")
	for i := 0; i < n; i++ {
		if rapid.IntRange(0, 2).Draw(t, "same") > 0 {
			c.After = append(c.After, c.Name)
		} else {
			c.After = append(c.After, genName(t))
		}
	}
	return c
}

func sharedProp(c SharedCase) error {
	restore()
	defer restore()
	setenv(c.Env)
	defer setenv(Env{})
	if _, ok := modelLookup(c.Name, c.Env); !ok {
		return nil
	}
	var ti *terminfo.Terminfo
	var err error
	if c.Root {
		ti, err = tcell.LookupTerminfo(c.Name)
	} else {
		ti, err = terminfo.LookupTerminfo(c.Name)
	}
	if err != nil {
		return fmt.Errorf("lookup %q failed: %v", c.Name, err)
	}
	set := func(k, v string) {
		if v == "" {
			os.Unsetenv(k)
		} else {
			os.Setenv(k, v)
		}
	}
	set("LINES", c.Lines)
	set("COLUMNS", c.Columns)
	defer os.Unsetenv("LINES")
	defer os.Unsetenv("COLUMNS")
	os.Setenv("LC_ALL", "en_US.UTF-8")
	tty := faketty.New(10, 4)
	s, err := tcell.NewTerminfoScreenFromTtyTerminfo(tty, ti)
	if err != nil {
		return fmt.Errorf("screen for %q: %v", c.Name, err)
	}
	if err := s.Init(); err != nil {
		return fmt.Errorf("Init for %q: %v", c.Name, err)
	}
	for _, k := range c.Calls {
		switch k {
		case "mouse":
			s.EnableMouse()
		case "paste":
			s.EnablePaste()
		case "focus":
			s.EnableFocus()
		case "show":
			s.Show()
		case "sync":
			s.Sync()
		case "suspres":
			if err := s.Suspend(); err == nil {
				_ = s.Resume()
			}
		case "title":
			s.SetTitle("t")
		case "cursor":
			s.SetCursorStyle(tcell.CursorStyleSteadyBar, tcell.ColorRed)
			s.ShowCursor(0, 0)
		case "size":
			s.SetSize(12, 5)
		case "draw":
			s.SetContent(0, 0, tcell.RuneHLine, nil, tcell.StyleDefault.Foreground(tcell.NewRGBColor(1, 2, 3)).Bold(true))
		case "clipboard":
			s.SetClipboard([]byte("x"))
		}
	}
	s.Fini()
	os.Unsetenv("LINES")
	os.Unsetenv("COLUMNS")
	for i, name := range c.After {
		want, ok := modelLookup(name, c.Env)
		got, err := terminfo.LookupTerminfo(name)
		if !ok {
			if err == nil {
				return fmt.Errorf("after a screen on %q: lookup %d of unknown name %q succeeds", c.Name, i, name)
			}
			continue
		}
		if err != nil || got == nil {
			return fmt.Errorf("after a screen on %q: lookup %d of %q fails with %v", c.Name, i, name, err)
		}
		if strings.HasPrefix(got.Name, "xterm") && got.XTermLike && !want.XTermLike {
			// the pinned screen marks every entry whose name starts with "xterm" as XTermLike in place
			// (prepareKeys): determined by the name alone, the same after any history - tolerated
			w := clone(*want)
			w.XTermLike = true
			want = &w
		}
		if d := diffEntries(got, want); d != "" {
			return fmt.Errorf("after a screen ran on the database's entry for %q (env %+v, LINES=%q COLUMNS=%q, calls %v), lookup of %q differs from the same lookup on a fresh database: %s", c.Name, c.Env, c.Lines, c.Columns, c.Calls, name, d)
		}
	}
	return nil
}
