#!/usr/bin/env bash
# Runs a GOOS=js GOARCH=wasm (test) binary under Node with Go's own
# wasm_exec_node.js:   wasm_exec.sh <binary.wasm> [arguments...]
#
# Arguments, working directory and exit status are passed through.  The
# environment is reduced to what the program needs (every VERIF_* variable, PATH,
# HOME, TMPDIR) because wasm_exec.js places argv+environment in a fixed 8 KiB
# area and aborts when they do not fit.  Node's fs backs Go's js/wasm syscall
# layer, so the program reads and writes files under /verif normally.

if [ $# -lt 1 ]; then
	echo "usage: wasm_exec.sh <binary.wasm> [arguments...]" >&2
	exit 2
fi

NODE=""
for cand in "$VERIF_NODE" /root/.nvm/versions/node/v20.20.2/bin/node "$(command -v node 2>/dev/null)" "$(command -v nodejs 2>/dev/null)" /usr/bin/node /usr/bin/nodejs; do
	if [ -n "$cand" ] && [ -x "$cand" ]; then
		NODE="$cand"
		break
	fi
done
if [ -z "$NODE" ]; then
	echo "wasm_exec.sh: no node executable found" >&2
	exit 2
fi

GOROOT_DIR="$(GOTOOLCHAIN=local go env GOROOT 2>/dev/null)"
RUNNER="$GOROOT_DIR/misc/wasm/wasm_exec_node.js"
if [ ! -f "$RUNNER" ]; then
	# Go >= 1.24 moved the support files
	RUNNER="$GOROOT_DIR/lib/wasm/wasm_exec_node.js"
fi
if [ ! -f "$RUNNER" ]; then
	echo "wasm_exec.sh: wasm_exec_node.js not found under $GOROOT_DIR" >&2
	exit 2
fi

keep=(env -i "PATH=$PATH" "HOME=${HOME:-/root}" "TMPDIR=${TMPDIR:-/tmp}")
while IFS='=' read -r -d '' name value; do
	case "$name" in
	VERIF_*) keep+=("$name=$value") ;;
	esac
done < <(env -0)

# --stack-size as in Go's go_js_wasm_exec
exec "${keep[@]}" "$NODE" --stack-size=8192 "$RUNNER" "$@"
