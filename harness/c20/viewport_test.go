package c20

import (
	"fmt"

	"github.com/gdamore/tcell/v2/views"
	"pgregory.net/rapid"

	"verifharness/internal/pbt"
)

// VOp is one step of a ViewPort history.
type VOp struct {
	Kind   string `json:"op"`
	X      int    `json:"x,omitempty"`
	Y      int    `json:"y,omitempty"`
	W      int    `json:"w,omitempty"`
	H      int    `json:"h,omitempty"`
	PW     int    `json:"pw,omitempty"` // presize: new parent size
	PH     int    `json:"ph,omitempty"`
	N      int    `json:"n,omitempty"`
	Locked bool   `json:"locked,omitempty"`
	R      rune   `json:"r,omitempty"`
	St     int    `json:"st,omitempty"`
	Comb   bool   `json:"comb,omitempty"`
	// Rel (set only): 0 = X,Y are content coordinates; 1 = relative to the upper
	// left cell of the visible window as reported by GetVisible() before the call;
	// 2 = relative to its lower right cell
	Rel int `json:"rel,omitempty"`
}

// VCase: parent size, NewViewPort arguments, history.
type VCase struct {
	PW  int   `json:"pw"`
	PH  int   `json:"ph"`
	X   int   `json:"x"`
	Y   int   `json:"y"`
	W   int   `json:"w"`
	H   int   `json:"h"`
	Ops []VOp `json:"ops"`
}

type vResult struct {
	nonTrivial bool
	classes    []string
}

type vObs struct {
	vx1, vy1, vx2, vy2 int
	px1, py1, px2, py2 int
	sw, sh             int
	cw, ch             int
}

func observeV(vp *views.ViewPort) vObs {
	var o vObs
	o.vx1, o.vy1, o.vx2, o.vy2 = vp.GetVisible()
	o.px1, o.py1, o.px2, o.py2 = vp.GetPhysical()
	o.sw, o.sh = vp.Size()
	o.cw, o.ch = vp.GetContentSize()
	return o
}

// clampOK is the statement's "inside the content limits" on one axis.
func clampOK(off, size, content int) bool {
	if off < 0 {
		return false
	}
	if content > size && off+size > content {
		return false
	}
	return true
}

func runV(c VCase) (vResult, error) {
	var res vResult
	seen := map[string]bool{}
	class := func(s string) {
		if !seen[s] {
			seen[s] = true
			res.classes = append(res.classes, s)
		}
	}
	par := &recView{w: c.PW, h: c.PH}
	vp := views.NewViewPort(par, c.X, c.Y, c.W, c.H)

	inParent := false  // the port's rectangle is known to lie inside the parent
	originOK := false  // the port's origin was set by an in-range Resize
	lockKnown := false // SetContentSize was called
	locked := false
	grown := false

	// geometry established by NewViewPort / Resize(x,y,w,h)
	checkGeom := func(where fmt.Stringer, x, y, w, h int) error {
		o := observeV(vp)
		if x < 0 || y < 0 {
			class("resize-negative-origin")
		}
		if x >= par.w || y >= par.h {
			class("resize-origin-beyond-parent")
		}
		if x < 0 || y < 0 || x >= par.w || y >= par.h {
			inParent, originOK = false, false
			return nil
		}
		originOK = true
		if o.px1 != x || o.py1 != y {
			return errf("%s: origin (%d,%d) lies inside the parent %dx%d but GetPhysical() origin is (%d,%d)", where, x, y, par.w, par.h, o.px1, o.py1)
		}
		ax := func(name string, req, got, room int) error {
			switch {
			case req < 0:
				class("to-edge")
				if got != room {
					return errf("%s: negative %s must expand to the end of the parent (%d cells from the origin), got %d", where, name, room, got)
				}
			case req <= room:
				if got != req {
					return errf("%s: %s %d fits into the parent (room %d) but Size() reports %d", where, name, req, room, got)
				}
			default:
				class("clipped-to-parent")
				if got > room {
					return errf("%s: %s %d exceeds the room %d left in the parent; the port reports %d and so reaches beyond its parent", where, name, req, room, got)
				}
			}
			return nil
		}
		if err := ax("width", w, o.sw, par.w-x); err != nil {
			return err
		}
		if err := ax("height", h, o.sh, par.h-y); err != nil {
			return err
		}
		inParent = true
		return nil
	}

	// every call that reached the parent lies inside the port's rectangle (and the parent)
	checkCalls := func(where fmt.Stringer, o vObs) error {
		for _, pc := range par.calls {
			if !inRect(pc.X, pc.Y, o.px1, o.py1, o.px2, o.py2) {
				return errf("%s: parent received %v outside the ViewPort's rectangle (%d,%d)-(%d,%d)", where, pc, o.px1, o.py1, o.px2, o.py2)
			}
			if inParent && !par.inside(pc.X, pc.Y) {
				return errf("%s: parent (%dx%d) received %v outside itself although the port was placed inside it", where, par.w, par.h, pc)
			}
		}
		return nil
	}

	general := func(where fmt.Stringer) error {
		o := observeV(vp)
		if o.vx2-o.vx1+1 != o.sw || o.vy2-o.vy1+1 != o.sh {
			return errf("%s: GetVisible() (%d,%d)-(%d,%d) does not span Size() %dx%d", where, o.vx1, o.vy1, o.vx2, o.vy2, o.sw, o.sh)
		}
		if o.px2-o.px1+1 != o.sw || o.py2-o.py1+1 != o.sh {
			return errf("%s: GetPhysical() (%d,%d)-(%d,%d) does not span Size() %dx%d", where, o.px1, o.py1, o.px2, o.py2, o.sw, o.sh)
		}
		if o.vx1 < 0 || o.vy1 < 0 {
			return errf("%s: negative view offset (%d,%d)", where, o.vx1, o.vy1)
		}
		return nil
	}

	if err := checkGeom(strWhere("NewViewPort"), c.X, c.Y, c.W, c.H); err != nil {
		return res, err
	}
	if err := general(strWhere("NewViewPort")); err != nil {
		return res, err
	}

	for i, op := range c.Ops {
		pre := observeV(vp)
		if op.Kind == "set" && op.Rel == 1 {
			op.X, op.Y = pre.vx1+op.X, pre.vy1+op.Y
		} else if op.Kind == "set" && op.Rel == 2 {
			op.X, op.Y = pre.vx2+op.X, pre.vy2+op.Y
		}
		where := vWhere{i, op}
		par.reset()
		switch op.Kind {
		case "resize":
			vp.Resize(op.X, op.Y, op.W, op.H)
			if err := checkGeom(where, op.X, op.Y, op.W, op.H); err != nil {
				return res, err
			}
		case "presize":
			par.w, par.h = op.PW, op.PH
			vp.Resize(op.X, op.Y, op.W, op.H)
			if err := checkGeom(where, op.X, op.Y, op.W, op.H); err != nil {
				return res, err
			}
		case "setsize":
			vp.SetSize(op.W, op.H)
			o := observeV(vp)
			if o.sw != op.W || o.sh != op.H {
				return res, errf("%s: Size() = %dx%d", where, o.sw, o.sh)
			}
			inParent = originOK && o.px1+op.W <= par.w && o.py1+op.H <= par.h
			if !inParent {
				class("setsize-beyond-parent")
			}
		case "csize":
			vp.SetContentSize(op.W, op.H, op.Locked)
			lockKnown, locked = true, op.Locked
			o := observeV(vp)
			if o.cw != op.W || o.ch != op.H {
				return res, errf("%s: GetContentSize() = %dx%d", where, o.cw, o.ch)
			}
			if op.Locked {
				class("locked")
			} else {
				class("growing")
			}
		case "set":
			var comb []rune
			if op.Comb {
				comb = []rune{0x301}
			}
			st := styleOf(op.St)
			vp.SetContent(op.X, op.Y, op.R, comb, st)
			visible := inRect(op.X, op.Y, pre.vx1, pre.vy1, pre.vx2, pre.vy2)
			if !visible {
				class("set-outside-window")
				if len(par.calls) != 0 {
					return res, errf("%s: content position outside the visible window (%d,%d)-(%d,%d) but the parent received %v", where, pre.vx1, pre.vy1, pre.vx2, pre.vy2, par.calls[0])
				}
			} else {
				class("set-inside-window")
				wx, wy := op.X-pre.vx1+pre.px1, op.Y-pre.vy1+pre.py1
				if len(par.calls) != 1 {
					return res, errf("%s: content position inside the visible window (%d,%d)-(%d,%d): want exactly one parent SetContent at (%d,%d), parent received %d calls", where, pre.vx1, pre.vy1, pre.vx2, pre.vy2, wx, wy, len(par.calls))
				}
				pc := par.calls[0]
				if pc.X != wx || pc.Y != wy {
					return res, errf("%s: offset (%d,%d) origin (%d,%d): want parent position (%d,%d) = content - offset + origin, parent received %v", where, pre.vx1, pre.vy1, pre.px1, pre.py1, wx, wy, pc)
				}
				if pc.R != op.R || pc.St != st || pc.Comb != len(comb) {
					return res, errf("%s: rune/combining/style altered on the way to the parent: %v", where, pc)
				}
			}
			if err := checkCalls(where, pre); err != nil {
				return res, err
			}
			o := observeV(vp)
			if o.cw > pre.cw || o.ch > pre.ch {
				grown = true
				class("content-grew")
			}
			if lockKnown && locked && (o.cw != pre.cw || o.ch != pre.ch) {
				return res, errf("%s: locked content size changed from %dx%d to %dx%d", where, pre.cw, pre.ch, o.cw, o.ch)
			}
			if lockKnown && !locked {
				if o.cw < pre.cw || o.ch < pre.ch {
					return res, errf("%s: growing content size shrank from %dx%d to %dx%d", where, pre.cw, pre.ch, o.cw, o.ch)
				}
				if op.X >= 0 && op.Y >= 0 && (op.X >= o.cw || op.Y >= o.ch) {
					class("grow-excludes-drawn-cell")
				}
			}
		case "fill", "clear":
			r, st := op.R, styleOf(op.St)
			if op.Kind == "fill" {
				vp.Fill(r, st)
			} else {
				r, st = ' ', styleOf(0)
				vp.Clear()
			}
			if err := checkCalls(where, pre); err != nil {
				return res, err
			}
			if pre.sw > 0 && pre.sh > 0 {
				got := make([]bool, pre.sw*pre.sh)
				for _, pc := range par.calls {
					if pc.R != r || pc.St != st {
						return res, errf("%s: parent received %v, want rune %q", where, pc, r)
					}
					got[(pc.Y-pre.py1)*pre.sw+(pc.X-pre.px1)] = true
				}
				for k, g := range got {
					if !g {
						return res, errf("%s: cell (%d,%d) of the port's rectangle (%d,%d)-(%d,%d) was not filled", where, pre.px1+k%pre.sw, pre.py1+k/pre.sw, pre.px1, pre.py1, pre.px2, pre.py2)
					}
				}
				class("fill-nonempty")
			} else if len(par.calls) != 0 {
				return res, errf("%s: empty port %dx%d but the parent received %v", where, pre.sw, pre.sh, par.calls[0])
			}
		case "left", "right", "up", "down", "center", "mkvis":
			switch op.Kind {
			case "left":
				vp.ScrollLeft(op.N)
			case "right":
				vp.ScrollRight(op.N)
			case "up":
				vp.ScrollUp(op.N)
			case "down":
				vp.ScrollDown(op.N)
			case "center":
				vp.Center(op.X, op.Y)
			case "mkvis":
				vp.MakeVisible(op.X, op.Y)
			}
			o := observeV(vp)
			okX := clampOK(o.vx1, o.sw, o.cw)
			okY := clampOK(o.vy1, o.sh, o.ch)
			mustX := op.Kind == "left" || op.Kind == "right"
			mustY := op.Kind == "up" || op.Kind == "down"
			if !okX && (mustX || o.vx1 != pre.vx1) {
				return res, errf("%s: x offset %d -> %d with view width %d and content width %d: the visible window is outside the content limits", where, pre.vx1, o.vx1, o.sw, o.cw)
			}
			if !okY && (mustY || o.vy1 != pre.vy1) {
				return res, errf("%s: y offset %d -> %d with view height %d and content height %d: the visible window is outside the content limits", where, pre.vy1, o.vy1, o.sh, o.ch)
			}
			if grown {
				res.nonTrivial = true
			}
			if o.vx1 != pre.vx1 || o.vy1 != pre.vy1 {
				class(op.Kind + "-moved")
			}
			if o.cw > o.sw && (o.vx1+o.sw == o.cw) || o.ch > o.sh && (o.vy1+o.sh == o.ch) {
				class("window-at-far-limit")
			}
		case "reset":
			vp.Reset()
			o := observeV(vp)
			if o.vx1 != 0 || o.vy1 != 0 {
				return res, errf("%s: offset (%d,%d) after Reset", where, o.vx1, o.vy1)
			}
			if o.sw != pre.sw || o.sh != pre.sh || o.px1 != pre.px1 || o.py1 != pre.py1 {
				return res, errf("%s: Reset altered the port's dimensions or physical location", where)
			}
		}
		if err := general(where); err != nil {
			return res, err
		}
		o := observeV(vp)
		if !clampOK(o.vx1, o.sw, o.cw) || !clampOK(o.vy1, o.sh, o.ch) {
			// not attributed to scroll/centre/make-visible (see assumptions)
			class("window-outside-content-after-" + op.Kind)
		}
		if o.vx1 > 0 || o.vy1 > 0 {
			class("scrolled")
		}
	}
	return res, nil
}

type vWhere struct {
	i  int
	op VOp
}

func (w vWhere) String() string {
	i, op := w.i, w.op
	switch op.Kind {
	case "resize":
		return sprintf("step %d Resize(%d,%d,%d,%d)", i, op.X, op.Y, op.W, op.H)
	case "presize":
		return sprintf("step %d parent:=%dx%d; Resize(%d,%d,%d,%d)", i, op.PW, op.PH, op.X, op.Y, op.W, op.H)
	case "setsize":
		return sprintf("step %d SetSize(%d,%d)", i, op.W, op.H)
	case "csize":
		return sprintf("step %d SetContentSize(%d,%d,%v)", i, op.W, op.H, op.Locked)
	case "set":
		return sprintf("step %d SetContent(%d,%d,%q)", i, op.X, op.Y, op.R)
	case "fill":
		return sprintf("step %d Fill(%q)", i, op.R)
	case "left", "right", "up", "down":
		return sprintf("step %d Scroll-%s(%d)", i, op.Kind, op.N)
	case "center":
		return sprintf("step %d Center(%d,%d)", i, op.X, op.Y)
	case "mkvis":
		return sprintf("step %d MakeVisible(%d,%d)", i, op.X, op.Y)
	}
	return sprintf("step %d %s", i, op.Kind)
}

type strWhere string

func (s strWhere) String() string { return string(s) }

// ---- memo: Prop, NonTrivial and Classes are called in a row on the same case

var vMemoKey *VOp
var vMemoLen int
var vMemo vResult

func propV(c VCase) error {
	res, err := runV(c)
	vMemoKey, vMemoLen, vMemo = nil, 0, res
	if len(c.Ops) > 0 {
		vMemoKey, vMemoLen = &c.Ops[0], len(c.Ops)
	}
	return err
}

func resultV(c VCase) vResult {
	if len(c.Ops) > 0 && vMemoKey == &c.Ops[0] && vMemoLen == len(c.Ops) {
		return vMemo
	}
	res, _ := runV(c)
	return res
}

func nonTrivialV(c VCase) bool  { return resultV(c).nonTrivial }
func classesV(c VCase) []string { return resultV(c).classes }

// ---- generator

func genVCase(t *rapid.T) VCase {
	size := rapid.OneOf(rapid.IntRange(0, 40), rapid.IntRange(4, 40), rapid.IntRange(10, 40))
	near := rapid.OneOf(rapid.IntRange(-2, 3), rapid.IntRange(-2, 3), rapid.IntRange(0, 40))
	coord := rapid.OneOf(rapid.IntRange(-10, 60), rapid.IntRange(0, 14), rapid.IntRange(-2, 4))
	origin := rapid.OneOf(rapid.IntRange(0, 3), rapid.IntRange(0, 3), rapid.IntRange(0, 10), rapid.IntRange(0, 40), rapid.IntRange(-10, 60))
	extent := rapid.OneOf(rapid.IntRange(0, 60), rapid.IntRange(0, 12), rapid.Just(-1))
	csize := rapid.OneOf(rapid.IntRange(0, 60), rapid.IntRange(0, 12))
	amount := rapid.OneOf(rapid.IntRange(-10, 60), rapid.IntRange(0, 5))
	runes := rapid.SampledFrom([]rune{'a', 'Z', '#', '世', ' '})

	op := rapid.Custom(func(t *rapid.T) VOp {
		k := rapid.IntRange(0, 99).Draw(t, "kind")
		switch {
		case k < 12:
			return VOp{Kind: "set", X: coord.Draw(t, "sx"), Y: coord.Draw(t, "sy"), R: runes.Draw(t, "r"), St: rapid.IntRange(0, 2).Draw(t, "st"), Comb: rapid.IntRange(0, 5).Draw(t, "comb") == 0}
		case k < 22:
			return VOp{Kind: "set", Rel: 1, X: near.Draw(t, "sx"), Y: near.Draw(t, "sy"), R: runes.Draw(t, "r"), St: rapid.IntRange(0, 2).Draw(t, "st")}
		case k < 30:
			return VOp{Kind: "set", Rel: 2, X: -near.Draw(t, "sx"), Y: -near.Draw(t, "sy"), R: runes.Draw(t, "r"), St: rapid.IntRange(0, 2).Draw(t, "st")}
		case k < 50:
			return VOp{Kind: rapid.SampledFrom([]string{"left", "right", "up", "down"}).Draw(t, "dir"), N: amount.Draw(t, "amt")}
		case k < 58:
			return VOp{Kind: "center", X: coord.Draw(t, "cx"), Y: coord.Draw(t, "cy")}
		case k < 66:
			return VOp{Kind: "mkvis", X: coord.Draw(t, "mx"), Y: coord.Draw(t, "my")}
		case k < 77:
			return VOp{Kind: "csize", W: csize.Draw(t, "cw"), H: csize.Draw(t, "ch"), Locked: rapid.Bool().Draw(t, "locked")}
		case k < 84:
			w, h := extent.Draw(t, "rw"), extent.Draw(t, "rh")
			if w == -1 && rapid.IntRange(0, 3).Draw(t, "neg") == 0 {
				w = -3 // any negative value means "to the edge"
			}
			return VOp{Kind: "resize", X: origin.Draw(t, "rx"), Y: origin.Draw(t, "ry"), W: w, H: h}
		case k < 87:
			return VOp{Kind: "presize", PW: size.Draw(t, "npw"), PH: size.Draw(t, "nph"), X: origin.Draw(t, "rx"), Y: origin.Draw(t, "ry"), W: extent.Draw(t, "rw"), H: extent.Draw(t, "rh")}
		case k < 91:
			return VOp{Kind: "setsize", W: csize.Draw(t, "ssw"), H: csize.Draw(t, "ssh")}
		case k < 95:
			return VOp{Kind: "fill", R: runes.Draw(t, "fr"), St: rapid.IntRange(0, 2).Draw(t, "fst")}
		case k < 97:
			return VOp{Kind: "clear"}
		default:
			return VOp{Kind: "reset"}
		}
	})
	c := VCase{
		PW: size.Draw(t, "pw"), PH: size.Draw(t, "ph"),
		X: origin.Draw(t, "x"), Y: origin.Draw(t, "y"),
		W: extent.Draw(t, "w"), H: extent.Draw(t, "h"),
	}
	// a drawn minimum length keeps histories long; shrinking lowers it and then
	// deletes steps one by one
	max := pbt.Pick(30, 60)
	c.Ops = rapid.SliceOfN(op, rapid.IntRange(1, max).Draw(t, "minlen"), max).Draw(t, "ops")
	return c
}
