// C20 — ViewPort and BoxLayout keep content inside disjoint, correctly sized regions.
//
// Two history-based sub-checks (see viewport_test.go and boxlayout_test.go):
//
//	viewport   histories over NewViewPort/Resize/SetSize/SetContentSize/SetContent/
//	           Fill/Clear/Scroll*/Center/MakeVisible/Reset on a ViewPort whose parent
//	           is a recording View; containment, translation and clamp invariants are
//	           asserted after every step.
//	boxlayout  histories over AddWidget/InsertWidget/RemoveWidget/SetOrientation/
//	           parent resize/preferred-size change on a BoxLayout (with one nested
//	           BoxLayout) of recording widgets whose parent is a recording View; order,
//	           disjointness, containment and exact proportional distribution of the
//	           surplus are asserted after every step, both from the ViewPorts the
//	           children were handed and from what the children can actually draw.
//
// The oracles are written from the property statement and the doc comments of
// views/view.go, views/boxlayout.go and views/widget.go only.
package c20

import (
	"fmt"
	"testing"

	"github.com/gdamore/tcell/v2"

	"verifharness/internal/pbt"
)

func TestMain(m *testing.M) { pbt.Main(m, "C20") }

// ---- recording parent view (shared by both sub-checks)

type pcall struct {
	X, Y int
	R    rune
	Comb int // number of combining runes passed along
	St   tcell.Style
}

// recView is a views.View that records what reaches it.
type recView struct {
	w, h  int
	calls []pcall
	fills int
}

func (r *recView) SetContent(x, y int, ch rune, comb []rune, st tcell.Style) {
	r.calls = append(r.calls, pcall{X: x, Y: y, R: ch, Comb: len(comb), St: st})
}
func (r *recView) Size() (int, int)          { return r.w, r.h }
func (r *recView) Resize(x, y, w, h int)     {}
func (r *recView) Fill(rune, tcell.Style)    { r.fills++ }
func (r *recView) Clear()                    {}
func (r *recView) reset()                    { r.calls = r.calls[:0] }
func (r *recView) inside(x, y int) bool      { return x >= 0 && y >= 0 && x < r.w && y < r.h }
func (c pcall) String() string               { return fmt.Sprintf("SetContent(%d,%d,%q)", c.X, c.Y, c.R) }
func errf(format string, a ...any) error     { return fmt.Errorf(format, a...) }
func sprintf(format string, a ...any) string { return fmt.Sprintf(format, a...) }
func inRect(x, y, x1, y1, x2, y2 int) bool   { return x >= x1 && x <= x2 && y >= y1 && y <= y2 }
func styleOf(i int) tcell.Style {
	switch i {
	case 1:
		return tcell.StyleDefault.Bold(true)
	case 2:
		return tcell.StyleDefault.Foreground(tcell.ColorRed).Background(tcell.ColorBlue)
	}
	return tcell.StyleDefault
}

func TestProp(t *testing.T) {
	pbt.Describe("viewport: rapid-generated histories (1..30 ops quick, 1..60 thorough) over NewViewPort(parent,x,y,w,h)/Resize/parent-resize+Resize/SetSize/SetContentSize(locked|growing)/SetContent/Fill/Clear/ScrollUp/Down/Left/Right/Center/MakeVisible/Reset on a ViewPort over a recording parent View of size 0..40 x 0..40 with coordinates, sizes and scroll amounts in -10..60 (sizes -1 = to the edge); after every step GetVisible/GetPhysical/GetContentSize/Size and every SetContent received by the parent are observed. Non-trivial = the history contains a Scroll*/Center/MakeVisible after the content size was observed to grow through an unlocked SetContent. "+
		"boxlayout: rapid-generated histories (1..25 ops quick, 1..50 thorough) over SetView/AddWidget/InsertWidget/RemoveWidget/SetOrientation/parent resize + Resize()/child preferred-size change (+EventWidgetContent or Resize())/Draw on a BoxLayout with up to 8 recording child widgets (preferred sizes 0..20 x 0..20, fill factors from {0,.25,1,2,3.5,10}) per box, both orientations, with at most one nested BoxLayout (optionally populated before being attached) over a recording parent View of size 0..40 x 0..40; after every step the layout is drawn and every child's rectangle is observed through the ViewPort it was handed (GetPhysical/Size) and through the corner markers it draws, which must arrive at the recording parent exactly at the rectangle's corners. Non-trivial = at some step a box had room for all preferred extents and a surplus E with E*f/sum(f) not an integer for some child. Distinct = hash of the JSON history.",
		"ViewPort: the clamp invariant (offset+size <= content size when content > size) is asserted after Scroll*/Center/MakeVisible as the statement says (on an axis the call did not move, an offset left over from an earlier Resize is not attributed to the call); offset >= 0 is asserted after every step. ViewPort.Resize is documented to be followed by the caller's own ValidateView (CellView does so) and is not required to re-clamp",
		"ViewPort: 'inside the parent' is asserted only while the geometry stems from NewViewPort/Resize with an origin inside the parent (and SetSize values that fit): the statement only promises containment in the rectangle the ViewPort occupies; Resize with an origin outside the parent keeps the old origin (TextBar passes a negative x when its centre text is too wide)",
		"ViewPort: growing (unlocked) content size is modelled only as documented: a locked size never changes through SetContent, an unlocked one never shrinks; lock state is unknown until the first SetContentSize. That growth makes the drawn cell addressable (size >= x+1) is counted as class grow-excludes-drawn-cell, not asserted (the statement does not cover it)",
		"BoxLayout: a child's preferred extent is what its Size() returns when observed; InsertWidget indices are 0..len+2 (documented range); a widget is added to at most one box at a time; the parent view is only resized together with a Resize() call (documented protocol)",
		"BoxLayout: when the preferred extents do not fit, only order, disjointness and containment of the rectangles with positive extent are asserted; with room and all fill factors 0 only 'at least preferred' is asserted; cross-axis extent = the box's own extent is asserted only when there is room (design decision, not in the statement, true of every documented layout)",
		"BoxLayout: the nested BoxLayout is wrapped in a delegating Widget so that the harness can see the View it is handed and the Size() values its parent read")
	pbt.Check(t, "viewport", pbt.Pick(20000, 500000), pbt.Spec[VCase]{
		Gen:        genVCase,
		Prop:       propV,
		NonTrivial: nonTrivialV,
		Classes:    classesV,
	})
	pbt.Check(t, "boxlayout", pbt.Pick(20000, 500000), pbt.Spec[BCase]{
		Gen:        genBCase,
		Prop:       propB,
		NonTrivial: nonTrivialB,
		Classes:    classesB,
		Known:      knownB,
	})
}
