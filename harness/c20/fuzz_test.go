package c20

import (
	"testing"

	"verifharness/internal/pbt"
)

func FuzzViewport(f *testing.F) {
	pbt.FuzzRapid(f, "viewport", pbt.Spec[VCase]{Gen: genVCase, Prop: propV})
}

func FuzzBoxlayout(f *testing.F) {
	pbt.FuzzRapid(f, "boxlayout", pbt.Spec[BCase]{Gen: genBCase, Prop: propB, Known: knownB})
}
