package c20

import (
	"fmt"
	"os"
	"strings"

	"github.com/gdamore/tcell/v2"
	"github.com/gdamore/tcell/v2/views"
	"pgregory.net/rapid"

	"verifharness/internal/pbt"
)

// fill factors and the same values in quarters (exact integer arithmetic in the oracle)
var fills = []float64{0, 0.25, 1, 2, 3.5, 10}
var fills4 = []int{0, 1, 4, 8, 14, 40}

const maxKids = 8

// knownStale is the finding id of the one known failure class (see knownB).
const knownStale = "C20-boxlayout-nested-stale-size"
const knownStaleTag = "[" + knownStale + "]"

// Kid describes a recording child widget.
type Kid struct {
	PW   int `json:"pw"`
	PH   int `json:"ph"`
	Fill int `json:"fill"` // index into fills
}

// BOp is one step of a BoxLayout history. Box 0 is the top layout, box 1 the
// nested one (steps naming a box that does not exist are skipped).
type BOp struct {
	Kind   string `json:"op"`
	Box    int    `json:"box,omitempty"`
	Idx    int    `json:"idx,omitempty"`    // insert offset / child index (mod len)
	Kid    *Kid   `json:"kid,omitempty"`    // add / insert / prefsize (PW,PH)
	Orient int    `json:"orient,omitempty"` // 0 horizontal, 1 vertical
	Fill   int    `json:"fill,omitempty"`   // addbox: fill factor of the nested box
	Insert bool   `json:"insert,omitempty"` // addbox: InsertWidget(Idx) instead of AddWidget
	Pre    []Kid  `json:"pre,omitempty"`    // addbox: children added before the box is attached
	W      int    `json:"w,omitempty"`      // rootsize
	H      int    `json:"h,omitempty"`
	Via    string `json:"via,omitempty"` // prefsize: "event" | "resize"
}

// BCase: size of the recording parent, orientation of the top box, history.
type BCase struct {
	RW     int `json:"rw"`
	RH     int `json:"rh"`
	Orient int `json:"orient"`
	// ViewAt: SetView(parent) happens before step ViewAt (after the last step if
	// there are fewer); before that widgets are added to a layout without a view
	ViewAt int   `json:"view_at,omitempty"`
	Ops    []BOp `json:"ops"`
	// AppWatchers: the application also watches every widget (a handler that
	// takes note of content events and answers true), besides the layout
	AppWatchers bool `json:"app_watchers,omitempty"`
}

// appWatcher is an application-side event handler on a widget.
type appWatcher struct{ seen int }

func (a *appWatcher) HandleEvent(ev tcell.Event) bool { a.seen++; return true }

// ---- recording widgets

const (
	markIn  = 0x10000 // + id: drawn at the four corners of the widget's view
	markOut = 0x20000 // + id: drawn just outside the widget's view
)

type recWidget struct {
	views.WidgetWatchers
	id     int
	pw, ph int
	view   views.View
}

func (w *recWidget) Draw() {
	if w.view == nil {
		return
	}
	vw, vh := w.view.Size()
	in, out := rune(markIn+w.id), rune(markOut+w.id)
	st := tcell.StyleDefault
	w.view.SetContent(0, 0, in, nil, st)
	w.view.SetContent(vw-1, 0, in, nil, st)
	w.view.SetContent(0, vh-1, in, nil, st)
	w.view.SetContent(vw-1, vh-1, in, nil, st)
	w.view.SetContent(-1, 0, out, nil, st)
	w.view.SetContent(0, -1, out, nil, st)
	w.view.SetContent(vw, 0, out, nil, st)
	w.view.SetContent(0, vh, out, nil, st)
	w.view.SetContent(vw, vh-1, out, nil, st)
	w.view.SetContent(vw-1, vh, out, nil, st)
	w.view.SetContent(-1, -1, out, nil, st)
	w.view.SetContent(vw, vh, out, nil, st)
}
func (w *recWidget) Resize()                         {}
func (w *recWidget) HandleEvent(ev tcell.Event) bool { return false }
func (w *recWidget) SetView(v views.View)            { w.view = v }
func (w *recWidget) Size() (int, int)                { return w.pw, w.ph }

// nestedBox delegates everything to a real BoxLayout and remembers the View it
// was handed and the Size() its parent layout last read.
type nestedBox struct {
	*views.BoxLayout
	view         views.View
	seenW, seenH int
	seen         bool
}

func (n *nestedBox) SetView(v views.View) { n.view = v; n.BoxLayout.SetView(v) }
func (n *nestedBox) Size() (int, int) {
	w, h := n.BoxLayout.Size()
	n.seenW, n.seenH, n.seen = w, h, true
	return w, h
}

// ---- harness-side bookkeeping of what was done (not a model of the layout)

type entry struct {
	rec  *recWidget
	nb   *box
	fill int
}

type box struct {
	bl     *views.BoxLayout
	wrap   *nestedBox // nil for the top box
	orient int
	kids   []*entry
}

func (e *entry) widget() views.Widget {
	if e.rec != nil {
		return e.rec
	}
	return e.nb.wrap
}

func (e *entry) view() views.View {
	if e.rec != nil {
		return e.rec.view
	}
	return e.nb.wrap.view
}

func (e *entry) name() string {
	if e.rec != nil {
		return sprintf("widget#%d(pref %dx%d, fill %v)", e.rec.id, e.rec.pw, e.rec.ph, fills[e.fill])
	}
	w, h := e.nb.bl.Size()
	return sprintf("nested-box(pref %dx%d, fill %v)", w, h, fills[e.fill])
}

func orientOf(o int) views.Orientation {
	if o == 1 {
		return views.Vertical
	}
	return views.Horizontal
}

type bResult struct {
	nonTrivial bool
	classes    []string
}

type rect struct{ x1, y1, x2, y2 int }

type bRun struct {
	root     *recView
	top      *box
	inner    *box // attached nested box or nil
	nextID   int
	appWatch bool
	viewSet  bool
	res      bResult
	seen     map[string]bool
	// expected marker positions, filled by checkBox
	corners map[int][4][2]int
	fillOK  []rect // absolute rectangles nested boxes may blank
}

func (r *bRun) class(s string) {
	if !r.seen[s] {
		r.seen[s] = true
		r.res.classes = append(r.res.classes, s)
	}
}

func (r *bRun) newRec(k Kid) *entry {
	id := r.nextID
	r.nextID++
	e := &entry{rec: &recWidget{id: id, pw: k.PW, ph: k.PH}, fill: k.Fill % len(fills)}
	if r.appWatch {
		// two more watchers, so that the layout is rarely the first to be told
		e.rec.Watch(&appWatcher{})
		e.rec.Watch(&appWatcher{})
	}
	return e
}

func (r *bRun) boxOf(i int) *box {
	if i == 0 {
		return r.top
	}
	return r.inner
}

type kidObs struct {
	e        *entry
	pref     int // preferred extent along the axis, as Size() reports now
	seenPref int // what the layout read (nested boxes only; == pref otherwise)
	granted  int
	cross    int
	f4       int
}

// extentErr is the "room suffices" part of the oracle for one box, given the
// preferred extents to use.
func extentErr(kids []kidObs, useSeen bool, avail, crossAvail int, frac *bool, roomy *bool) error {
	sum, sf := 0, 0
	for _, k := range kids {
		p := k.pref
		if useSeen {
			p = k.seenPref
		}
		sum += p
		sf += k.f4
	}
	if sum > avail {
		return nil
	}
	*roomy = true
	e := avail - sum
	granted := 0
	for _, k := range kids {
		p := k.pref
		if useSeen {
			p = k.seenPref
		}
		granted += k.granted
		if k.granted < p {
			return errf("%s is granted %d cells along the axis, less than its preferred %d, although the preferred extents (sum %d) fit into the %d available", k.e.name(), k.granted, p, sum, avail)
		}
		if k.cross != crossAvail {
			return errf("%s has cross-axis extent %d, the box has %d", k.e.name(), k.cross, crossAvail)
		}
		if sf > 0 {
			lo := e * k.f4 / sf
			hi := (e*k.f4 + sf - 1) / sf
			if lo != hi {
				*frac = true
			}
			share := k.granted - p
			if share < lo || share > hi {
				return errf("%s receives %d surplus cells; surplus %d x fill %v / total fill %v = %.4f allows %d..%d (available %d, preferred sum %d)", k.e.name(), share, e, float64(k.f4)/4, float64(sf)/4, float64(e*k.f4)/float64(sf), lo, hi, avail, sum)
			}
		}
	}
	if sf > 0 && granted != avail {
		return errf("children are granted %d cells in total along the axis, the box has %d (preferred sum %d, surplus %d, total fill %v): the surplus is not distributed exactly", granted, avail, sum, e, float64(sf)/4)
	}
	return nil
}

// checkBox checks one box whose view has size aw x ah and absolute origin (ox,oy)
// in the recording parent. A failure of the known class is returned in *known.
func (r *bRun) checkBox(b *box, label string, aw, ah, ox, oy int, known *error) error {
	// the layout's own list agrees with what was added / inserted / removed
	ws := b.bl.Widgets()
	if len(ws) != len(b.kids) {
		return errf("%s: Widgets() has %d entries, %d widgets are in the box", label, len(ws), len(b.kids))
	}
	for i, e := range b.kids {
		if ws[i] != e.widget() {
			return errf("%s: Widgets()[%d] is not the widget placed at position %d by the Add/Insert/Remove history", label, i, i)
		}
	}
	horiz := b.orient == 0
	if b.wrap != nil && b.wrap.view != nil {
		// What a nested box asks of its parent is what its own children ask of
		// it: the sum of their preferred extents along its axis and the largest
		// across (all changes were announced, and the box has been drawn).
		mw, mh := 0, 0
		for _, e := range b.kids {
			if e.rec == nil {
				mw, mh = -1, -1
				break
			}
			if horiz {
				mw += e.rec.pw
				if e.rec.ph > mh {
					mh = e.rec.ph
				}
			} else {
				mh += e.rec.ph
				if e.rec.pw > mw {
					mw = e.rec.pw
				}
			}
		}
		if gw, gh := b.bl.Size(); mw >= 0 && (gw != mw || gh != mh) {
			return errf("%s: the nested box reports a preferred size of %dx%d to its parent; its %d children (orientation %d) ask for %dx%d in total (sum along the axis, maximum across)", label, gw, gh, len(b.kids), b.orient, mw, mh)
		}
		r.class("nested-preferred-size-checked")
	}
	avail, crossAvail := aw, ah
	if !horiz {
		avail, crossAvail = ah, aw
	}
	obs := make([]kidObs, 0, len(b.kids))
	prevEnd := -1
	var prevE *entry
	var rects []rect
	var owners []*entry
	stale := false
	for _, e := range b.kids {
		vp, ok := e.view().(*views.ViewPort)
		if !ok || vp == nil {
			return errf("%s: %s was not handed a ViewPort", label, e.name())
		}
		x1, y1, x2, y2 := vp.GetPhysical()
		cw, ch := vp.Size()
		var pw, ph int
		k := kidObs{e: e, f4: fills4[e.fill]}
		if e.rec != nil {
			pw, ph = e.rec.pw, e.rec.ph
		} else {
			pw, ph = e.nb.bl.Size()
		}
		if horiz {
			k.pref, k.granted, k.cross = pw, cw, ch
		} else {
			k.pref, k.granted, k.cross = ph, ch, cw
		}
		k.seenPref = k.pref
		if e.nb != nil && e.nb.wrap.seen {
			sp := e.nb.wrap.seenW
			if !horiz {
				sp = e.nb.wrap.seenH
			}
			k.seenPref = sp
			if sp != k.pref {
				stale = true
			}
		}
		obs = append(obs, k)
		positive := cw > 0 && ch > 0
		if e.rec != nil {
			if positive {
				r.corners[e.rec.id] = [4][2]int{{ox + x1, oy + y1}, {ox + x2, oy + y1}, {ox + x1, oy + y2}, {ox + x2, oy + y2}}
			}
		}
		if !positive {
			r.class("empty-child-rect")
			if e.nb != nil {
				// nothing of the nested box may show
				if err := r.checkBox(e.nb, "nested box", cw, ch, ox+x1, oy+y1, known); err != nil {
					return err
				}
			}
			continue
		}
		if x1 < 0 || y1 < 0 || x2 >= aw || y2 >= ah {
			return errf("%s: %s occupies (%d,%d)-(%d,%d), outside the box's view %dx%d", label, e.name(), x1, y1, x2, y2, aw, ah)
		}
		s, t := x1, x2
		if !horiz {
			s, t = y1, y2
		}
		if s <= prevEnd {
			return errf("%s: %s starts at %d along the axis but %s, placed before it, ends at %d (order / disjointness)", label, e.name(), s, prevE.name(), prevEnd)
		}
		prevEnd, prevE = t, e
		for j, o := range rects {
			if x1 <= o.x2 && o.x1 <= x2 && y1 <= o.y2 && o.y1 <= y2 {
				return errf("%s: %s (%d,%d)-(%d,%d) overlaps %s (%d,%d)-(%d,%d)", label, e.name(), x1, y1, x2, y2, owners[j].name(), o.x1, o.y1, o.x2, o.y2)
			}
		}
		rects = append(rects, rect{x1, y1, x2, y2})
		owners = append(owners, e)
		if e.nb != nil {
			r.fillOK = append(r.fillOK, rect{ox + x1, oy + y1, ox + x2, oy + y2})
			if err := r.checkBox(e.nb, "nested box", cw, ch, ox+x1, oy+y1, known); err != nil {
				return err
			}
		}
	}
	var frac, roomy bool
	err := extentErr(obs, false, avail, crossAvail, &frac, &roomy)
	if err != nil {
		var f2, r2 bool
		if stale && extentErr(obs, true, avail, crossAvail, &f2, &r2) == nil {
			// exact with respect to the Size() the layout read from its nested
			// box, which changed only afterwards: the known class
			if *known == nil {
				*known = errf("%s %s: %v (the layout is exact for the nested box's earlier Size())", knownStaleTag, label, err)
			}
			r.class("nested-stale-size")
			return nil
		}
		return errf("%s: %v", label, err)
	}
	if roomy {
		r.class("room-suffices")
		if frac {
			r.class("surplus-fractional")
			r.res.nonTrivial = true
		} else {
			r.class("surplus-integral-or-unfilled")
		}
	} else {
		r.class("overflow")
	}
	return nil
}

// observe draws the top box and checks everything.
func (r *bRun) observe(where fmt.Stringer, known *error) error {
	if !r.viewSet {
		return nil
	}
	r.root.reset()
	r.top.bl.Draw()
	r.corners = map[int][4][2]int{}
	r.fillOK = r.fillOK[:0]
	if err := r.checkBox(r.top, "top box", r.root.w, r.root.h, 0, 0, known); err != nil {
		return errf("%s: %v", where, err)
	}
	// what the children drew must arrive exactly at the corners of their rectangles
	got := map[int]int{} // id -> bitmask of corners seen
	for _, pc := range r.root.calls {
		if !r.root.inside(pc.X, pc.Y) {
			return errf("%s: the parent view %dx%d received %v outside itself", where, r.root.w, r.root.h, pc)
		}
		switch {
		case pc.R >= markOut:
			return errf("%s: widget#%d drew outside its view and it reached the parent at (%d,%d)", where, int(pc.R)-markOut, pc.X, pc.Y)
		case pc.R >= markIn:
			id := int(pc.R) - markIn
			cs, ok := r.corners[id]
			if !ok {
				return errf("%s: a corner marker of widget#%d reached the parent at (%d,%d) but the widget has no rectangle of positive extent in the layout", where, id, pc.X, pc.Y)
			}
			hit := false
			for k, p := range cs {
				if p[0] == pc.X && p[1] == pc.Y {
					got[id] |= 1 << k
					hit = true
				}
			}
			if !hit {
				return errf("%s: a corner marker of widget#%d reached the parent at (%d,%d); its rectangle's corners are %v", where, id, pc.X, pc.Y, cs)
			}
		case pc.R == ' ':
			ok := false
			for _, f := range r.fillOK {
				if inRect(pc.X, pc.Y, f.x1, f.y1, f.x2, f.y2) {
					ok = true
					break
				}
			}
			if !ok {
				return errf("%s: a blank reached the parent at (%d,%d), outside every nested box's rectangle %v", where, pc.X, pc.Y, r.fillOK)
			}
		default:
			return errf("%s: unexpected %v at the parent", where, pc)
		}
	}
	for id := 0; id < r.nextID; id++ {
		if cs, ok := r.corners[id]; ok && got[id] != 15 {
			return errf("%s: widget#%d drew its four corners %v but not all arrived at the parent (mask %04b)", where, id, cs, got[id])
		}
	}
	return nil
}

func runB(c BCase) (bResult, error) {
	r := &bRun{root: &recView{w: c.RW, h: c.RH}, seen: map[string]bool{}, appWatch: c.AppWatchers}
	if c.AppWatchers {
		r.class("application-watchers")
	}
	r.top = &box{bl: views.NewBoxLayout(orientOf(c.Orient)), orient: c.Orient & 1}
	var known error
	setView := func() {
		if len(r.top.kids) > 0 {
			r.class("add-before-setview")
		}
		r.top.bl.SetView(r.root)
		r.viewSet = true
	}

	for i, op := range c.Ops {
		if !r.viewSet && i >= c.ViewAt {
			setView()
		}
		where := bWhere{i, op}
		b := r.boxOf(op.Box & 1)
		switch op.Kind {
		case "add", "insert":
			if b == nil || len(b.kids) >= maxKids || op.Kid == nil {
				continue
			}
			e := r.newRec(*op.Kid)
			if op.Kind == "add" {
				b.bl.AddWidget(e.rec, fills[e.fill])
				b.kids = append(b.kids, e)
			} else {
				idx := op.Idx
				b.bl.InsertWidget(idx, e.rec, fills[e.fill])
				if idx > len(b.kids) {
					idx = len(b.kids)
				}
				b.kids = append(b.kids, nil)
				copy(b.kids[idx+1:], b.kids[idx:])
				b.kids[idx] = e
				r.class("insert")
			}
			if b != r.top {
				r.class("nested-add")
			}
		case "addbox":
			if r.inner != nil || len(r.top.kids) >= maxKids {
				continue
			}
			nb := &box{bl: views.NewBoxLayout(orientOf(op.Orient)), orient: op.Orient & 1}
			nb.wrap = &nestedBox{BoxLayout: nb.bl}
			if r.appWatch {
				nb.bl.Watch(&appWatcher{})
				nb.bl.Watch(&appWatcher{})
			}
			for _, k := range op.Pre {
				if len(nb.kids) >= maxKids {
					break
				}
				e := r.newRec(k)
				nb.bl.AddWidget(e.rec, fills[e.fill])
				nb.kids = append(nb.kids, e)
				r.class("nested-prepopulated")
			}
			e := &entry{nb: nb, fill: op.Fill % len(fills)}
			if op.Insert {
				idx := op.Idx
				r.top.bl.InsertWidget(idx, nb.wrap, fills[e.fill])
				if idx > len(r.top.kids) {
					idx = len(r.top.kids)
				}
				r.top.kids = append(r.top.kids, nil)
				copy(r.top.kids[idx+1:], r.top.kids[idx:])
				r.top.kids[idx] = e
			} else {
				r.top.bl.AddWidget(nb.wrap, fills[e.fill])
				r.top.kids = append(r.top.kids, e)
			}
			r.inner = nb
			r.class("nested")
		case "remove":
			if b == nil || len(b.kids) == 0 {
				continue
			}
			idx := op.Idx % len(b.kids)
			e := b.kids[idx]
			b.bl.RemoveWidget(e.widget())
			b.kids = append(b.kids[:idx:idx], b.kids[idx+1:]...)
			if e.nb != nil {
				r.inner = nil
				r.class("remove-nested-box")
			}
			r.class("remove")
		case "orient":
			if b == nil {
				continue
			}
			b.bl.SetOrientation(orientOf(op.Orient))
			if b.orient != op.Orient&1 {
				r.class("orientation-change")
				if b != r.top {
					r.class("nested-orientation-change")
				}
			}
			b.orient = op.Orient & 1
		case "rootsize":
			r.root.w, r.root.h = op.W, op.H
			r.top.bl.Resize()
			r.class("parent-resize")
		case "prefsize":
			if b == nil || len(b.kids) == 0 || op.Kid == nil {
				continue
			}
			e := b.kids[op.Idx%len(b.kids)]
			if e.rec == nil {
				continue
			}
			e.rec.pw, e.rec.ph = op.Kid.PW, op.Kid.PH
			if op.Via == "resize" && b == r.top {
				// a silent preferred-size change followed by Resize() of the
				// layout that owns the child; for a child of a nested layout a
				// widget has to announce the change (content event), as every
				// real widget does - the statement does not cover silent changes
				r.top.bl.Resize()
				r.class("prefsize-then-resize")
			} else {
				e.rec.PostEventWidgetContent(e.rec)
				r.class("prefsize-then-event")
			}
			if b != r.top {
				r.class("nested-prefsize")
			}
		case "resize":
			r.top.bl.Resize()
		case "draw":
			// observed below (a second Draw must not change anything)
		default:
			continue
		}
		if r.top.orient == 1 {
			r.class("top-vertical")
		} else {
			r.class("top-horizontal")
		}
		if err := r.observe(where, &known); err != nil {
			return r.res, err
		}
	}
	if !r.viewSet {
		setView()
		if err := r.observe(strWhere("SetView after the last step"), &known); err != nil {
			return r.res, err
		}
	}
	return r.res, known
}

type bWhere struct {
	i  int
	op BOp
}

func (w bWhere) String() string { return sprintf("step %d %s", w.i, describeB(w.op)) }

func describeB(op BOp) string {
	bx := "top"
	if op.Box&1 == 1 {
		bx = "nested"
	}
	switch op.Kind {
	case "add":
		if op.Kid != nil {
			return sprintf("%s.AddWidget(pref %dx%d, fill %v)", bx, op.Kid.PW, op.Kid.PH, fills[op.Kid.Fill%len(fills)])
		}
	case "insert":
		if op.Kid != nil {
			return sprintf("%s.InsertWidget(%d, pref %dx%d, fill %v)", bx, op.Idx, op.Kid.PW, op.Kid.PH, fills[op.Kid.Fill%len(fills)])
		}
	case "addbox":
		return sprintf("top.Add/InsertWidget(nested box with %d children, orient %d, fill %v)", len(op.Pre), op.Orient&1, fills[op.Fill%len(fills)])
	case "remove":
		return sprintf("%s.RemoveWidget(child %d)", bx, op.Idx)
	case "orient":
		return sprintf("%s.SetOrientation(%d)", bx, op.Orient&1)
	case "rootsize":
		return sprintf("parent:=%dx%d; top.Resize()", op.W, op.H)
	case "prefsize":
		if op.Kid != nil {
			return sprintf("%s child %d prefers %dx%d (%s)", bx, op.Idx, op.Kid.PW, op.Kid.PH, op.Via)
		}
	}
	return op.Kind
}

// ---- memo (see viewport_test.go)

var bMemoKey *BOp
var bMemoLen int
var bMemo bResult

func propB(c BCase) error {
	res, err := runB(c)
	bMemoKey, bMemoLen, bMemo = nil, 0, res
	if len(c.Ops) > 0 {
		bMemoKey, bMemoLen = &c.Ops[0], len(c.Ops)
	}
	return err
}

func resultB(c BCase) bResult {
	if len(c.Ops) > 0 && bMemoKey == &c.Ops[0] && bMemoLen == len(c.Ops) {
		return bMemo
	}
	res, _ := runB(c)
	return res
}

func nonTrivialB(c BCase) bool  { return resultB(c).nonTrivial }
func classesB(c BCase) []string { return resultB(c).classes }

// knownB: the only known class is the one runB itself has pinned down (every
// other assertion of the history held, and the failing box is exact for the
// Size() its nested BoxLayout reported when the layout pass read it).
func knownB(c BCase, err error) string {
	if os.Getenv("C20_NOKNOWN") != "" {
		return "" // diagnosis: let rapid shrink a history of the known class
	}
	if err != nil && strings.HasPrefix(err.Error(), knownStaleTag) {
		return knownStale
	}
	return ""
}

// ---- generator

func genBCase(t *rapid.T) BCase {
	rootSize := rapid.OneOf(rapid.IntRange(0, 40), rapid.IntRange(8, 40))
	pref := rapid.OneOf(rapid.IntRange(0, 20), rapid.IntRange(0, 5), rapid.IntRange(0, 5))
	fillIdx := rapid.IntRange(0, len(fills)-1)
	kid := rapid.Custom(func(t *rapid.T) Kid {
		return Kid{PW: pref.Draw(t, "pw"), PH: pref.Draw(t, "ph"), Fill: fillIdx.Draw(t, "fill")}
	})
	orient := rapid.IntRange(0, 1)
	// steps are drawn independently of each other (the executor skips steps that
	// do not apply), so that shrinking can delete them one by one
	op := rapid.Custom(func(t *rapid.T) BOp {
		bx := 0
		if rapid.IntRange(0, 2).Draw(t, "inner") == 0 {
			bx = 1
		}
		k := rapid.IntRange(0, 99).Draw(t, "kind")
		switch {
		case k < 28:
			kd := kid.Draw(t, "kid")
			return BOp{Kind: "add", Box: bx, Kid: &kd}
		case k < 38:
			kd := kid.Draw(t, "kid")
			return BOp{Kind: "insert", Box: bx, Idx: rapid.IntRange(0, maxKids+2).Draw(t, "idx"), Kid: &kd}
		case k < 48:
			o := BOp{Kind: "addbox", Orient: orient.Draw(t, "borient"), Fill: fillIdx.Draw(t, "bfill")}
			if rapid.Bool().Draw(t, "prepop") {
				o.Pre = rapid.SliceOfN(kid, 1, 4).Draw(t, "pre")
			}
			if rapid.Bool().Draw(t, "binsert") {
				o.Insert = true
				o.Idx = rapid.IntRange(0, maxKids+2).Draw(t, "bidx")
			}
			return o
		case k < 58:
			return BOp{Kind: "remove", Box: bx, Idx: rapid.IntRange(0, maxKids-1).Draw(t, "ridx")}
		case k < 68:
			return BOp{Kind: "rootsize", W: rootSize.Draw(t, "nrw"), H: rootSize.Draw(t, "nrh")}
		case k < 76:
			return BOp{Kind: "orient", Box: bx, Orient: orient.Draw(t, "norient")}
		case k < 90:
			kd := Kid{PW: pref.Draw(t, "npw"), PH: pref.Draw(t, "nph")}
			return BOp{Kind: "prefsize", Box: bx, Idx: rapid.IntRange(0, maxKids-1).Draw(t, "pidx"), Kid: &kd, Via: rapid.SampledFrom([]string{"event", "event", "resize"}).Draw(t, "via")}
		case k < 95:
			return BOp{Kind: "resize"}
		default:
			return BOp{Kind: "draw"}
		}
	})
	c := BCase{RW: rootSize.Draw(t, "rw"), RH: rootSize.Draw(t, "rh"), Orient: orient.Draw(t, "orient")}
	c.AppWatchers = rapid.IntRange(0, 2).Draw(t, "appwatch") == 0
	if rapid.IntRange(0, 4).Draw(t, "late") == 0 {
		c.ViewAt = rapid.IntRange(1, 6).Draw(t, "viewAt")
	}
	max := pbt.Pick(25, 50)
	c.Ops = rapid.SliceOfN(op, rapid.IntRange(1, max).Draw(t, "minlen"), max).Draw(t, "ops")
	return c
}
