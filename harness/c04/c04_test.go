// C04 — Fini/Suspend restore every terminal mode; Resume re-applies enabled ones.
package c04

import (
	"fmt"
	"testing"
	"time"

	"github.com/gdamore/tcell/v2"
	"pgregory.net/rapid"

	"verifharness/internal/faketty"
	"verifharness/internal/gen"
	"verifharness/internal/pbt"
	"verifharness/internal/tsrun"
	"verifharness/internal/vt"
)

func TestMain(m *testing.M) { pbt.Main(m, "C04") }

var entries []string

type Op struct {
	Kind  string        `json:"op"` // mouse mouseoff paste focus cursorstyle title cursor set show sync suspend resume
	N     int           `json:"n,omitempty"`
	On    bool          `json:"on,omitempty"`
	X     int           `json:"x,omitempty"`
	Y     int           `json:"y,omitempty"`
	R     rune          `json:"r,omitempty"`
	S     string        `json:"s,omitempty"`
	Style gen.StyleSpec `json:"style"`
}

type Case struct {
	Cfg  tsrun.Config `json:"cfg"`
	Ops  []Op         `json:"ops"`
	Last string       `json:"last"` // fini | suspend
}

const shellTitle = "user@host: ~ (shell title)"

func genCase(t *rapid.T) Case {
	c := Case{}
	c.Cfg.Entry = rapid.SampledFrom(entries).Draw(t, "entry")
	c.Cfg.Color = "shipped"
	c.Cfg.W, c.Cfg.H = rapid.IntRange(2, 10).Draw(t, "w"), rapid.IntRange(1, 4).Draw(t, "h")
	c.Cfg.NoAltScrn = rapid.IntRange(0, 3).Draw(t, "noalt") == 0
	n := rapid.IntRange(1, pbt.Pick(25, 50)).Draw(t, "n")
	suspended := false
	for i := 0; i < n; i++ {
		k := rapid.IntRange(0, 19).Draw(t, "k")
		var op Op
		switch {
		case k <= 2:
			op = Op{Kind: "mouse", N: rapid.IntRange(-1, 7).Draw(t, "flags")} // -1: EnableMouse() without arguments
		case k == 3:
			op = Op{Kind: "mouseoff"}
		case k <= 5:
			op = Op{Kind: "paste", On: rapid.Bool().Draw(t, "on")}
		case k <= 7:
			op = Op{Kind: "focus", On: rapid.Bool().Draw(t, "on")}
		case k <= 9:
			op = Op{Kind: "cursorstyle", N: rapid.IntRange(0, 6).Draw(t, "cs")}
			switch rapid.IntRange(0, 3).Draw(t, "cc") {
			case 1:
				op.Style.Fg = gen.RGB(rapid.IntRange(0, 0xffffff).Draw(t, "rgb"))
			case 2:
				op.Style.Fg = gen.Pal(rapid.IntRange(0, 15).Draw(t, "pal"))
			case 3:
				op.Style.Fg = "reset"
			}
		case k == 10:
			op = Op{Kind: "title", S: rapid.SampledFrom([]string{"app", "tcell demo", "a;b", "日本", ""}).Draw(t, "title")}
		case k <= 12:
			op = Op{Kind: "cursor", X: rapid.IntRange(-1, c.Cfg.W).Draw(t, "cx"), Y: rapid.IntRange(-1, c.Cfg.H).Draw(t, "cy")}
		case k <= 14:
			op = Op{Kind: "set", X: rapid.IntRange(0, c.Cfg.W-1).Draw(t, "x"), Y: rapid.IntRange(0, c.Cfg.H-1).Draw(t, "y"), R: gen.Rune(t, "r", false), Style: gen.Style(t, "st", false, true)}
		case k <= 16:
			op = Op{Kind: "show"}
		case k == 17:
			op = Op{Kind: "sync"}
		default:
			if suspended {
				// On: the terminal cannot be taken back at first (the tty's Start fails once); the
				// application retries
				op = Op{Kind: "resume", On: rapid.IntRange(0, 3).Draw(t, "startfails") == 0}
			} else {
				op = Op{Kind: "suspend"}
			}
			suspended = !suspended
		}
		if suspended && (op.Kind == "show" || op.Kind == "sync" || op.Kind == "set" || op.Kind == "cursor") {
			// drawing on a suspended screen is C06's business
			continue
		}
		c.Ops = append(c.Ops, op)
	}
	if suspended {
		c.Ops = append(c.Ops, Op{Kind: "resume"})
	}
	c.Last = rapid.SampledFrom([]string{"fini", "fini", "suspend"}).Draw(t, "last")
	return c
}

// app is what the application asked for.
type app struct {
	mouse        tcell.MouseFlags
	paste, focus bool
	title        string
	titleSet     bool
	styleChanged bool
	colorChanged bool
}

func guard(what string, f func()) error {
	done := make(chan struct{})
	go func() { f(); close(done) }()
	select {
	case <-done:
		return nil
	case <-pbt.After(10 * time.Second):
		return fmt.Errorf("%s did not return within 10s", what)
	}
}

func checkRestored(r *tsrun.Runner, a *app, what string, finalized bool) error {
	t := r.Term
	ti := r.TI
	if err := r.CheckStrict(); err != nil {
		return fmt.Errorf("after %s: %v", what, err)
	}
	if t.AltScreen {
		return fmt.Errorf("after %s: the terminal is still on the alternate screen", what)
	}
	if !t.CursorVisible {
		return fmt.Errorf("after %s: the cursor is hidden", what)
	}
	if t.CursorStyle != 0 {
		return fmt.Errorf("after %s: cursor shape is still DECSCUSR %d", what, t.CursorStyle)
	}
	if t.CursorColor != "" {
		return fmt.Errorf("after %s: cursor colour is still %q", what, t.CursorColor)
	}
	p := t.Pen
	if p.Bold || p.Dim || p.Italic || p.Blink || p.Reverse || p.Strike || p.Ul != 0 {
		return fmt.Errorf("after %s: attributes still set: %+v", what, p)
	}
	okc := func(c, op vt.Color) bool { return c == vt.Color{} || c == op }
	if !okc(p.Fg, r.Caps.OpPen.Fg) || !okc(p.Bg, r.Caps.OpPen.Bg) {
		return fmt.Errorf("after %s: colours not reset: fg=%v bg=%v", what, p.Fg, p.Bg)
	}
	if t.Font != 10 || t.G[t.Shift] != 'B' {
		return fmt.Errorf("after %s: alternate character set still selected (font %d, G%d=%c)", what, t.Font, t.Shift, t.G[t.Shift])
	}
	if t.Keypad || t.Modes[1] || t.Modes[4] {
		return fmt.Errorf("after %s: keypad-application / cursor-key mode still on (keypad=%v ?1=%v ?4=%v)", what, t.Keypad, t.Modes[1], t.Modes[4])
	}
	for _, m := range []int{1000, 1002, 1003, 1006, 2004, 1004} {
		if t.Modes[m] {
			return fmt.Errorf("after %s: DEC private mode ?%d is still on", what, m)
		}
	}
	if ti.EnableAutoMargin != "" && !t.Modes[7] {
		return fmt.Errorf("after %s: auto-margin is still off", what)
	}
	if r.Caps.TitleStack && !r.Cfg.NoAltScrn && t.Title != shellTitle {
		return fmt.Errorf("after %s: window title is %q, the title saved at start was %q", what, t.Title, shellTitle)
	}
	return checkLog(r.Tty.Log(), what, finalized)
}

// checkLog verifies the Tty contract on the call log up to the last Stop.
func checkLog(log []faketty.Call, what string, finalized bool) error {
	lastStop, lastStart := -1, -1
	for i, c := range log {
		switch c.Name {
		case "Stop":
			lastStop = i
		case "Start":
			lastStart = i
		}
	}
	if lastStop < 0 || lastStop < lastStart {
		return fmt.Errorf("after %s: Tty.Stop was not called", what)
	}
	// segment of the last engagement
	start := 0
	for i := lastStop - 1; i >= 0; i-- {
		if log[i].Name == "Start" {
			start = i
			break
		}
	}
	drain, lastNotify := -1, ""
	for i := start; i < lastStop; i++ {
		switch log[i].Name {
		case "Drain":
			drain = i
		case "NotifyResize", "NotifyResize(nil)":
			lastNotify = log[i].Name
		}
	}
	if drain < 0 {
		return fmt.Errorf("after %s: Drain was not called before Stop", what)
	}
	if lastNotify != "NotifyResize(nil)" {
		return fmt.Errorf("after %s: the resize callback was not unregistered before Stop (last registration call: %q)", what, lastNotify)
	}
	closed := -1
	for i := lastStop + 1; i < len(log); i++ {
		switch log[i].Name {
		case "Write", "ReadBegin":
			return fmt.Errorf("after %s: %s on the tty after Stop (call %d of %d)", what, log[i].Name, i, len(log))
		case "Close":
			closed = i
		}
	}
	for i := 0; i < lastStop; i++ {
		if log[i].Name == "Close" {
			return fmt.Errorf("after %s: Close before Stop", what)
		}
	}
	if finalized && closed < 0 {
		return fmt.Errorf("after Fini: the tty was not closed")
	}
	if !finalized && closed >= 0 {
		return fmt.Errorf("after Suspend: the tty was closed")
	}
	return nil
}

func checkModes(r *tsrun.Runner, a *app, what string) error {
	t := r.Term
	ti := r.TI
	if err := r.CheckStrict(); err != nil {
		return fmt.Errorf("%s: %v", what, err)
	}
	if r.Caps.Mouse {
		want := map[int]bool{
			1000: a.mouse&tcell.MouseButtonEvents != 0,
			1002: a.mouse&tcell.MouseDragEvents != 0,
			1003: a.mouse&tcell.MouseMotionEvents != 0,
			1006: a.mouse != 0,
		}
		for m, w := range want {
			if t.Modes[m] != w {
				return fmt.Errorf("%s: mouse mode ?%d is %v, the application's last request (flags %d) means %v", what, m, t.Modes[m], a.mouse, w)
			}
		}
	}
	if r.Caps.Paste && t.Modes[2004] != a.paste {
		return fmt.Errorf("%s: bracketed paste ?2004 is %v, application asked for %v", what, t.Modes[2004], a.paste)
	}
	if r.Caps.Focus && t.Modes[1004] != a.focus {
		return fmt.Errorf("%s: focus reporting ?1004 is %v, application asked for %v", what, t.Modes[1004], a.focus)
	}
	if ti.EnterCA != "" && !r.Cfg.NoAltScrn && !t.AltScreen {
		return fmt.Errorf("%s: not on the alternate screen", what)
	}
	if ti.DisableAutoMargin != "" && t.Modes[7] {
		return fmt.Errorf("%s: auto-margin is on although the terminal can switch it off", what)
	}
	if r.Caps.Title && a.titleSet && a.title != "" && t.Title != a.title {
		return fmt.Errorf("%s: window title is %q, application set %q", what, t.Title, a.title)
	}
	return nil
}

func prop(c Case) error {
	r, err := tsrun.New(c.Cfg)
	if err != nil {
		return err
	}
	r.Term.Title = shellTitle
	if err := r.Init(); err != nil {
		return err
	}
	defer r.Close()
	a := &app{}
	s := r.Screen
	suspended := false
	for i, op := range c.Ops {
		switch op.Kind {
		case "mouse":
			switch {
			case op.N < 0:
				s.EnableMouse()
				a.mouse = tcell.MouseButtonEvents | tcell.MouseDragEvents | tcell.MouseMotionEvents
			default:
				s.EnableMouse(tcell.MouseFlags(op.N))
				a.mouse = tcell.MouseFlags(op.N)
				if op.N == 0 {
					// EnableMouse(0): no flag present means "all" only when no argument is given
					a.mouse = 0
				}
			}
		case "mouseoff":
			s.DisableMouse()
			a.mouse = 0
		case "paste":
			if op.On {
				s.EnablePaste()
			} else {
				s.DisablePaste()
			}
			a.paste = op.On
		case "focus":
			if op.On {
				s.EnableFocus()
			} else {
				s.DisableFocus()
			}
			a.focus = op.On
		case "title":
			s.SetTitle(op.S)
			a.title, a.titleSet = op.S, true
		case "cursorstyle", "cursor", "set", "show", "sync":
			if _, err := r.Apply(tsrun.Op{Kind: op.Kind, N: op.N, X: op.X, Y: op.Y, R: op.R, Style: op.Style}); err != nil {
				return fmt.Errorf("step %d: %v", i, err)
			}
		case "suspend":
			var serr error
			if err := guard("Suspend", func() { serr = s.Suspend() }); err != nil {
				return err
			}
			if serr != nil {
				return fmt.Errorf("step %d: Suspend: %v", i, serr)
			}
			suspended = true
			if err := checkRestored(r, a, fmt.Sprintf("Suspend (step %d)", i), false); err != nil {
				return err
			}
			continue
		case "resume":
			var rerr error
			if op.On {
				r.Tty.SetStartErr(fmt.Errorf("tty busy"))
				before := len(r.Tty.Log())
				if err := guard("Resume while the tty's Start fails", func() { rerr = s.Resume() }); err != nil {
					return err
				}
				r.Tty.SetStartErr(nil)
				if rerr == nil {
					return fmt.Errorf("step %d: Resume returned nil although the tty's Start failed", i)
				}
				// nothing may be written to a terminal that was not taken back
				for _, e := range r.Tty.Log()[before:] {
					if e.Name == "Write" {
						return fmt.Errorf("step %d: Resume failed because the tty's Start failed, yet it wrote to the tty", i)
					}
				}
			}
			if err := guard("Resume", func() { rerr = s.Resume() }); err != nil {
				return err
			}
			if rerr != nil {
				return fmt.Errorf("step %d: Resume: %v", i, rerr)
			}
			suspended = false
			r.FullNext = true
			if err := checkModes(r, a, fmt.Sprintf("after Resume (step %d)", i)); err != nil {
				return err
			}
			continue
		}
		if !suspended {
			if err := checkModes(r, a, fmt.Sprintf("after step %d (%s)", i, op.Kind)); err != nil {
				return err
			}
		}
	}
	switch c.Last {
	case "fini":
		if err := guard("Fini", func() { s.Fini() }); err != nil {
			return err
		}
		r.Fini = true
		return checkRestored(r, a, "Fini", true)
	default:
		if err := guard("Suspend", func() { _ = s.Suspend() }); err != nil {
			return err
		}
		return checkRestored(r, a, "final Suspend", false)
	}
}

func nonTrivial(c Case) bool {
	// >= 1 mode enabled at shutdown and >= 1 Suspend/Resume cycle
	cycle, mode := false, false
	var m int
	var p, f bool
	for _, op := range c.Ops {
		switch op.Kind {
		case "resume":
			cycle = true
		case "mouse":
			m = op.N
		case "mouseoff":
			m = 0
		case "paste":
			p = op.On
		case "focus":
			f = op.On
		}
	}
	mode = m != 0 || p || f
	return cycle && mode
}

func classes(c Case) []string {
	out := []string{"last:" + c.Last}
	if c.Cfg.NoAltScrn {
		out = append(out, "altscreen-disabled")
	}
	seen := map[string]bool{}
	for _, op := range c.Ops {
		if !seen[op.Kind] {
			seen[op.Kind] = true
			out = append(out, "op:"+op.Kind)
		}
	}
	if nonTrivial(c) {
		out = append(out, "cycle-and-mode-at-shutdown")
	}
	return out
}

func TestProp(t *testing.T) {
	defer pbt.Recover(t)
	entries = tsrun.ECMAEntries()
	pbt.Describe("rapid histories (<= 25 ops quick / 50 thorough) of EnableMouse(flag subsets, or no argument)/DisableMouse/EnablePaste/DisablePaste/EnableFocus/DisableFocus/SetCursorStyle(+colour)/SetTitle/ShowCursor/SetContent/Show/Sync interleaved with Suspend/Resume cycles (a quarter of the Resumes first fail once because the tty's Start fails: nothing may be switched on by the failed attempt, and the retry re-applies the modes), ending in Fini or Suspend, on a real terminfo screen for every ECMA-48-family registered name with TCELL_ALTSCREEN unset or 'disable'; a shell title is set on the reference terminal before Init. When Fini/Suspend returns the reference terminal's registers must say: alternate screen left, cursor visible with default shape and colour, attributes off and colours default (or as after op), alternate charset off, keypad/cursor-key application modes off, ?1000/?1002/?1003/?1006/?2004/?1004 off, auto-margin on (entries with smam), saved title restored; the fake tty's ordered call log must show Drain and resize-callback unregistration before Stop, no Write/Read after Stop, Close only at Fini. After every mode call and after Resume the registers must equal the application's last requests. Non-trivial = a mode enabled at shutdown and >= 1 Suspend/Resume cycle; distinct = hash of the case.",
		"mode expectations are derived from the description: mouse modes only on entries with kmous, paste/focus/title on entries the library documents as supporting them (not linux)",
		"drawing calls while suspended are not generated here (C06 covers calls on a stopped screen); mode calls while suspended are",
		"hyperlink state at exit is not asserted (not in the statement)")
	pbt.Check(t, "history", pbt.Pick(4000, 40000), pbt.Spec[Case]{Gen: genCase, Prop: prop, NonTrivial: nonTrivial, Classes: classes})
}
