// C09 — output stream is well-formed and cell content cannot inject control bytes.
package c09

import (
	"fmt"
	"strings"
	"testing"
	"unicode"

	"pgregory.net/rapid"

	"verifharness/internal/csets"
	"verifharness/internal/pbt"
	"verifharness/internal/shadow"
	"verifharness/internal/tsrun"
)

func TestMain(m *testing.M) {
	csets.Init()
	pbt.Main(m, "C09")
}

var entries []string

const (
	knownWideCorner = "C01-amtrick-wide-rune-at-corner"
	knownFormat     = "C09-invisible-format-chars-not-blanked"
)

// invisibleFormat: bidi controls, joiners and other default-ignorable format
// characters (the statement's "bidi/format characters"); the visible Arabic /
// Syriac / Kaithi prepended marks of category Cf are real glyphs and excluded.
func invisibleFormat(r rune) bool {
	if unicode.Is(unicode.Bidi_Control, r) || unicode.Is(unicode.Join_Control, r) {
		return true
	}
	if !unicode.Is(unicode.Cf, r) {
		return false
	}
	switch {
	case r >= 0x0600 && r <= 0x0605, r == 0x06DD, r == 0x070F, r == 0x0890, r == 0x0891, r == 0x08E2, r == 0x110BD, r == 0x110CD:
		return false
	}
	return true
}

// hostile: the rune must never reach the terminal other than as a blank.
func hostile(r rune) bool {
	return r < 0x20 || (r >= 0x7f && r <= 0x9f) || r > 0x10FFFF || (r >= 0xD800 && r <= 0xDFFF) || shadow.RuneWidth(r) == 0 || invisibleFormat(r)
}

// ---------------------------------------------------------------- histories

type Case struct {
	Cfg tsrun.Config `json:"cfg"`
	Ops []tsrun.Op   `json:"ops"`
}

func genCase(t *rapid.T) Case {
	o := tsrun.GenOpts{MaxOps: pbt.Pick(30, 60), Hostile: true, Resize: true, Lock: false, MaxW: 10, MaxH: 4, MinW: 2, Urls: true}
	c := Case{Cfg: tsrun.GenConfig(t, entries, o)}
	c.Cfg.Charset = rapid.SampledFrom([]string{"UTF-8", "UTF-8", "ISO8859-1", "KOI8-R"}).Draw(t, "charset")
	ops := tsrun.GenOps(t, c.Cfg.W, c.Cfg.H, o)
	// window titles and Suspend/Resume cycles: more output that has to be well-formed
	for _, op := range ops {
		switch rapid.IntRange(0, 24).Draw(t, "extra") {
		case 0:
			c.Ops = append(c.Ops, tsrun.Op{Kind: "settitle", N: rapid.IntRange(0, 99).Draw(t, "title")})
		case 1:
			c.Ops = append(c.Ops, tsrun.Op{Kind: "suspres"}, tsrun.Op{Kind: "sync"})
		}
		c.Ops = append(c.Ops, op)
	}
	return c
}

// checkCells: strict stream + every visible cell of a hostile rune is a blank.
func checkCells(r *tsrun.Runner) error {
	if err := r.CheckStrict(); err != nil {
		return err
	}
	if r.Cfg.Charset == "" || r.Cfg.Charset == "UTF-8" {
		if err := r.CheckDisplay(); err != nil {
			return err
		}
	}
	t, sh := r.Term, r.Shadow
	for y := 0; y < sh.H && y < t.H; y++ {
		row := sh.ExpectedRow(y)
		for x := 0; x < sh.W && x < t.W; x++ {
			if row[x].Hidden || sh.At(x, y).Locked {
				continue
			}
			app := sh.At(x, y).R
			c := t.At(x, y)
			legacy := r.Cfg.Charset != "" && r.Cfg.Charset != "UTF-8"
			if legacy && !hostile(app) && !row[x].Blank && row[x].Width == 1 {
				// 8-bit locale: a rune the charset can represent must be shown as
				// itself in its own cell - this is what catches parameter-language
				// residue or padding printed as text (it displaces what follows)
				if _, ok := csets.Encode(r.Cfg.Charset, app); ok && (c.Base != app || c.Alt) {
					return fmt.Errorf("cell (%d,%d): U+%04X is representable in %s but the terminal shows %q (alt=%v): stray printable bytes in the stream?", x, y, app, r.Cfg.Charset, c.Base, c.Alt)
				}
			}
			if hostile(app) {
				if !(c.Base == ' ' || c.Base == 0 || (c.Base == 0xFFFD && app >= 0xD800 && app <= 0xDFFF)) || len(c.Comb) != len(row[x].Comb) && !row[x].Blank {
					tag := ""
					if invisibleFormat(app) && shadow.RuneWidth(app) > 0 {
						tag = "[" + knownFormat + "] "
					}
					return fmt.Errorf("%scell (%d,%d): primary rune U+%04X (control / zero-width / format / invalid) is shown as %q+%q instead of a blank", tag, x, y, app, c.Base, c.Comb)
				}
			}
		}
	}
	return nil
}

func prop(c Case) error {
	r, err := tsrun.New(c.Cfg)
	if err != nil {
		return err
	}
	if err := r.Init(); err != nil {
		return err
	}
	defer r.Close()
	tainted := false
	for i, op := range c.Ops {
		pt, err := r.Apply(op)
		if err != nil {
			return fmt.Errorf("step %d (%s): %v", i, op.Kind, err)
		}
		if pt == tsrun.None {
			continue
		}
		if r.WideAtCornerOnTrickTerminal() {
			tainted = true // the known defect scrolls / damages the display from here on
		}
		if r.Corrupted {
			// the terminal's contents were changed behind the library's back (a
			// scramble, or the window went to another size and back unreported):
			// until the next full redraw only well-formedness can be asked for
			if err := r.CheckStrict(); err != nil {
				tag := ""
				if tainted {
					tag = "[" + knownWideCorner + "] "
				}
				return fmt.Errorf("%sstep %d (%s) on %s/%s/%s: %v", tag, i, op.Kind, c.Cfg.Entry, c.Cfg.Color, c.Cfg.Charset, err)
			}
			continue
		}
		if err := checkCells(r); err != nil {
			tag := ""
			if tainted && !strings.HasPrefix(err.Error(), "[") {
				tag = "[" + knownWideCorner + "] "
			}
			return fmt.Errorf("%sstep %d (%s) on %s/%s/%s: %v", tag, i, op.Kind, c.Cfg.Entry, c.Cfg.Color, c.Cfg.Charset, err)
		}
	}
	r.Close()
	if err := r.CheckStrict(); err != nil {
		return fmt.Errorf("after Fini on %s: %v", c.Cfg.Entry, err)
	}
	return nil
}

func known(c Case, err error) string {
	if strings.HasPrefix(err.Error(), "["+knownWideCorner+"]") {
		return knownWideCorner
	}
	if strings.Contains(err.Error(), "["+knownFormat+"]") {
		return knownFormat
	}
	return ""
}

func nonTrivial(c Case) bool {
	for _, op := range c.Ops {
		if (op.Kind == "set" || op.Kind == "setcell" || op.Kind == "fill") && hostile(op.R) {
			return true
		}
	}
	return false
}

func classes(c Case) []string {
	seen := map[string]bool{}
	var out []string
	add := func(s string) {
		if !seen[s] {
			seen[s] = true
			out = append(out, s)
		}
	}
	add("charset:" + c.Cfg.Charset)
	for _, op := range c.Ops {
		if op.Kind != "set" && op.Kind != "setcell" && op.Kind != "fill" {
			continue
		}
		r := op.R
		switch {
		case r < 0x20:
			add("c0")
		case r == 0x7f:
			add("del")
		case r >= 0x80 && r <= 0x9f:
			add("c1")
		case r > 0x10FFFF || r < 0 || (r >= 0xD800 && r <= 0xDFFF):
			add("invalid")
		case invisibleFormat(r):
			add("format")
		case shadow.RuneWidth(r) == 0:
			add("zero-width")
		}
		if op.Kind == "fill" && hostile(r) {
			add("hostile-fill")
		}
	}
	return out
}

// ---------------------------------------------------------------- code point sweep

type SweepCase struct {
	Entry   string `json:"entry"`
	Charset string `json:"charset"`
	Path    string `json:"path"` // set | fill | lastcol
	From    rune   `json:"from"`
	To      rune   `json:"to"`
}

func sweepValues(full bool) []rune {
	var vals []rune
	for r := rune(0); r <= 0x10FFFF; r++ {
		if !full && r > 0x3100 && r < 0xD000 && r%5 != 0 {
			continue
		}
		if !full && r > 0x20000 && r < 0xE0000 && r%11 != 0 {
			continue
		}
		vals = append(vals, r)
	}
	vals = append(vals, -1, -2, -0x80, -0x7fffffff, 0x110000, 0x110001, 0x7fffffff, 0x200000)
	return vals
}

const sweepW, sweepH = 64, 16

func runBlock(sc SweepCase, vals []rune) error {
	switch sc.Path {
	case "set", "lastcol":
		r, err := tsrun.New(tsrun.Config{Entry: sc.Entry, Color: "shipped", Charset: sc.Charset, W: sweepW, H: sweepH})
		if err != nil {
			return err
		}
		if err := r.Init(); err != nil {
			return err
		}
		defer r.Close()
		i := 0
		for i < len(vals) {
			n := 0
			for y := 0; y < sweepH && i < len(vals); y++ {
				for x := 0; x < sweepW && i < len(vals); x++ {
					if sc.Path == "lastcol" && x != sweepW-1 {
						continue
					}
					if r.Caps.AMTrick && y == sweepH-1 && (x == sweepW-3 || x == sweepW-2) && shadow.RuneWidth(vals[i]) == 2 {
						// known finding C01-amtrick-wide-rune-at-corner: excluded by
						// construction so that the rest of the page is still decided
						pbt.Excluded(knownWideCorner)
						break // bottom row: the rune opens the next page instead
					}
					if _, err := r.Apply(tsrun.Op{Kind: "set", X: x, Y: y, R: vals[i]}); err != nil {
						return err
					}
					i++
					n++
				}
			}
			if _, err := r.Apply(tsrun.Op{Kind: "show"}); err != nil {
				return err
			}
			if err := checkCells(r); err != nil {
				return fmt.Errorf("%s/%s runes ending at index %d (U+%04X): %v", sc.Entry, sc.Charset, i, vals[i-1], err)
			}
			// wipe for the next page
			if _, err := r.Apply(tsrun.Op{Kind: "clear"}); err != nil {
				return err
			}
		}
		r.Close()
		return r.CheckStrict()
	case "fill":
		r, err := tsrun.New(tsrun.Config{Entry: sc.Entry, Color: "shipped", Charset: sc.Charset, W: 3, H: 1})
		if err != nil {
			return err
		}
		if err := r.Init(); err != nil {
			return err
		}
		defer r.Close()
		for _, v := range vals {
			if shadow.RuneWidth(v) > 1 {
				continue // Fill is documented as not supporting wide runes
			}
			if _, err := r.Apply(tsrun.Op{Kind: "fill", R: v}); err != nil {
				return err
			}
			if _, err := r.Apply(tsrun.Op{Kind: "show"}); err != nil {
				return err
			}
			if err := checkCells(r); err != nil {
				return fmt.Errorf("%s/%s Fill(U+%04X): %v", sc.Entry, sc.Charset, v, err)
			}
		}
		r.Close()
		return r.CheckStrict()
	}
	return fmt.Errorf("harness: unknown path %q", sc.Path)
}

func sweep(t *testing.T) {
	sw := pbt.NewSweep(t, "codepoints")
	var rc SweepCase
	if pbt.ReplayCase("codepoints", &rc) {
		var vals []rune
		for r := rc.From; r <= rc.To; r++ {
			vals = append(vals, r)
		}
		err := pbt.Safe(func() error { return runBlock(rc, vals) })
		sw.Case(true, 1, func() any { return rc }, err, knownSweep)
		pbt.Note(true, 2)
		return
	}
	if sw.Skip() {
		return
	}
	full := pbt.Thorough()
	ents := []string{"xterm-256color", "linux", "vt220"}
	if full {
		ents = entries
	}
	vals := sweepValues(full)
	var hostiles []rune
	for _, v := range vals {
		if hostile(v) || shadow.RuneWidth(v) == 2 && v < 0x3100 {
			hostiles = append(hostiles, v)
		}
	}
	item := 0
	const block = 8192
	for _, en := range ents {
		for _, cs := range []string{"UTF-8", "ISO8859-1", "KOI8-R"} {
			for _, path := range []string{"set", "fill", "lastcol"} {
				src := vals
				if path == "lastcol" {
					src = hostiles
				}
				if path == "fill" && !full {
					// quick: Fill over the hostile set and the BMP below U+3100
					src = nil
					for _, v := range vals {
						if hostile(v) || (v >= 0 && v < 0x3100) {
							src = append(src, v)
						}
					}
				}
				for from := 0; from < len(src); from += block {
					item++
					if !sw.Mine(item) {
						continue
					}
					if sw.Stop() {
						return
					}
					to := from + block
					if to > len(src) {
						to = len(src)
					}
					sc := SweepCase{Entry: en, Charset: cs, Path: path, From: src[from], To: src[to-1]}
					part := src[from:to]
					err := pbt.Safe(func() error { return runBlock(sc, part) })
					nh := 0
					for _, v := range part {
						if hostile(v) {
							nh++
						}
					}
					sw.Case(nh > 0, pbt.HashStr("cp", en, cs, path, fmt.Sprint(from)), func() any { return sc }, err, knownSweep)
					pbt.NoteN(int64(len(part) - 1))
					pbt.AddExtra("hostile_runes_placed", int64(nh))
				}
			}
		}
	}
	if full {
		pbt.Exhaustive("every rune value 0..0x10FFFF plus negative and > 0x10FFFF values as primary cell content through SetContent (64x16 pages) and through Fill (3x1 screen), hostile classes and wide runes additionally in the last column, x {UTF-8, ISO8859-1, KOI8-R} x every ECMA-48-family registered name")
	} else {
		pbt.Exhaustive("quick: all rune values below U+3100, U+D000..U+20000 and above U+E0000 plus a 1-in-5 / 1-in-11 sample of the CJK and astral ranges, negative and > 0x10FFFF values, through SetContent; Fill over all hostile runes and everything below U+3100; hostile classes in the last column; x {UTF-8, ISO8859-1, KOI8-R} x {xterm-256color, linux, vt220}")
	}
}

func knownSweep(err error) string {
	if strings.Contains(err.Error(), "["+knownFormat+"]") {
		return knownFormat
	}
	return ""
}

func TestProp(t *testing.T) {
	defer pbt.Recover(t)
	entries = tsrun.ECMAEntries()
	pbt.Describe("histories: the C01 history generator with rune weights shifted to hostile classes (C0, DEL, C1, zero-width, bidi/format, surrogates, negative, > 0x10FFFF) on screens >= 2 columns, locales UTF-8 / ISO8859-1 / KOI8-R, all ECMA-48-family names; codepoints: sweep of every rune value as primary content (see exhaustive_subspaces). Oracle: every byte tcell writes is tokenized by the strict reference terminal (complete CSI/OSC/ESC forms, numeric parameters only, no stray C0/C1/DEL, valid charset encoding, nothing pending after Show/Fini); in UTF-8 every printable token must land on the cell whose expected glyph it is (full display comparison); a cell whose primary rune is hostile must show a blank. Non-trivial = the case places a hostile rune; distinct = hash of the case / block.",
		"hostile = C0, DEL, C1, rune values outside 0..0x10FFFF, surrogates, zero width per go-runewidth, bidi controls / join controls / category Cf except the visible Arabic, Syriac and Kaithi prepended marks",
		"a surrogate may be shown as U+FFFD instead of a blank",
		"in the 8-bit locales only well-formedness and the blank rule are asserted here (what an unencodable rune becomes is C17's business)")
	sweep(t)
	pbt.Check(t, "histories", pbt.Pick(5000, 40000), pbt.Spec[Case]{Gen: genCase, Prop: prop, NonTrivial: nonTrivial, Classes: classes, Known: known})
}
