// C17 — legacy charsets: output valid in the locale encoding, with faithful fallbacks.
package c17

import (
	"fmt"
	"os"
	"sort"
	"strings"
	"testing"

	"github.com/gdamore/tcell/v2"
	"github.com/gdamore/tcell/v2/terminfo"
	"pgregory.net/rapid"

	"verifharness/internal/csets"
	"verifharness/internal/faketty"
	"verifharness/internal/pbt"
	"verifharness/internal/shadow"
	"verifharness/internal/tsrun"
	"verifharness/internal/vt"
)

func TestMain(m *testing.M) {
	csets.Init()
	// a description outside the built-in database whose acsc also carries pairs
	// for glyph names tcell has no rune for (the ncurses double-line extension
	// keys, mapped by the terminal onto its single-line glyphs), ahead of the
	// standard VT100 pairs
	if base, err := terminfo.LookupTerminfo("vt220"); err == nil {
		cp := *base
		cp.Name, cp.Aliases = "vt220+acsext", nil
		cp.AltChars = "RqYx" + cp.AltChars
		terminfo.AddTerminfo(&cp)
	}
	pbt.Main(m, "C17")
}

// terminfo(5) acsc glyph names -> the rune tcell documents for that glyph
// (its exported Rune* constants).
var acsNames = map[byte]rune{
	'+': tcell.RuneRArrow, ',': tcell.RuneLArrow, '-': tcell.RuneUArrow, '.': tcell.RuneDArrow,
	'0': tcell.RuneBlock, '`': tcell.RuneDiamond, 'a': tcell.RuneCkBoard, 'f': tcell.RuneDegree,
	'g': tcell.RunePlMinus, 'h': tcell.RuneBoard, 'i': tcell.RuneLantern, 'j': tcell.RuneLRCorner,
	'k': tcell.RuneURCorner, 'l': tcell.RuneULCorner, 'm': tcell.RuneLLCorner, 'n': tcell.RunePlus,
	'o': tcell.RuneS1, 'p': tcell.RuneS3, 'q': tcell.RuneHLine, 'r': tcell.RuneS7, 's': tcell.RuneS9,
	't': tcell.RuneLTee, 'u': tcell.RuneRTee, 'v': tcell.RuneBTee, 'w': tcell.RuneTTee, 'x': tcell.RuneVLine,
	'y': tcell.RuneLEqual, 'z': tcell.RuneGEqual, '{': tcell.RunePi, '|': tcell.RuneNEqual,
	'}': tcell.RuneSterling, '~': tcell.RuneBullet,
}

// acsBytes: for the entry's acsc string, rune -> set of bytes that denote it in
// the alternate character set (my own parse of the name/byte pairs).
func acsBytes(acsc string) map[rune]map[byte]bool {
	out := map[rune]map[byte]bool{}
	for i := 0; i+1 < len(acsc); i += 2 {
		if r, ok := acsNames[acsc[i]]; ok {
			if out[r] == nil {
				out[r] = map[byte]bool{}
			}
			out[r][acsc[i+1]] = true
		}
	}
	return out
}

type expect struct {
	kind string // self | acs | fallback | question | blank
	r    rune   // glyph for self/fallback/question/blank
	acs  map[byte]bool
}

// expectation for primary rune app (display width w) under the decision chain.
func expectCell(cs string, acs map[rune]map[byte]bool, hasAcsSwitch bool, fb map[rune]string, app rune, blank bool) expect {
	if blank {
		return expect{kind: "blank", r: ' '}
	}
	if b, ok := csets.EncodeLoose(cs, app); ok {
		if back, ok := csets.DecodeOne(cs, b); ok {
			return expect{kind: "self", r: back}
		}
		return expect{kind: "self", r: app}
	}
	if bs, ok := acs[app]; ok && len(bs) > 0 {
		return expect{kind: "acs", acs: bs}
	}
	if s, ok := fb[app]; ok && s != "" {
		return expect{kind: "fallback", r: rune(s[0])}
	}
	return expect{kind: "question", r: '?'}
}

// compare all visible cells with the decision chain.
func compare(r *tsrun.Runner, fb map[rune]string) error {
	if err := r.CheckStrict(); err != nil {
		return err
	}
	cs := r.Cfg.Charset
	acs := acsBytes(r.TI.AltChars)
	t, sh := r.Term, r.Shadow
	for y := 0; y < sh.H; y++ {
		row := sh.ExpectedRow(y)
		for x := 0; x < sh.W; x++ {
			v := row[x]
			if v.Hidden || sh.At(x, y).Locked {
				continue
			}
			c := t.At(x, y)
			e := expectCell(cs, acs, true, fb, v.R, v.Blank)
			base := c.Base
			if base == 0 {
				base = ' '
			}
			switch e.kind {
			case "acs":
				if !c.Alt || !e.acs[byte(c.Base)] {
					return fmt.Errorf("cell (%d,%d): U+%04X is not in %s and the description has an ACS glyph for it (bytes %v), but the terminal shows %q (alt=%v)", x, y, v.R, cs, keys(e.acs), c.Base, c.Alt)
				}
			default:
				if c.Alt {
					return fmt.Errorf("cell (%d,%d): U+%04X expected as %s %q but shown through the alternate character set (byte %q)", x, y, v.R, e.kind, e.r, c.Base)
				}
				if base != e.r {
					return fmt.Errorf("cell (%d,%d): U+%04X in %s on %s: expected %s %q, terminal shows %q", x, y, v.R, cs, r.Cfg.Entry, e.kind, e.r, base)
				}
			}
			// always occupying the cell's width
			wantW := v.Width
			if int(c.Width) != wantW && !(c.Base == 0 && wantW == 1) {
				// a substitute for a wide rune ("? " or a two-column fallback) is two narrow cells
				if wantW == 2 && e.kind == "fallback" && len(fb[v.R]) < 2 && c.Width == 1 {
					// narrower substitute than the documentation asks for: second column unspecified
				} else if wantW == 2 && (e.kind == "question" || e.kind == "fallback") && c.Width == 1 {
					n := t.At(x+1, y)
					if n.Width != 1 && n.Base != 0 {
						return fmt.Errorf("cell (%d,%d): substitute for wide U+%04X does not fill two columns", x, y, v.R)
					}
				} else {
					return fmt.Errorf("cell (%d,%d): U+%04X occupies %d column(s), expected %d", x, y, v.R, c.Width, wantW)
				}
			}
		}
	}
	return nil
}

func keys(m map[byte]bool) []string {
	var out []string
	for b := range m {
		out = append(out, fmt.Sprintf("%q", b))
	}
	sort.Strings(out)
	return out
}

// the documented default fallbacks, snapshotted once at start-up: a screen must
// not be able to change what later screens start with
var initialFallbacks = func() map[rune]string {
	m := map[rune]string{}
	for k, v := range tcell.RuneFallbacks {
		m[k] = v
	}
	return m
}()

func defaultFallbacks() map[rune]string {
	m := map[rune]string{}
	for k, v := range initialFallbacks {
		m[k] = v
	}
	return m
}

// ---------------------------------------------------------------- sweep

type SweepCase struct {
	Entry   string `json:"entry"`
	Charset string `json:"charset"`
	From    rune   `json:"from"`
	To      rune   `json:"to"`
	Step    int    `json:"step"`
}

const pageW, pageH = 64, 16

func runSweep(sc SweepCase) error {
	r, err := tsrun.New(tsrun.Config{Entry: sc.Entry, Color: "shipped", Charset: sc.Charset, W: pageW, H: pageH})
	if err != nil {
		return err
	}
	if err := r.Init(); err != nil {
		return err
	}
	defer r.Close()
	fb := defaultFallbacks()
	step := sc.Step
	if step < 1 {
		step = 1
	}
	rows := pageH
	if r.Caps.AMTrick {
		// known finding C01-amtrick-wide-rune-at-corner: keep wide runes (and
		// their two-column substitutes) away from the bottom-right corner
		rows = pageH - 1
		pbt.Excluded("C01-amtrick-wide-rune-at-corner")
	}
	v := sc.From
	for v <= sc.To {
		for y := 0; y < rows && v <= sc.To; y++ {
			for x := 0; x < pageW && v <= sc.To; {
				w := shadow.RuneWidth(v)
				if w == 2 && x == pageW-1 {
					x++
					continue
				}
				if _, err := r.Apply(tsrun.Op{Kind: "set", X: x, Y: y, R: v}); err != nil {
					return err
				}
				if w < 1 {
					w = 1
				}
				x += w
				v += rune(step)
			}
		}
		if _, err := r.Apply(tsrun.Op{Kind: "show"}); err != nil {
			return err
		}
		if err := compare(r, fb); err != nil {
			return fmt.Errorf("%s/%s page ending before U+%04X: %v", sc.Entry, sc.Charset, v, err)
		}
		// CanDisplay agreement for the runes on this page
		for y := 0; y < pageH; y++ {
			row := r.Shadow.ExpectedRow(y)
			for x := 0; x < pageW; x++ {
				if row[x].Hidden || row[x].Blank {
					continue
				}
				app := row[x].R
				if !csets.Printable(app) {
					continue
				}
				e := expectCell(sc.Charset, acsBytes(r.TI.AltChars), true, fb, app, false)
				want0 := e.kind == "self" || e.kind == "acs"
				want1 := want0 || e.kind == "fallback"
				if got := r.Screen.CanDisplay(app, false); got != want0 {
					return fmt.Errorf("%s/%s: CanDisplay(U+%04X,false)=%v but the rune is shown as %s", sc.Entry, sc.Charset, app, got, e.kind)
				}
				if got := r.Screen.CanDisplay(app, true); got != want1 {
					return fmt.Errorf("%s/%s: CanDisplay(U+%04X,true)=%v but the rune is shown as %s", sc.Entry, sc.Charset, app, got, e.kind)
				}
			}
		}
		if _, err := r.Apply(tsrun.Op{Kind: "clear"}); err != nil {
			return err
		}
	}
	return nil
}

var quickEntries = []string{"xterm", "linux", "ansi", "rxvt-unicode", "sun", "vt220", "vt220+acsext"}
var quickCharsets = []string{"ISO8859-1", "KOI8-R", "US-ASCII", "EUC-JP", "GBK", "ISO8859-7", "Big5", "UTF-8"}

func sweep(t *testing.T) {
	sw := pbt.NewSweep(t, "repertoire")
	var rc SweepCase
	if pbt.ReplayCase("repertoire", &rc) {
		sw.Case(true, 1, func() any { return rc }, pbt.Safe(func() error { return runSweep(rc) }), nil)
		pbt.Note(true, 2)
		return
	}
	if sw.Skip() {
		return
	}
	ents, sets := quickEntries, quickCharsets
	if pbt.Thorough() {
		ents, sets = tsrun.ECMAEntries(), csets.Stateless
	}
	item := 0
	for _, en := range ents {
		for _, cs := range sets {
			// ranges: Latin..symbols densely, CJK and the rest of the BMP sampled in quick
			type rg struct {
				from, to rune
				step     int
			}
			ranges := []rg{{0x20, 0x33ff, 1}, {0x3400, 0xffff, 9}, {0x1f300, 0x1f6ff, 5}, {0x20000, 0x2a6ff, 257}}
			if pbt.Thorough() {
				ranges = []rg{{0x20, 0xffff, 1}, {0x1f300, 0x1f6ff, 1}, {0x20000, 0x2a6ff, 101}}
			}
			for _, g := range ranges {
				const block = 4096
				for from := g.from; from <= g.to; from += rune(block * g.step) {
					item++
					if !sw.Mine(item) {
						continue
					}
					if sw.Stop() {
						return
					}
					to := from + rune(block*g.step) - 1
					if to > g.to {
						to = g.to
					}
					sc := SweepCase{Entry: en, Charset: cs, From: from, To: to, Step: g.step}
					err := pbt.Safe(func() error { return runSweep(sc) })
					sw.Case(cs != "UTF-8", pbt.HashStr("c17", en, cs, fmt.Sprint(from, g.step)), func() any { return sc }, err, nil)
					pbt.NoteN(int64((to - from) / rune(g.step)))
				}
			}
		}
	}
	if pbt.Thorough() {
		pbt.Exhaustive("every BMP rune from U+0020 (plus emoji block, sampled CJK ext. B) as cell content x every stateless registered charset + US-ASCII + UTF-8 x every ECMA-48-family registered name, with CanDisplay agreement for printable runes")
	} else {
		pbt.Exhaustive("quick: U+0020..U+33FF densely, rest of the BMP 1-in-9, emoji 1-in-5, x 8 charsets x {xterm, linux, ansi, rxvt-unicode, sun, vt220} (DEC ACS via ESC ( 0, via SO/SI, SCO font, extended acsc, no acsc, padded smacs)")
	}
}

// ---------------------------------------------------------------- fallback histories

type FbOp struct {
	Kind string `json:"op"` // set register unregister sync show
	X    int    `json:"x,omitempty"`
	Y    int    `json:"y,omitempty"`
	R    rune   `json:"r,omitempty"`
	Comb []rune `json:"comb,omitempty"`
	S    string `json:"s,omitempty"`
}

type FbCase struct {
	Entry   string `json:"entry"`
	Charset string `json:"charset"`
	W       int    `json:"w"`
	H       int    `json:"h"`
	Ops     []FbOp `json:"ops"`
	// PreInit: register / unregister calls made on the new screen before Init
	// (an application configuring its fallbacks first)
	PreInit []FbOp `json:"pre_init,omitempty"`
}

var fbRunes = []rune{'é', 'Ω', '€', 'Ж', '─', '│', '┌', '█', '°', '£', 'π', '→', '世', '界', 'あ', '😀', 'A', '~', '·', '≠', 'ß', '‰', '♥'}

func genFb(t *rapid.T) FbCase {
	c := FbCase{Entry: rapid.SampledFrom(append(append([]string{}, quickEntries...), "screen", "st", "aixterm", "beterm", "kterm", "dtterm")).Draw(t, "entry")}
	c.Charset = rapid.SampledFrom(csets.Stateless).Draw(t, "charset")
	c.W, c.H = rapid.IntRange(2, 8).Draw(t, "w"), rapid.IntRange(1, 3).Draw(t, "h")
	n := rapid.IntRange(2, 14).Draw(t, "n")
	for i := 0; i < n; i++ {
		switch rapid.IntRange(0, 9).Draw(t, "k") {
		case 0, 1, 2, 3:
			op := FbOp{Kind: "set", X: rapid.IntRange(0, c.W-1).Draw(t, "x"), Y: rapid.IntRange(0, c.H-1).Draw(t, "y"), R: rapid.SampledFrom(fbRunes).Draw(t, "r")}
			if rapid.IntRange(0, 4).Draw(t, "comb") == 0 {
				op.Comb = []rune{rapid.SampledFrom([]rune{0x0301, 0x0308, 0x20DD}).Draw(t, "cr")}
			}
			c.Ops = append(c.Ops, op)
		case 4, 5:
			r := rapid.SampledFrom(fbRunes).Draw(t, "fr")
			s := rapid.SampledFrom([]string{"x", "#", "*", "E", "o"}).Draw(t, "fs")
			if shadow.RuneWidth(r) == 2 {
				// "Z": a substitute narrower than the rune. The documentation asks for equal width, so what
				// the rune's own two columns then show is not compared - but every other cell must still
				// land in its own column
				s = rapid.SampledFrom([]string{"[]", "##", "JP", "Z"}).Draw(t, "fs2")
			}
			c.Ops = append(c.Ops, FbOp{Kind: "register", R: r, S: s})
		case 6:
			c.Ops = append(c.Ops, FbOp{Kind: "unregister", R: rapid.SampledFrom(fbRunes).Draw(t, "ur")})
		case 7:
			c.Ops = append(c.Ops, FbOp{Kind: "sync"})
		default:
			c.Ops = append(c.Ops, FbOp{Kind: "show"})
		}
	}
	c.Ops = append(c.Ops, FbOp{Kind: "sync"})
	if rapid.IntRange(0, 3).Draw(t, "preinit") == 0 {
		for i, n := 0, rapid.IntRange(1, 3).Draw(t, "npre"); i < n; i++ {
			if rapid.Bool().Draw(t, "preunreg") {
				c.PreInit = append(c.PreInit, FbOp{Kind: "unregister", R: rapid.SampledFrom(fbRunes).Draw(t, "pur")})
			} else {
				c.PreInit = append(c.PreInit, FbOp{Kind: "register", R: rapid.SampledFrom(fbRunes[:12]).Draw(t, "prr"), S: rapid.SampledFrom([]string{"x", "#", "o"}).Draw(t, "prs")})
			}
		}
	}
	return c
}

func fbProp(c FbCase) error {
	r, err := tsrun.New(tsrun.Config{Entry: c.Entry, Color: "shipped", Charset: c.Charset, W: c.W, H: c.H})
	if err != nil {
		return err
	}
	fb := defaultFallbacks()
	for _, op := range c.PreInit {
		if op.Kind == "register" {
			r.Screen.RegisterRuneFallback(op.R, op.S)
			fb[op.R] = op.S
		} else {
			r.Screen.UnregisterRuneFallback(op.R)
			delete(fb, op.R)
		}
	}
	if err := r.Init(); err != nil {
		return err
	}
	defer r.Close()
	// fallbacks in force when each cell was last painted are what it shows: only
	// full repaints (Sync) are compared after registration changes
	dirtyFb := false
	tainted := false
	for i, op := range c.Ops {
		switch op.Kind {
		case "set":
			if _, err := r.Apply(tsrun.Op{Kind: "set", X: op.X, Y: op.Y, R: op.R, Comb: op.Comb}); err != nil {
				return err
			}
		case "register":
			r.Screen.RegisterRuneFallback(op.R, op.S)
			fb[op.R] = op.S
			dirtyFb = true
		case "unregister":
			r.Screen.UnregisterRuneFallback(op.R)
			delete(fb, op.R)
			dirtyFb = true
		case "show", "sync":
			if _, err := r.Apply(tsrun.Op{Kind: op.Kind}); err != nil {
				return err
			}
			if op.Kind == "sync" {
				dirtyFb = false
			}
			if r.WideAtCornerOnTrickTerminal() {
				tainted = true
			}
			if dirtyFb || tainted {
				if err := r.CheckStrict(); err != nil && !tainted {
					return fmt.Errorf("step %d: %v", i, err)
				}
				continue
			}
			if err := compare(r, fb); err != nil {
				return fmt.Errorf("step %d (%s) on %s/%s: %v", i, op.Kind, c.Entry, c.Charset, err)
			}
			for _, pr := range fbRunes {
				e := expectCell(c.Charset, acsBytes(r.TI.AltChars), true, fb, pr, false)
				want0 := e.kind == "self" || e.kind == "acs"
				want1 := want0 || e.kind == "fallback"
				if r.Screen.CanDisplay(pr, false) != want0 || r.Screen.CanDisplay(pr, true) != want1 {
					return fmt.Errorf("step %d on %s/%s: CanDisplay(U+%04X) = (%v,%v), the rune would be shown as %s", i, c.Entry, c.Charset, pr, r.Screen.CanDisplay(pr, false), r.Screen.CanDisplay(pr, true), e.kind)
				}
			}
		}
	}
	return nil
}

func fbNonTrivial(c FbCase) bool {
	reg := false
	for _, op := range c.Ops {
		if op.Kind == "register" || op.Kind == "unregister" {
			reg = true
		}
		if op.Kind == "set" && reg {
			if _, ok := csets.EncodeLoose(c.Charset, op.R); !ok {
				return true
			}
		}
	}
	return false
}

// ---------------------------------------------------------------- which charset the locale selects

// LocaleCase: values of LC_ALL, LC_CTYPE and LANG ("-" = unset). POSIX: the first
// of them that is set to a non-empty value wins; the codeset is the part after
// '.', up to an optional '@modifier'; "C" and "POSIX" mean US-ASCII; no codeset
// means UTF-8 (the library's documented default).
type LocaleCase struct {
	LCAll   string `json:"lc_all"`
	LCCtype string `json:"lc_ctype"`
	Lang    string `json:"lang"`
}

func expectedCharset(c LocaleCase) string {
	loc := ""
	for _, v := range []string{c.LCAll, c.LCCtype, c.Lang} {
		if v != "-" && v != "" {
			loc = v
			break
		}
	}
	if loc == "C" || loc == "POSIX" {
		return "US-ASCII"
	}
	if i := strings.IndexByte(loc, '@'); i >= 0 {
		loc = loc[:i]
	}
	if i := strings.IndexByte(loc, '.'); i >= 0 {
		return loc[i+1:]
	}
	return "UTF-8"
}

func localeProp(c LocaleCase) error {
	set := func(k, v string) {
		if v == "-" {
			os.Unsetenv(k)
		} else {
			os.Setenv(k, v)
		}
	}
	set("LC_ALL", c.LCAll)
	set("LC_CTYPE", c.LCCtype)
	set("LANG", c.Lang)
	defer func() {
		os.Unsetenv("LC_CTYPE")
		os.Unsetenv("LANG")
		os.Setenv("LC_ALL", "en_US.UTF-8")
	}()
	base, err := terminfo.LookupTerminfo("xterm")
	if err != nil {
		return fmt.Errorf("harness: %v", err)
	}
	ti := *base
	ti.PadChar = ""
	tty := faketty.New(10, 2)
	term := (*vt.Term)(nil)
	want := expectedCharset(c)
	if enc := tcell.GetEncoding(want); enc != nil && !strings.EqualFold(want, "UTF-8") {
		term = vt.New(10, 2, enc, vt.Profile{})
	} else {
		term = vt.New(10, 2, nil, vt.Profile{})
	}
	tty.Sink = func(b []byte) { term.Write(b) }
	s, err := tcell.NewTerminfoScreenFromTtyTerminfo(tty, &ti)
	if err != nil {
		return fmt.Errorf("harness: %v", err)
	}
	if err := s.Init(); err != nil {
		return fmt.Errorf("Init with LC_ALL=%q LC_CTYPE=%q LANG=%q: %v (the locale selects %s)", c.LCAll, c.LCCtype, c.Lang, err, want)
	}
	defer s.Fini()
	if got := s.CharacterSet(); !strings.EqualFold(got, want) {
		return fmt.Errorf("LC_ALL=%q LC_CTYPE=%q LANG=%q: CharacterSet() = %q, the locale selects %q", c.LCAll, c.LCCtype, c.Lang, got, want)
	}
	// and the output really is in that charset: a rune outside it must not come out as raw UTF-8
	s.SetContent(0, 0, '€', nil, tcell.StyleDefault)
	s.SetContent(1, 0, 'Ж', nil, tcell.StyleDefault)
	s.Show()
	_ = tty.QueuedInput()
	if len(term.Errors) > 0 {
		return fmt.Errorf("LC_ALL=%q LC_CTYPE=%q LANG=%q (charset %s): output not valid in the locale's charset: %s", c.LCAll, c.LCCtype, c.Lang, want, strings.Join(term.Errors, "; "))
	}
	return nil
}

func localeSweep(t *testing.T) {
	sw := pbt.NewSweep(t, "locale")
	var rc LocaleCase
	if pbt.ReplayCase("locale", &rc) {
		sw.Case(true, 1, func() any { return rc }, pbt.Safe(func() error { return localeProp(rc) }), nil)
		pbt.Note(true, 2)
		return
	}
	if sw.Skip() {
		return
	}
	vals := []string{"-", "", "ru_RU.KOI8-R", "en_US.UTF-8", "C", "POSIX", "de_DE.ISO8859-15@euro", "ja_JP.EUC-JP", "el_GR.ISO8859-7", "en_US", "C.UTF-8", "POSIX.ISO8859-1"}
	item := 0
	for _, a := range vals {
		for _, b := range vals {
			for _, l := range vals {
				item++
				if !sw.Mine(item) {
					continue
				}
				c := LocaleCase{a, b, l}
				want := expectedCharset(c)
				sw.Case(!strings.EqualFold(want, "UTF-8"), pbt.HashStr("loc", a, b, l), func() any { return c }, pbt.Safe(func() error { return localeProp(c) }), nil)
			}
		}
	}
	pbt.Exhaustive("LC_ALL x LC_CTYPE x LANG each in {unset, empty, ru_RU.KOI8-R, en_US.UTF-8, C, POSIX, de_DE.ISO8859-15@euro, ja_JP.EUC-JP, el_GR.ISO8859-7, en_US, C.UTF-8, POSIX.ISO8859-1}: CharacterSet() and the charset of the bytes written follow the POSIX precedence")
}

func TestProp(t *testing.T) {
	defer pbt.Recover(t)
	pbt.Describe("repertoire: sweep of BMP runes (see exhaustive_subspaces) drawn on 64x16 pages by a real terminfo screen whose locale selects the charset; the reference terminal decodes the written bytes in the same charset (DEC special graphics via ESC ( 0 or SO/SI, SCO alternate font, the entry's own acsc pairs) and every cell must show: the rune itself if an independently instantiated encoder can encode it, else the ACS glyph the description provides for that rune, else the registered fallback, else '?', in exactly the cell's width; the stream must stay decodable (no raw UTF-8, no 0x1A); CanDisplay must agree for printable runes. locale: which charset LC_ALL / LC_CTYPE / LANG select (POSIX precedence, empty = unset, C/POSIX = US-ASCII, no codeset = UTF-8) checked through CharacterSet() and the bytes written; codeset-names: every documented codeset spelling against x/text code pages instantiated by the harness itself (the registry's name table is under test there); fallbacks: rapid histories of RegisterRuneFallback/UnregisterRuneFallback (1- and 2-column ASCII substitutes), draws and Sync. Non-trivial = charset other than UTF-8 (fallbacks: a rune not representable in the charset drawn after a registration change).",
		"an independently instantiated x/text encoder of the charset decides representability; the glyph shown is the decoding of those bytes",
		"the rune a terminfo ACS name stands for is tcell's documented Rune* constant; which bytes denote it on the entry comes from my own parse of the entry's acsc",
		"fallback strings match the rune's width as documented (1 column for narrow, 2 for wide runes); with a 1-column substitute for a wide rune only the other cells are compared (each must land in its own column); an unencodable combining rune is elided; CanDisplay of non-printing runes is unspecified",
		"after a registration change only full repaints (Sync) are compared: cells keep the substitute in force when they were painted")
	sweep(t)
	localeSweep(t)
	aliasSweep(t)
	pbt.Check(t, "fallbacks", pbt.Pick(4000, 40000), pbt.Spec[FbCase]{Gen: genFb, Prop: fbProp, NonTrivial: fbNonTrivial})
}
