package c17

// Which code page a codeset NAME selects, decided against code pages the harness takes
// straight from golang.org/x/text (not through tcell's registry, whose name -> encoding
// table is the thing under test here): every spelling the encoding package documents
// (canonical names and the "common aliases"), in the letter cases locales use.

import (
	"fmt"
	"os"
	"strings"
	"testing"

	"github.com/gdamore/tcell/v2"
	"github.com/gdamore/tcell/v2/terminfo"
	"golang.org/x/text/encoding"
	"golang.org/x/text/encoding/charmap"
	"golang.org/x/text/encoding/japanese"
	"golang.org/x/text/encoding/korean"
	"golang.org/x/text/encoding/simplifiedchinese"
	"golang.org/x/text/encoding/traditionalchinese"

	"verifharness/internal/csets"
	"verifharness/internal/faketty"
	"verifharness/internal/pbt"
	"verifharness/internal/shadow"
	"verifharness/internal/vt"
)

// my own reading of the names: ISO 8859 part N under its three customary spellings,
// KOI8, and the East Asian names of the package documentation
var refPages = func() map[string]encoding.Encoding {
	m := map[string]encoding.Encoding{}
	iso := map[string]encoding.Encoding{
		"1": charmap.ISO8859_1, "2": charmap.ISO8859_2, "3": charmap.ISO8859_3, "4": charmap.ISO8859_4,
		"5": charmap.ISO8859_5, "6": charmap.ISO8859_6, "7": charmap.ISO8859_7, "8": charmap.ISO8859_8,
		"9": charmap.ISO8859_9, "10": charmap.ISO8859_10, "13": charmap.ISO8859_13, "14": charmap.ISO8859_14,
		"15": charmap.ISO8859_15, "16": charmap.ISO8859_16,
	}
	for n, e := range iso {
		m["ISO8859-"+n] = e
		if n != "10" { // the package lists no alias spellings for part 10
			m["ISO-8859-"+n] = e
			m["8859-"+n] = e
		}
	}
	m["KOI8-R"], m["KOI8-U"] = charmap.KOI8R, charmap.KOI8U
	m["EUC-JP"], m["EUCJP"] = japanese.EUCJP, japanese.EUCJP
	m["SHIFT_JIS"], m["SJIS"] = japanese.ShiftJIS, japanese.ShiftJIS
	m["EUC-KR"], m["EUCKR"] = korean.EUCKR, korean.EUCKR
	m["GB18030"], m["GBK"] = simplifiedchinese.GB18030, simplifiedchinese.GBK
	m["Big5"] = traditionalchinese.Big5
	return m
}()

type AliasCase struct {
	Locale string `json:"locale"` // value of LC_ALL
	Name   string `json:"name"`   // key of refPages
}

// runes that tell the code page apart: every character of the upper half of a
// single-byte page; a spread of double-byte characters otherwise
func aliasProbe(ref encoding.Encoding, multi bool) []rune {
	var out []rune
	if !multi {
		dec := ref.NewDecoder()
		for b := 0xA0; b <= 0xFF; b++ {
			s, err := dec.Bytes([]byte{byte(b)})
			if err != nil {
				continue
			}
			rs := []rune(string(s))
			if len(rs) == 1 && rs[0] > 0x9f && csets.Printable(rs[0]) && shadow.RuneWidth(rs[0]) == 1 { // not U+00AD and other zero-width format characters, which a cell cannot hold
				out = append(out, rs[0])
			}
		}
		return out
	}
	enc := ref.NewEncoder()
	for _, r := range []rune{'あ', 'ア', '世', '界', '中', '文', '한', '글', '語', '、', '。', 'Ж', 'Ω', '①', '々', '㈱'} {
		if b, err := enc.Bytes([]byte(string(r))); err == nil && len(b) > 1 {
			out = append(out, r)
		}
	}
	return out
}

func aliasProp(c AliasCase) error {
	ref := refPages[c.Name]
	if ref == nil {
		return fmt.Errorf("harness: no reference page %q", c.Name)
	}
	multi := false
	switch c.Name {
	case "EUC-JP", "EUCJP", "SHIFT_JIS", "SJIS", "EUC-KR", "EUCKR", "GB18030", "GBK", "Big5":
		multi = true
	}
	os.Setenv("LC_ALL", c.Locale)
	defer os.Setenv("LC_ALL", "en_US.UTF-8")
	base, err := terminfo.LookupTerminfo("xterm")
	if err != nil {
		return fmt.Errorf("harness: %v", err)
	}
	ti := *base
	ti.PadChar = ""
	probe := aliasProbe(ref, multi)
	cols := 2
	if multi {
		cols = 3 // the widest of them are two columns; leave a gap
	}
	w, h := 16*cols, (len(probe)+15)/16+1
	tty := faketty.New(w, h)
	term := vt.New(w, h, ref, vt.Profile{})
	tty.Sink = func(b []byte) { term.Write(b) }
	s, err := tcell.NewTerminfoScreenFromTtyTerminfo(tty, &ti)
	if err != nil {
		return fmt.Errorf("harness: %v", err)
	}
	if err := s.Init(); err != nil {
		return fmt.Errorf("Init with LC_ALL=%q: %v (codeset %s is one the encoding package documents)", c.Locale, err, c.Name)
	}
	defer s.Fini()
	type at struct{ x, y int }
	pos := map[rune]at{}
	for i, r := range probe {
		p := at{(i % 16) * cols, i / 16}
		pos[r] = p
		s.SetContent(p.x, p.y, r, nil, tcell.StyleDefault)
	}
	s.Show()
	_ = tty.QueuedInput()
	if len(term.Errors) > 0 {
		return fmt.Errorf("LC_ALL=%q: output is not valid %s: %s", c.Locale, c.Name, strings.Join(term.Errors, "; "))
	}
	for _, r := range probe {
		p := pos[r]
		if got := term.At(p.x, p.y).Base; got != r {
			return fmt.Errorf("LC_ALL=%q: U+%04X %q is in %s, but a terminal using that code page shows %q at (%d,%d)", c.Locale, r, r, c.Name, got, p.x, p.y)
		}
		if !s.CanDisplay(r, false) {
			return fmt.Errorf("LC_ALL=%q: CanDisplay(U+%04X) is false although the rune is in %s", c.Locale, r, c.Name)
		}
	}
	return nil
}

func aliasSweep(t *testing.T) {
	sw := pbt.NewSweep(t, "codeset-names")
	var rc AliasCase
	if pbt.ReplayCase("codeset-names", &rc) {
		sw.Case(true, 1, func() any { return rc }, pbt.Safe(func() error { return aliasProp(rc) }), nil)
		pbt.Note(true, 2)
		return
	}
	if sw.Skip() {
		return
	}
	names := make([]string, 0, len(refPages))
	for n := range refPages {
		names = append(names, n)
	}
	sortStrings(names)
	item := 0
	for _, n := range names {
		for _, loc := range []string{"xx_XX." + n, "xx_XX." + strings.ToLower(n), "xx_XX." + strings.ToUpper(n) + "@euro"} {
			item++
			if !sw.Mine(item) {
				continue
			}
			c := AliasCase{Locale: loc, Name: n}
			sw.Case(true, pbt.HashStr("alias", loc), func() any { return c }, pbt.Safe(func() error { return aliasProp(c) }), nil)
		}
	}
	pbt.Exhaustive("every codeset spelling the encoding package documents (canonical names and aliases of the ISO 8859 parts, KOI8-R/U, EUC-JP/EUCJP, SHIFT_JIS/SJIS, EUC-KR/EUCKR, GB18030, GBK, Big5) x {as written, lower case, upper case with @modifier}: every character of the upper half of the page (a spread of double-byte characters for the East Asian sets) is shown as itself by a terminal decoding with the x/text code page the harness instantiates itself")
}

func sortStrings(s []string) {
	for i := 1; i < len(s); i++ {
		for j := i; j > 0 && s[j] < s[j-1]; j-- {
			s[j], s[j-1] = s[j-1], s[j]
		}
	}
}
