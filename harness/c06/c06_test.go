// C06 — Fini and Suspend always return; the screen is inert afterwards.
package c06

import (
	"flag"
	"fmt"
	"os"
	"runtime"
	"strings"
	"sync"
	"sync/atomic"
	"testing"
	"time"

	"github.com/gdamore/tcell/v2"
	"github.com/gdamore/tcell/v2/terminfo"
	"pgregory.net/rapid"

	"verifharness/internal/faketty"
	"verifharness/internal/pbt"
)

func TestMain(m *testing.M) {
	os.Setenv("LC_ALL", "en_US.UTF-8")
	os.Unsetenv("TCELL_ALTSCREEN")
	pbt.Main(m, "C06")
}

type Case struct {
	Entry      string   `json:"entry"`
	Unpolled   int      `json:"unpolled"`      // input events left unpolled at shutdown (0..40)
	Polled     int      `json:"polled"`        // events polled off before shutdown (varies the fill level)
	ReadErr    int      `json:"readerr"`       // -1 never; k: a read error is injected after k further chunks
	ErrData    bool     `json:"err_with_data"` // the failing Read also returns the last chunk (n > 0 together with the error)
	Cycles     int      `json:"cycles"`        // Suspend/Resume cycles before the final action
	CycleInput int      `json:"cycleinput"`    // unpolled input present at each intermediate Suspend
	ResizeAway bool     `json:"resize_away"`   // the window changes size while suspended and changes back after Resume
	Redundant  int      `json:"redundant"`     // bit 0: Resume while running (refused) before each Suspend; bit 1: Suspend twice
	Actors     []string `json:"actors"`        // goroutines running during shutdown
	Last       string   `json:"last"`          // fini | suspend
	Post       []string `json:"post"`          // calls made afterwards
}

const guardTime = 10 * time.Second

var postCalls = []string{"show", "sync", "clear", "setcontent", "size", "hidecursor", "showcursor", "enablemouse", "disablemouse", "enablepaste", "settitle", "beep", "setsize", "candisplay", "colors", "fill", "setstyle", "haspending", "postevent", "fini", "suspend", "getcontent", "lockregion", "characterset", "getclipboard"}

func genCase(t *rapid.T) Case {
	c := Case{Entry: rapid.SampledFrom([]string{"xterm", "xterm-256color", "linux", "vt100", "screen", "rxvt-unicode", "st", "ansi"}).Draw(t, "entry")}
	c.Unpolled = rapid.OneOf(rapid.IntRange(0, 40), rapid.SampledFrom([]int{0, 9, 10, 11, 20, 21, 22, 23, 30})).Draw(t, "unpolled")
	c.Polled = rapid.IntRange(0, 3).Draw(t, "polled")
	c.ReadErr = rapid.SampledFrom([]int{-1, -1, -1, 0, 1, 5, 12}).Draw(t, "readerr")
	c.ErrData = c.ReadErr >= 0 && rapid.Bool().Draw(t, "errdata")
	if c.ErrData && rapid.Bool().Draw(t, "errdatafull") {
		// the interesting state: both queues full when the failing read hands over its bytes
		c.Unpolled = rapid.IntRange(22, 40).Draw(t, "unpolledfull")
		c.Polled = 0
	}
	c.Cycles = rapid.SampledFrom([]int{0, 0, 1, 2, 3}).Draw(t, "cycles")
	c.CycleInput = rapid.SampledFrom([]int{0, 1, 10, 11, 25}).Draw(t, "cycleinput")
	c.ResizeAway = rapid.IntRange(0, 2).Draw(t, "resizeaway") == 0
	c.Redundant = rapid.SampledFrom([]int{0, 0, 1, 2, 3, 4, 4, 5, 7}).Draw(t, "redundant")
	all := []string{"poller", "poster", "resizer", "shower", "setter", "channel", "stalled-channel"}
	for _, a := range all {
		if rapid.IntRange(0, 2).Draw(t, "actor-"+a) == 0 {
			c.Actors = append(c.Actors, a)
		}
	}
	c.Last = rapid.SampledFrom([]string{"fini", "fini", "suspend"}).Draw(t, "last")
	if c.ErrData && rapid.Bool().Draw(t, "errdatasuspend") {
		c.Last = "suspend" // Fini has the quit channel to fall back on, Suspend has not
	}
	n := rapid.IntRange(0, 6).Draw(t, "npost")
	for i := 0; i < n; i++ {
		c.Post = append(c.Post, rapid.SampledFrom(postCalls).Draw(t, "post"))
	}
	return c
}

func guard(what string, f func()) error {
	done := make(chan any, 1)
	go func() {
		defer func() {
			done <- recover()
		}()
		f()
	}()
	select {
	case p := <-done:
		if p != nil {
			return fmt.Errorf("%s panicked: %v", what, p)
		}
		return nil
	case <-pbt.After(guardTime):
		return fmt.Errorf("%s did not return within %v; tcell goroutines:\n%s", what, guardTime, tcellStacks())
	}
}

// tcellStacks returns the stacks of goroutines that have a tcell frame.
func tcellStacks() string {
	buf := make([]byte, 1<<20)
	n := runtime.Stack(buf, true)
	var out []string
	for _, g := range strings.Split(string(buf[:n]), "\n\n") {
		if strings.Contains(g, "gdamore/tcell/v2.") {
			lines := strings.Split(g, "\n")
			if len(lines) > 12 {
				lines = lines[:12]
			}
			out = append(out, strings.Join(lines, "\n"))
		}
	}
	if len(out) > 6 {
		out = out[:6]
	}
	return strings.Join(out, "\n--\n")
}

// loopsAlive: goroutines of this screen's inputLoop/mainLoop still present?
// (identified by function name; cases run one at a time, leaked goroutines of a
// previous failed case are tolerated by comparing with a baseline count)
func loopCount() int {
	buf := make([]byte, 1<<20)
	n := runtime.Stack(buf, true)
	c := 0
	for _, g := range strings.Split(string(buf[:n]), "\n\n") {
		if strings.Contains(g, "(*tScreen).inputLoop") || strings.Contains(g, "(*tScreen).mainLoop") {
			if strings.Contains(g, "sync.(*WaitGroup).Done") {
				// inside its deferred wg.Done: wg.Wait cannot return before the
				// decrement, so a goroutine seen here after the wait has run all of
				// its code and is only unwinding
				continue
			}
			c++
		}
	}
	return c
}

// lingering: how many of the screen's loops are still there once goroutines
// that are merely unwinding had time to go. wg.Wait returns as soon as the
// last deferred wg.Done has decremented the counter; the goroutine that called
// it is then still visible to runtime.Stack for a moment (seen at the return
// line of the loop, state runnable, on a loaded machine). A goroutine that is
// really left behind is blocked and stays.
func lingering(baseline int) int {
	n := loopCount() - baseline
	for i := 0; i < 500 && n > 0; i++ {
		time.Sleep(2 * time.Millisecond)
		n = loopCount() - baseline
	}
	return n
}

func channelEventsCount() int {
	buf := make([]byte, 1<<20)
	n := runtime.Stack(buf, true)
	c := 0
	for _, g := range strings.Split(string(buf[:n]), "\n\n") {
		if strings.Contains(g, "(*baseScreen).ChannelEvents") {
			c++
		}
	}
	return c
}

func settle(tty *faketty.Tty) {
	// wait until the input pipeline stops taking chunks (all consumed, or every
	// queue along the way is full)
	last, same := -1, 0
	for i := 0; i < 2000 && same < 8; i++ {
		q := tty.QueuedInput()
		if q == 0 {
			// give the main loop a moment to move the last chunk into the event queue
			time.Sleep(2 * time.Millisecond)
			return
		}
		if q == last {
			same++
		} else {
			same, last = 0, q
		}
		time.Sleep(time.Millisecond)
	}
}

func prop(c Case) error {
	base, err := terminfo.LookupTerminfo(c.Entry)
	if err != nil {
		return fmt.Errorf("harness: %v", err)
	}
	ti := *base
	ti.PadChar = ""
	tty := faketty.New(20, 5)
	s, err := tcell.NewTerminfoScreenFromTtyTerminfo(tty, &ti)
	if err != nil {
		return fmt.Errorf("harness: %v", err)
	}
	baseline := loopCount()
	if err := s.Init(); err != nil {
		return fmt.Errorf("harness: Init: %v", err)
	}
	for s.HasPendingEvent() {
		s.PollEvent()
	}
	finalized := false
	defer func() {
		if !finalized {
			go s.Fini()
		}
	}()

	pollOne := func(d time.Duration) (tcell.Event, bool) {
		ch := make(chan tcell.Event, 1)
		go func() { ch <- s.PollEvent() }()
		select {
		case ev := <-ch:
			return ev, true
		case <-pbt.Idle(d):
			return nil, false
		}
	}

	// ---- Suspend/Resume cycles
	for cyc := 0; cyc < c.Cycles; cyc++ {
		for i := 0; i < c.CycleInput; i++ {
			tty.Feed([]byte("c"))
		}
		settle(tty)
		what := ""
		if c.Redundant&1 != 0 {
			// a Resume on a running screen is refused; it must not disturb anything
			what = " after a refused Resume on the running screen"
			if err := guard("Resume on a running screen", func() { _ = s.Resume() }); err != nil {
				return err
			}
		}
		if err := guard(fmt.Sprintf("Suspend (cycle %d, %d unpolled input events)%s", cyc, c.CycleInput, what), func() { _ = s.Suspend() }); err != nil {
			return err
		}
		if c.Redundant&2 != 0 {
			if err := guard("a second Suspend on the suspended screen", func() { _ = s.Suspend() }); err != nil {
				return err
			}
		}
		if n := lingering(baseline); n > 0 {
			return fmt.Errorf("after Suspend (cycle %d): %d tcell background goroutine(s) still running:\n%s", cyc, n, tcellStacks())
		}
		if c.ResizeAway {
			// the user resizes the window while another program has the terminal ...
			tty.SetSize(18, 4, false) // smaller than before
		}
		if c.Redundant&4 != 0 {
			// the terminal cannot be taken back at first (the tty's Start fails):
			// Resume reports that, and a later Resume succeeds
			tty.SetStartErr(fmt.Errorf("tty busy"))
			var ferr error
			if err := guard("Resume while the tty's Start fails", func() { ferr = s.Resume() }); err != nil {
				return err
			}
			tty.SetStartErr(nil)
			if ferr == nil {
				return fmt.Errorf("Resume (cycle %d) returned nil although the tty's Start failed", cyc)
			}
		}
		var rerr error
		if err := guard("Resume", func() { rerr = s.Resume() }); err != nil {
			return err
		}
		if rerr != nil {
			return fmt.Errorf("Resume (cycle %d): %v", cyc, rerr)
		}
		if c.ResizeAway {
			// ... and back to the old size right after we resumed
			tty.SetSize(20, 5, true)
			if err := guard(fmt.Sprintf("Show after Resume (cycle %d; window resized while suspended and back afterwards)", cyc), func() { s.Show() }); err != nil {
				return err
			}
			if err := guard("Size after Resume", func() { s.Size() }); err != nil {
				return err
			}
		}
		// drain whatever is queued, then input and resize delivery must work again
		deadline := time.Now().Add(pbt.IdleDur(5 * time.Second))
		for s.HasPendingEvent() || tty.QueuedInput() > 0 {
			if _, ok := pollOne(2 * time.Second); !ok || time.Now().After(deadline) {
				break
			}
		}
		tty.Feed([]byte("K"))
		gotKey := false
		for tries := 0; tries < 60 && !gotKey; tries++ {
			ev, ok := pollOne(5 * time.Second)
			if !ok {
				return fmt.Errorf("after Suspend+Resume (cycle %d): a key typed afterwards is not delivered within 5s;\n%s", cyc, tcellStacks())
			}
			if k, isKey := ev.(*tcell.EventKey); isKey && k.Rune() == 'K' {
				gotKey = true
			}
		}
		if !gotKey {
			return fmt.Errorf("after Suspend+Resume (cycle %d): the key typed afterwards never arrived", cyc)
		}
		tty.SetSize(21+cyc, 6, true)
		gotResize := false
		for tries := 0; tries < 20 && !gotResize; tries++ {
			ev, ok := pollOne(5 * time.Second)
			if !ok {
				return fmt.Errorf("after Suspend+Resume (cycle %d): a resize notification is not delivered within 5s;\n%s", cyc, tcellStacks())
			}
			if rz, isRz := ev.(*tcell.EventResize); isRz {
				if w, _ := rz.Size(); w == 21+cyc {
					gotResize = true
				}
			}
		}
		if !gotResize {
			return fmt.Errorf("after Suspend+Resume (cycle %d): the resize event never arrived", cyc)
		}
	}

	// ---- fill the queues
	tty.ErrWithData = c.ErrData
	for i := 0; i < c.Unpolled+c.Polled; i++ {
		tty.Feed([]byte("u"))
		if c.ReadErr >= 0 && i == c.ReadErr {
			tty.InjectReadError(faketty.ErrInjected)
		}
	}
	if c.ReadErr >= c.Unpolled+c.Polled {
		tty.InjectReadError(faketty.ErrInjected)
	}
	settle(tty)
	for i := 0; i < c.Polled; i++ {
		if _, ok := pollOne(5 * time.Second); !ok {
			break
		}
	}
	settle(tty)

	// ---- actors during shutdown
	var stop atomic.Bool
	var wg sync.WaitGroup
	var actorPanic atomic.Value
	catch := func(name string) {
		if p := recover(); p != nil {
			buf := make([]byte, 4096)
			n := runtime.Stack(buf, false)
			actorPanic.Store(fmt.Sprintf("%s goroutine panicked during %s: %v\n%s", name, c.Last, p, buf[:n]))
		}
	}
	chanEv := make(chan tcell.Event, 4)
	chanQuit := make(chan struct{})
	chanClosed := make(chan struct{})
	hasChannel := false
	stalled := false
	stalledCh := make(chan tcell.Event)
	stalledQuit := make(chan struct{})
	chanBaseline := channelEventsCount()
	for _, a := range c.Actors {
		switch a {
		case "poller":
			wg.Add(1)
			go func() {
				defer wg.Done()
				defer catch("poller")
				for !stop.Load() {
					if ev := s.PollEvent(); ev == nil {
						return
					}
				}
			}()
		case "poster":
			wg.Add(1)
			go func() {
				defer wg.Done()
				defer catch("poster")
				for !stop.Load() {
					_ = s.PostEvent(tcell.NewEventInterrupt(nil))
					runtime.Gosched()
				}
			}()
		case "resizer":
			wg.Add(1)
			go func() {
				defer wg.Done()
				defer catch("resizer")
				for i := 0; !stop.Load(); i++ {
					tty.SetSize(20+i%3, 5, true)
					runtime.Gosched()
				}
			}()
		case "shower":
			wg.Add(1)
			go func() {
				defer wg.Done()
				defer catch("shower")
				for i := 0; i < 30 && !stop.Load(); i++ {
					s.Show()
				}
			}()
		case "setter":
			wg.Add(1)
			go func() {
				defer wg.Done()
				defer catch("setter")
				for i := 0; !stop.Load(); i++ {
					s.SetContent(i%20, i%5, 'a'+rune(i%26), nil, tcell.StyleDefault)
					runtime.Gosched()
				}
			}()
		case "stalled-channel":
			// a ChannelEvents consumer that takes one event and then stops
			// receiving: the forwarding goroutine is parked on the hand-over
			stalled = true
			go func() {
				s.ChannelEvents(stalledCh, stalledQuit)
			}()
			go func() {
				<-stalledCh
			}()
			for i := 0; i < 3; i++ {
				_ = s.PostEvent(tcell.NewEventInterrupt("stall"))
			}
		case "channel":
			hasChannel = true
			go func() {
				s.ChannelEvents(chanEv, chanQuit)
			}()
			go func() {
				for range chanEv {
				}
				close(chanClosed)
			}()
		}
	}
	time.Sleep(200 * time.Microsecond)

	// ---- the terminal action
	desc := fmt.Sprintf("%s with %d unpolled input events, read error %d, actors %v", c.Last, c.Unpolled, c.ReadErr, c.Actors)
	if c.Last == "fini" {
		if err := guard("Fini ("+desc+")", func() { s.Fini() }); err != nil {
			stop.Store(true)
			return err
		}
		finalized = true
	} else {
		if err := guard("Suspend ("+desc+")", func() { _ = s.Suspend() }); err != nil {
			stop.Store(true)
			return err
		}
	}
	stop.Store(true)
	// a poller on a suspended screen legitimately blocks: wake it
	unblock := pbt.After(guardTime)
	actorsDone := make(chan struct{})
	go func() { wg.Wait(); close(actorsDone) }()
wait:
	for {
		select {
		case <-actorsDone:
			break wait
		case <-unblock:
			return fmt.Errorf("after %s: an application goroutine (%v) is still blocked in a Screen call after %v:\n%s", c.Last, c.Actors, guardTime, tcellStacks())
		default:
			if c.Last == "suspend" {
				_ = s.PostEvent(tcell.NewEventInterrupt("wake"))
			}
			time.Sleep(time.Millisecond)
		}
	}
	if p := actorPanic.Load(); p != nil {
		return fmt.Errorf("%v", p)
	}
	if n := lingering(baseline); n > 0 {
		return fmt.Errorf("after %s: %d tcell background goroutine(s) still running:\n%s", c.Last, n, tcellStacks())
	}

	if stalled {
		if c.Last != "fini" {
			close(stalledQuit)
		}
		// Fini (or quit) is the cancellation signal: the forwarding goroutine must
		// leave even though its consumer has stopped receiving, and close the channel
		deadline := time.Now().Add(pbt.IdleDur(5 * time.Second))
		for channelEventsCount() > chanBaseline && time.Now().Before(deadline) {
			time.Sleep(2 * time.Millisecond)
		}
		if n := channelEventsCount() - chanBaseline; n > 0 && !hasChannel {
			return fmt.Errorf("after %s: a ChannelEvents goroutine whose consumer stopped receiving is still parked (its channel is never closed):\n%s", c.Last, tcellStacks())
		}
		// ... and it closed the channel on its way out (events on their way may come first)
		closedGuard := pbt.After(5 * time.Second)
		for open, n := true, 0; open; n++ {
			select {
			case _, ok := <-stalledCh:
				open = ok
				if n > 16 {
					return fmt.Errorf("after %s: the stalled ChannelEvents channel keeps delivering instead of being closed", c.Last)
				}
			case <-closedGuard:
				return fmt.Errorf("after %s: the ChannelEvents goroutine whose consumer had stopped receiving left without closing its channel", c.Last)
			}
		}
	}
	if c.Last == "fini" {
		// PollEvent returns nil at once (stale queued events may come first)
		gotNil := false
		for i := 0; i < 12; i++ {
			ev, ok := pollOne(2 * time.Second)
			if !ok {
				return fmt.Errorf("after Fini: PollEvent blocks")
			}
			if ev == nil {
				gotNil = true
				break
			}
		}
		if !gotNil {
			return fmt.Errorf("after Fini: PollEvent still returns events after 12 calls instead of nil")
		}
		if hasChannel {
			select {
			case <-chanClosed:
			case <-pbt.After(5 * time.Second):
				return fmt.Errorf("after Fini: the ChannelEvents channel was not closed")
			}
		}
		before := len(tty.Log())
		if err := guard("second Fini", func() { s.Fini() }); err != nil {
			return err
		}
		if after := len(tty.Log()); after != before {
			return fmt.Errorf("second Fini is not a no-op: %d further tty calls", after-before)
		}
	} else if hasChannel {
		close(chanQuit)
		select {
		case <-chanClosed:
		case <-pbt.After(5 * time.Second):
			return fmt.Errorf("after quit: the ChannelEvents channel was not closed")
		}
	}

	// ---- the screen is inert: further calls return and do not panic
	for _, p := range c.Post {
		call := p
		if err := guard(fmt.Sprintf("%s after %s", call, c.Last), func() {
			switch call {
			case "show":
				s.Show()
			case "sync":
				s.Sync()
			case "clear":
				s.Clear()
			case "setcontent":
				s.SetContent(1, 1, 'x', nil, tcell.StyleDefault)
			case "size":
				s.Size()
			case "hidecursor":
				s.HideCursor()
			case "showcursor":
				s.ShowCursor(1, 1)
			case "enablemouse":
				s.EnableMouse()
			case "disablemouse":
				s.DisableMouse()
			case "enablepaste":
				s.EnablePaste()
			case "settitle":
				s.SetTitle("t")
			case "beep":
				_ = s.Beep()
			case "setsize":
				s.SetSize(30, 10)
			case "candisplay":
				s.CanDisplay('x', true)
			case "colors":
				s.Colors()
			case "fill":
				s.Fill('f', tcell.StyleDefault)
			case "setstyle":
				s.SetStyle(tcell.StyleDefault.Bold(true))
			case "haspending":
				s.HasPendingEvent()
			case "postevent":
				_ = s.PostEvent(tcell.NewEventInterrupt(1))
			case "fini":
				s.Fini()
				finalized = true
			case "suspend":
				_ = s.Suspend()
			case "getcontent":
				s.GetContent(0, 0)
			case "lockregion":
				s.LockRegion(0, 0, 2, 2, true)
			case "characterset":
				s.CharacterSet()
			case "getclipboard":
				s.GetClipboard()
			}
		}); err != nil {
			return err
		}
	}
	return nil
}

func nonTrivial(c Case) bool {
	// shutdown begun with the event queue full, or a read error pending
	return c.Unpolled >= 10 || c.ReadErr >= 0 || (c.Cycles > 0 && c.CycleInput >= 10)
}

func classes(c Case) []string {
	out := []string{"last:" + c.Last}
	switch {
	case c.Unpolled == 0:
		out = append(out, "queues-empty")
	case c.Unpolled < 10:
		out = append(out, "eventq-partly-filled")
	case c.Unpolled <= 21:
		out = append(out, "eventq-full-mainloop-parked")
	default:
		out = append(out, "both-queues-full-inputloop-parked")
	}
	if c.ReadErr >= 0 {
		out = append(out, "read-error")
	}
	if c.Cycles > 0 {
		out = append(out, "suspend-resume-cycles")
		if c.ResizeAway {
			out = append(out, "window-resized-while-suspended")
		}
		if c.Redundant != 0 {
			out = append(out, "redundant-resume-or-suspend")
		}
	}
	for _, a := range c.Actors {
		out = append(out, "actor:"+a)
	}
	for _, p := range c.Post {
		out = append(out, "post:"+p)
	}
	return out
}

func TestProp(t *testing.T) {
	defer pbt.Recover(t)
	_ = flag.Set("rapid.shrinktime", "40s")
	pbt.Describe("rapid shutdown programs on a real terminfo screen over a fake tty with real goroutines: number of unpolled input events 0..40 (every fill level of the event queue and the chunk queue, incl. main loop parked on a full event queue and input loop parked on a full chunk queue), events polled before shutdown, a tty read error injected at a chosen point or never, 0-3 Suspend/Resume cycles with unpolled input present (after each Resume a typed key and a resize notification must be delivered), concurrent actors during shutdown (poller, poster, resize notifier, Show loop, SetContent loop, ChannelEvents consumer), final action Fini or Suspend, then a list of further Screen calls. Oracle: every Fini/Suspend/Resume and every later call returns within a 10 s guard without panic (on timeout the stacks of goroutines with tcell frames are attached); no inputLoop/mainLoop goroutine remains; after Fini PollEvent yields nil within 12 calls, ChannelEvents channels are closed, a second Fini makes no tty call; devtty: the stock tty backend (tty_unix.go devTty) on the slave side of a fresh pseudo terminal: 1-25 Suspend/Resume cycles then Fini, with SIGWINCH signals arriving continuously, an optional poller and typed input; every Suspend/Resume/Fini returns within the guard and PollEvent returns nil afterwards. Non-trivial = shutdown begun with the event queue full or a read error pending; distinct = hash of the case.",
		"liveness is checked as 'returns within 10 s' (the calls need microseconds); schedules are whatever the Go scheduler produces around deterministically constructed queue states",
		"PollEvent after Fini may first hand out events that were already queued (at most the queue capacity) before returning nil",
		"a poller blocked in PollEvent on a suspended (not finalised) screen is legitimate and is woken by the harness")
	pbt.Check(t, "shutdown", pbt.Pick(180, 2500), pbt.Spec[Case]{Gen: genCase, Prop: prop, NonTrivial: nonTrivial, Classes: classes})
	pbt.Check(t, "devtty", pbt.Pick(16, 600), pbt.Spec[DevCase]{Gen: genDev, Prop: devProp,
		NonTrivial: func(c DevCase) bool { return c.Storm && c.Cycles >= 5 },
		Classes: func(c DevCase) []string {
			out := []string{"devtty:pty"}
			if c.Storm {
				out = append(out, "devtty:resize-signal-storm")
			}
			if c.Keys > 0 && !c.Poller {
				out = append(out, "devtty:unpolled-typed-input")
			}
			return out
		}})
}
