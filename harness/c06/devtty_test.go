package c06

import (
	"fmt"
	"os"
	"sync/atomic"
	"syscall"
	"time"

	"github.com/gdamore/tcell/v2"
	"github.com/gdamore/tcell/v2/terminfo"
	"golang.org/x/sys/unix"
	"pgregory.net/rapid"

	"verifharness/internal/pbt"
)

// DevCase drives the stock tty backend (devTty, tty_unix.go) - the code a fake
// Tty never reaches - on the slave side of a fresh pseudo terminal.
type DevCase struct {
	Entry  string `json:"entry"`
	Cycles int    `json:"cycles"` // Suspend/Resume cycles
	Storm  bool   `json:"storm"`  // window-size-change signals keep arriving throughout
	Poller bool   `json:"poller"` // an application goroutine polls throughout
	Keys   int    `json:"keys"`   // keys typed (written to the master side) before each Suspend, left unpolled when no poller runs
	Last   string `json:"last"`   // fini | suspend-fini
}

func genDev(t *rapid.T) DevCase {
	return DevCase{
		Entry:  rapid.SampledFrom([]string{"xterm-256color", "linux", "vt100"}).Draw(t, "entry"),
		Cycles: rapid.IntRange(1, 25).Draw(t, "cycles"),
		Storm:  rapid.IntRange(0, 3).Draw(t, "storm") != 0,
		Poller: rapid.Bool().Draw(t, "poller"),
		Keys:   rapid.SampledFrom([]int{0, 0, 1, 12, 40}).Draw(t, "keys"),
		Last:   rapid.SampledFrom([]string{"fini", "suspend-fini"}).Draw(t, "last"),
	}
}

func openPty() (*os.File, string, error) {
	m, err := os.OpenFile("/dev/ptmx", os.O_RDWR|syscall.O_NOCTTY, 0)
	if err != nil {
		return nil, "", err
	}
	fd := int(m.Fd())
	if err := unix.IoctlSetPointerInt(fd, unix.TIOCSPTLCK, 0); err != nil {
		_ = m.Close()
		return nil, "", err
	}
	n, err := unix.IoctlGetInt(fd, unix.TIOCGPTN)
	if err != nil {
		_ = m.Close()
		return nil, "", err
	}
	_ = unix.IoctlSetWinsize(fd, unix.TIOCSWINSZ, &unix.Winsize{Row: 24, Col: 80})
	return m, fmt.Sprintf("/dev/pts/%d", n), nil
}

var noPty atomic.Bool

func devProp(c DevCase) error {
	base, err := terminfo.LookupTerminfo(c.Entry)
	if err != nil {
		return fmt.Errorf("harness: %v", err)
	}
	ti := *base
	master, slave, err := openPty()
	if err != nil {
		if !noPty.Swap(true) {
			pbt.Inconclusive("no pseudo terminal available in this sandbox: " + err.Error())
		}
		return nil
	}
	defer master.Close()
	go func() { // the terminal: swallow what the screen writes
		b := make([]byte, 4096)
		for {
			if _, err := master.Read(b); err != nil {
				return
			}
		}
	}()
	tty, err := tcell.NewDevTtyFromDev(slave)
	if err != nil {
		return fmt.Errorf("harness: open %s: %v", slave, err)
	}
	s, err := tcell.NewTerminfoScreenFromTtyTerminfo(tty, &ti)
	if err != nil {
		return fmt.Errorf("harness: %v", err)
	}
	if err := s.Init(); err != nil {
		return fmt.Errorf("harness: Init: %v", err)
	}
	finished := false
	defer func() {
		if !finished {
			go s.Fini()
		}
	}()
	var stop atomic.Bool
	stormDone := make(chan struct{})
	go func() {
		defer close(stormDone)
		pid := os.Getpid()
		for c.Storm && !stop.Load() {
			_ = syscall.Kill(pid, syscall.SIGWINCH)
			time.Sleep(100 * time.Microsecond)
		}
	}()
	defer func() { stop.Store(true); <-stormDone }()
	if c.Poller {
		go func() {
			for s.PollEvent() != nil {
			}
		}()
	}
	for i := 0; i < c.Cycles; i++ {
		if c.Keys > 0 {
			_, _ = master.Write([]byte(fmt.Sprintf("%0*d", c.Keys, i)))
			time.Sleep(200 * time.Microsecond)
		}
		if err := guard(fmt.Sprintf("Suspend #%d on the stock tty backend (pty; resize signals arriving: %v)", i+1, c.Storm), func() { _ = s.Suspend() }); err != nil {
			return err
		}
		var rerr error
		if err := guard(fmt.Sprintf("Resume #%d on the stock tty backend", i+1), func() { rerr = s.Resume() }); err != nil {
			return err
		}
		if rerr != nil {
			return fmt.Errorf("Resume #%d on the stock tty backend: %v", i+1, rerr)
		}
	}
	if c.Last == "suspend-fini" {
		if err := guard("final Suspend on the stock tty backend", func() { _ = s.Suspend() }); err != nil {
			return err
		}
	}
	if err := guard(fmt.Sprintf("Fini on the stock tty backend (pty; resize signals arriving: %v)", c.Storm), func() { s.Fini() }); err != nil {
		return err
	}
	finished = true
	if err := guard("second Fini", func() { s.Fini() }); err != nil {
		return err
	}
	if ev, ok := func() (tcell.Event, bool) {
		ch := make(chan tcell.Event, 1)
		go func() {
			for i := 0; i < 40; i++ { // stale queued events may come first
				if ev := s.PollEvent(); ev == nil {
					ch <- nil
					return
				}
			}
			ch <- tcell.NewEventInterrupt(nil)
		}()
		select {
		case ev := <-ch:
			return ev, true
		case <-pbt.After(guardTime):
			return nil, false
		}
	}(); !ok || ev != nil {
		return fmt.Errorf("after Fini on the stock tty backend PollEvent does not return nil (returned in time: %v)", ok)
	}
	return nil
}
