//go:build js && wasm

// C19 — WebAssembly backend builds, renders faithfully and never wedges.
//
// The package only exists for GOOS=js GOARCH=wasm: the driver builds it with
// `go test -c` (that build is the "compiles against the common Screen
// interface" half of the property) and runs it under Node through
// harness/wasm_exec.sh.  tcell.NewScreen() is the wasm screen there
// (wscreen.go's NewTerminfoScreen; the console screen is a stub).
//
// Sub-checks: draw (rapid histories), keys / mouse / modes (enumerated
// callbacks), lifecycle (all 341 orders of Suspend/Resume/SetSize/Fini of
// length <= 4).
package c19

import (
	"fmt"
	"os"
	"strconv"
	"strings"
	"testing"
	"time"

	"github.com/gdamore/tcell/v2"

	"verifharness/internal/pbt"
)

func TestMain(m *testing.M) { pbt.Main(m, "C19") }

// after this many failures that each cost a full 2 s guard a sweep stops: the
// violations are recorded and the process has to finish inside its time box
const maxSlowFailures = 6

func TestProp(t *testing.T) {
	defer pbt.Recover(t)
	ensureStandIn()
	pbt.Describe("draw: rapid-generated histories (1..40 ops quick, 1..60 thorough, plus a final Show) of SetContent/SetCell/Fill/Clear/SetStyle/ShowCursor/HideCursor/SetCursorStyle/LockRegion/SetSize/SetTitle/Beep/Show/Sync on the js/wasm screen under Node, first resized to 0..8 x 0..5 (1 in 80 histories keeps the initial 80x24), coordinates -2..w+1, rune classes ascii/narrow/wide/control/C1/zero-width/invalid/astral, combining lists, styles incl. ColorNone/ColorReset/palette/RGB/underline styles and colours/URLs; the calls into JavaScript are recorded by a stand-in for webfiles/tcell.js and replayed on a model of its page grid, which is compared with an independent shadow model after every Show/Sync, together with the set of cells drawCell touched. Non-trivial = history with >= 2 Shows and an in-range content change between two of them; distinct = hash of the JSON case. keys: every name of tcell.WebKeyNames, every named key of my own KeyboardEvent.key table, the four modifier keys, printable ASCII and 10 non-ASCII characters x 16 modifier sets through onKeyEvent. mouse: onMouseClick/onMouseMove x which 0..3 x 8 modifier sets x 3 positions x all 8 mouse-flag subsets x 2-4 ways of enabling them. modes: onPaste/onFocus after 9 enable/disable histories. lifecycle: all 341 sequences over {Suspend,Resume,SetSize,Fini} of length 0..4, each call guarded (2 s), followed by Show + an injected key when the screen should be live (non-trivial = length >= 2).",
		"the JavaScript side is a recording stand-in for webfiles/tcell.js (defined from Go through eval); its page-grid model follows tcell.js: resize() and clearScreen() blank every node, drawCell replaces one node, show() refreshes and dereferences the cursor node",
		"soundness exclusion: right halves of wide runes are not compared",
		"soundness exclusion: the numeric value drawn for default/reset colours is not compared",
		"soundness exclusion: cells right of a wide rune that were written after it, and the wide rune's own cell, are not compared until the next Sync/SetSize (documented as undefined)",
		"soundness exclusion: cells that were locked before a size change are not compared until locked/unlocked again (lock state after a resize is not documented); locked cells are only required not to be drawn",
		"a cell that changed and changed back between two Shows, a cell that was given the NUL rune (kept as a blank by tcell, as in C08), the column next to a changed wide rune and every cell after a same-size SetSize may or may not be redrawn",
		"SetStyle is only given colours other than ColorNone/ColorReset; Fill only runes of width <= 1 (documented preconditions)",
		"go-runewidth with EastAsianWidth=false classifies rune widths; attribute bits are compared on the bits tcell.js reads (bold, blink, reverse, dim, italic, strikethrough)",
		"events of an application that polls: the event queue is drained after every SetSize",
		"keys: Backspace may be KeyBackspace or KeyBackspace2, Shift+Tab may be KeyTab+Shift or KeyBacktab, Ctrl+character may be the control key or the rune with ModCtrl; names only tcell's table knows must produce an EventKey with the given modifiers",
		"mouse: per the MouseFlags documentation every mode includes button events, drag and motion modes include drags, only motion mode includes motion without a button; which=0 clicks are not asserted",
		"lifecycle: calls which the two known lock leaks (ids C19-suspend-holds-lock, C19-resume-running-holds-lock) make block are given a 60 ms guard in the quick tier (2 s thorough); every other call gets 2 s")

	t0 := time.Now()
	lap := func(what string) {
		fmt.Printf("c19: %s took %.1fs\n", what, time.Since(t0).Seconds())
		pbt.Extra("seconds_"+what, time.Since(t0).Seconds())
		t0 = time.Now()
	}
	// ---- draw
	nDraw := pbt.Pick(5000, 40000)
	if v, err := strconv.Atoi(os.Getenv("VERIF_C19_DRAW_N")); err == nil && v > 0 {
		nDraw = v // debugging knob
	}
	pbt.Check(t, "draw", nDraw, pbt.Spec[DrawCase]{
		Gen:        genDraw,
		Prop:       runDraw,
		NonTrivial: drawNonTrivial,
		Classes:    drawClasses,
		Known:      knownDraw,
	})

	lap("draw")
	// ---- keys
	func() {
		sw := pbt.NewSweep(t, "keys")
		var rc KeyCase
		replaying := pbt.ReplayCase("keys", &rc)
		if !replaying && sw.Skip() {
			return
		}
		s, err := newLiveScreen()
		if err != nil {
			pbt.Inconclusive("keys: " + err.Error())
			return
		}
		defer func() { closeScreen(s) }()
		wedges := 0
		evalKey := func(c KeyCase) error {
			if wedges >= maxSlowFailures {
				return nil
			}
			err := guardedErr(fullGuard, func() string { return fmt.Sprintf("key case %+v", c) }, func() error { return keyProp(s, c) })
			if _, wedged := err.(*wedgeErr); wedged {
				wedges++
				s, _ = newLiveScreen() // never touch a wedged screen again
			}
			return err
		}
		if replaying {
			sw.Case(true, 1, func() any { return rc }, evalKey(rc), knownKey(rc))
			return
		}
		item := 0
		for _, name := range keyNames() {
			for m := 0; m < 16; m++ {
				item++
				if !sw.Mine(item) {
					continue
				}
				c := KeyCase{Name: name, Shift: m&1 != 0, Alt: m&2 != 0, Ctrl: m&4 != 0, Meta: m&8 != 0}
				class := keyClass(name)
				pbt.Class("keys:" + class)
				err := evalKey(c)
				sw.Case(class == "dom" || class == "char", pbt.HashStr("key", name, string(rune('a'+m))), func() any { return c }, err, knownKey(c))
			}
		}
		if wedges < maxSlowFailures {
			pbt.Exhaustive("keys: every name in tcell.WebKeyNames and in the harness' KeyboardEvent.key table x 16 modifier sets")
		}
	}()

	lap("keys")
	// ---- mouse
	func() {
		sw := pbt.NewSweep(t, "mouse")
		var rc MouseCase
		if pbt.ReplayCase("mouse", &rc) {
			err := guardedErr(fullGuard, func() string { return fmt.Sprintf("mouse case %+v", rc) }, func() error {
				s, err := prepMouse(rc.Flags, rc.How)
				if err != nil {
					return err
				}
				defer closeScreen(s)
				return mouseProp(s, rc)
			})
			sw.Case(true, 1, func() any { return rc }, err, knownMouse(rc))
			return
		}
		if sw.Skip() {
			return
		}
		item, wedges := 0, 0
		for flags := 0; flags <= fullMouseFlags; flags++ {
			for _, how := range mouseHows(flags) {
				item++
				if !sw.Mine(item) || wedges >= maxSlowFailures {
					continue
				}
				var s tcell.Screen
				prep := func() error {
					return guardedErr(fullGuard, func() string { return fmt.Sprintf("enabling mouse flags %d (%s)", flags, how) }, func() error {
						var err error
						s, err = prepMouse(flags, how)
						return err
					})
				}
				if err := prep(); err != nil {
					wedges++
					c := MouseCase{Flags: flags, How: how}
					sw.Case(true, pbt.HashStr("mouse-prep", how, string(rune('a'+flags))), func() any { return c }, err, nil)
					continue
				}
				for _, kind := range []string{"click", "move"} {
					for which := 0; which <= 3; which++ {
						for m := 0; m < 8; m++ {
							for pi, pos := range [][2]int{{0, 0}, {79, 23}, {17, 5}} {
								if wedges >= maxSlowFailures {
									continue
								}
								c := MouseCase{Flags: flags, How: how, Kind: kind, Which: which, Shift: m&1 != 0, Alt: m&2 != 0, Ctrl: m&4 != 0, X: pos[0], Y: pos[1]}
								switch mouseExpect(c) {
								case +1:
									pbt.Class("mouse:must-deliver")
								case -1:
									pbt.Class("mouse:must-not-deliver")
								default:
									pbt.Class("mouse:not-asserted")
								}
								err := guardedErr(fullGuard, func() string { return fmt.Sprintf("mouse case %+v", c) }, func() error { return mouseProp(s, c) })
								if _, wedged := err.(*wedgeErr); wedged {
									wedges++
									if prep() != nil {
										wedges = maxSlowFailures
									}
								}
								sw.Case(mouseExpect(c) != 0, pbt.HashStr("mouse", how, kind, string(rune('a'+flags)), string(rune('a'+which)), string(rune('a'+m)), string(rune('a'+pi))), func() any { return c }, err, knownMouse(c))
							}
						}
					}
				}
				closeScreen(s)
			}
		}
		if wedges < maxSlowFailures {
			pbt.Exhaustive("mouse: click/move callbacks x which 0..3 x 8 modifier sets x all 8 mouse-flag subsets (each enabled in every listed way)")
		}
	}()

	lap("mouse")
	// ---- paste / focus
	func() {
		sw := pbt.NewSweep(t, "modes")
		var rc ModeCase
		if pbt.ReplayCase("modes", &rc) {
			sw.Case(true, 1, func() any { return rc }, guardedErr(fullGuard, func() string { return fmt.Sprintf("mode case %+v", rc) }, func() error { return modeProp(rc) }), nil)
			return
		}
		if sw.Skip() {
			return
		}
		wedges := 0
		for i, c := range modeCases() {
			if !sw.Mine(i) || wedges >= maxSlowFailures {
				continue
			}
			c := c
			pbt.Class("modes:" + c.Kind)
			err := guardedErr(fullGuard, func() string { return fmt.Sprintf("mode case %+v", c) }, func() error { return modeProp(c) })
			if _, wedged := err.(*wedgeErr); wedged {
				wedges++
			}
			sw.Case(len(c.Hist) > 0, pbt.HashStr("mode", c.Kind, strings.Join(c.Hist, ","), c.Text, map[bool]string{true: "t", false: "f"}[c.Focused]), func() any { return c }, err, nil)
		}
	}()

	lap("modes")
	// ---- lifecycle
	func() {
		sw := pbt.NewSweep(t, "lifecycle")
		var rc LifeCase
		if pbt.ReplayCase("lifecycle", &rc) {
			sw.Case(true, 1, func() any { return rc }, pbt.Safe(func() error { return lifeProp(rc) }), knownLife)
			return
		}
		if sw.Skip() {
			return
		}
		unknownFails := 0
		for i, c := range lifeCases() {
			if !sw.Mine(i) {
				continue
			}
			if unknownFails >= maxSlowFailures {
				// every further sequence would cost its 2 s guards as well; the
				// violations are recorded, the run must stay inside its time box
				pbt.Class("lifecycle:skipped-after-repeated-failures")
				continue
			}
			c := c
			err := pbt.Safe(func() error { return lifeProp(c) })
			if err == nil {
				pbt.Class("lifecycle:all-calls-returned")
			} else {
				pbt.Class("lifecycle:failed")
				if knownLife(err) == "" {
					unknownFails++
				}
			}
			sw.Case(len(c.Seq) >= 2, pbt.HashStr("life", strings.Join(c.Seq, ",")), func() any { return c }, err, knownLife)
		}
		if unknownFails < maxSlowFailures {
			pbt.Exhaustive("lifecycle: all 341 sequences over {Suspend, Resume, SetSize, Fini} of length 0..4")
		}
	}()
	lap("lifecycle")
}
