//go:build js && wasm

package c19

// Sub-check "lifecycle": every sequence over {Suspend, Resume, SetSize, Fini}
// of length 0..4 on a fresh screen; every call must return (guarded), and a
// screen that is neither finalized nor left suspended must still show and
// deliver a key afterwards.

import (
	"fmt"
	"strings"
	"time"

	"github.com/gdamore/tcell/v2"

	"verifharness/internal/pbt"
)

const (
	idSuspendLock = "C19-suspend-holds-lock"
	idResumeLock  = "C19-resume-running-holds-lock"
)

type LifeCase struct {
	Seq []string `json:"seq"`
}

var lifeOps = []string{"Suspend", "Resume", "SetSize", "Fini"}

func lifeCases() []LifeCase {
	out := []LifeCase{{Seq: []string{}}}
	level := [][]string{{}}
	for n := 1; n <= 4; n++ {
		var next [][]string
		for _, p := range level {
			for _, op := range lifeOps {
				q := append(append([]string{}, p...), op)
				next = append(next, q)
				out = append(out, LifeCase{Seq: q})
			}
		}
		level = next
	}
	// SetSize meeting a full event queue (ten unpolled key events) from a
	// goroutine of its own, while the application makes other calls
	for _, q := range [][]string{{"SetSizeFullQueue"}, {"SetSizeFullQueue", "Suspend", "Resume"}, {"Suspend", "Resume", "SetSizeFullQueue"}, {"SetSize", "SetSizeFullQueue", "SetSize"}} {
		out = append(out, LifeCase{Seq: q})
	}
	return out
}

// guarded runs f in its own goroutine and reports whether it returned within d.
// (Under js/wasm goroutines are cooperative: f gets the processor as soon as
// this goroutine blocks in the select, and the timer can only fire once every
// goroutine is blocked, so a call that has not returned is stuck, not slow.)
func guarded(d time.Duration, f func()) (returned bool, panicked any) {
	done := make(chan any, 1)
	go func() {
		defer func() { done <- recover() }()
		f()
	}()
	select {
	case p := <-done:
		return true, p
	case <-time.After(d):
		return false, nil
	}
}

const fullGuard = 2 * time.Second

// wedgeErr: guarded harness code did not come back.
type wedgeErr struct{ msg string }

func (e *wedgeErr) Error() string { return e.msg }

// guardedErr runs a whole property evaluation under a guard, so that a call
// into tcell that never returns becomes a failure of the case instead of
// hanging the test process.  where() describes how far the evaluation got.
func guardedErr(d time.Duration, where func() string, f func() error) error {
	done := make(chan error, 1)
	go func() { done <- pbt.Safe(f) }()
	tm := time.NewTimer(d)
	defer tm.Stop()
	select {
	case e := <-done:
		return e
	case <-tm.C:
		return &wedgeErr{msg: fmt.Sprintf("a call into the screen did not return within %v (deadlock): %s", d, where())}
	}
}

// lifeErr carries the finding class of a failure (empty: unknown).
type lifeErr struct {
	msg   string
	class string
}

func (e *lifeErr) Error() string { return e.msg }

// leakWitness establishes, once per process and by direct observation, whether
// the two known defects are present in the tree under test: after Suspend
// (resp. Resume) on a freshly initialized screen, does a harmless locking call
// (Size) still return?  Only then may a later deadlock be attributed to them.
var leakWitness struct {
	done            bool
	suspend, resume bool
}

func observeLeaks() {
	if leakWitness.done {
		return
	}
	leakWitness.done = true
	probe := func(first func(s tcell.Screen)) bool {
		s, err := newLiveScreen()
		if err != nil {
			return false
		}
		if ok, pan := guarded(fullGuard, func() { first(s) }); !ok || pan != nil {
			return false
		}
		ok, _ := guarded(500*time.Millisecond, func() { s.Size() })
		if ok {
			closeScreen(s)
		}
		return !ok
	}
	leakWitness.suspend = probe(func(s tcell.Screen) { _ = s.Suspend() })
	leakWitness.resume = probe(func(s tcell.Screen) { _ = s.Resume() })
}

func lifeProp(c LifeCase) error {
	observeLeaks()
	s, err := newLiveScreen()
	if err != nil {
		return err
	}
	// Model of the two known lock leaks (only as far as observeLeaks saw them),
	// used ONLY to (a) classify a failure and (b) shorten the guard for calls the
	// known defect makes block: Suspend on a running screen and Resume on a
	// running screen return with the mutex held.  Calls that are not predicted to
	// block always get the full 2 s.
	// modes the application enabled before the lifecycle calls: they must be
	// in force again on a live screen afterwards (Resume re-applies them)
	s.EnableMouse(tcell.MouseButtonEvents)
	s.EnablePaste()
	running, fini := true, false
	leakedBy := ""
	knownGuard := time.Duration(pbt.Pick(60, 2000)) * time.Millisecond
	sizes := 0
	call := func(step int, name string, locks bool, f func()) error {
		d, class := fullGuard, ""
		if locks && leakedBy != "" {
			d, class = knownGuard, leakedBy
		}
		ok, pan := guarded(d, f)
		if pan != nil {
			return &lifeErr{msg: fmt.Sprintf("%v: call %d (%s) panicked: %v", c.Seq, step, name, pan)}
		}
		if !ok {
			why := ""
			if class != "" {
				why = " (an earlier call returned with the screen mutex held: " + class + ")"
			}
			return &lifeErr{msg: fmt.Sprintf("%v: call %d (%s) did not return within %v: deadlock%s", c.Seq, step, name, d, why), class: class}
		}
		return nil
	}
	for i, op := range c.Seq {
		var e error
		switch op {
		case "Suspend":
			e = call(i, op, true, func() { _ = s.Suspend() })
			if e == nil && running {
				running = false
				if leakedBy == "" && leakWitness.suspend {
					leakedBy = idSuspendLock
				}
			}
		case "Resume":
			e = call(i, op, true, func() { _ = s.Resume() })
			if e == nil {
				if running {
					if leakedBy == "" && leakWitness.resume {
						leakedBy = idResumeLock
					}
				} else {
					running = true
				}
			}
		case "SetSize":
			sizes++
			w, h := 40+sizes, 10+sizes
			e = call(i, op, false, func() { s.SetSize(w, h) })
		case "SetSizeFullQueue":
			if !running || fini {
				continue
			}
			for nextEvent(s, negativeWait) != nil { // start from an empty queue
			}
			for k := 0; k < 10; k++ {
				callback("onKeyEvent", "q", false, false, false, false)
			}
			sizes++
			w, h := 40+sizes, 10+sizes
			resized := make(chan struct{})
			go func() { s.SetSize(w, h); close(resized) }()
			time.Sleep(2 * time.Millisecond) // SetSize runs until it waits for room in the queue
			e = call(i, "Size while SetSize waits for room in the full event queue", true, func() { s.Size() })
			if e == nil {
				e = call(i, "Show while SetSize waits for room in the full event queue", true, func() { s.Show() })
			}
			if e == nil {
				for k := 0; k < 10; k++ {
					nextEvent(s, positiveWait)
				}
				e = call(i, "SetSize (after the application polled the queue empty)", false, func() { <-resized })
			}
		case "Fini":
			e = call(i, op, false, func() { s.Fini() })
			fini = true
		default:
			return fmt.Errorf("unknown lifecycle op %q", op)
		}
		if e != nil {
			return e // the screen may be wedged: never touch it again
		}
	}
	n := len(c.Seq)
	if fini {
		// "PollEvent ... will return nil if the Screen is finalized": it must at least return
		if e := call(n, "PollEvent after Fini", false, func() { _ = s.PollEvent() }); e != nil {
			return e
		}
		return nil
	}
	if !running {
		return nil // left suspended: nothing further is asserted
	}
	if e := call(n, "Show on the live screen", true, func() { s.Show() }); e != nil {
		return e
	}
	if !callback("onKeyEvent", "x", false, false, false, false) {
		return &lifeErr{msg: fmt.Sprintf("%v: onKeyEvent is not installed although the screen is live", c.Seq)}
	}
	for k := 0; k < 16; k++ {
		ev := nextEvent(s, positiveWait)
		if ev == nil {
			return &lifeErr{msg: fmt.Sprintf("%v: the live screen did not deliver the injected key", c.Seq)}
		}
		if ek, ok := ev.(*tcell.EventKey); ok {
			if ek.Key() != tcell.KeyRune || ek.Rune() != 'x' {
				return &lifeErr{msg: fmt.Sprintf("%v: injected key 'x' arrived as %s", c.Seq, describeEvent(ev))}
			}
			// the mouse and paste modes enabled before the sequence still work
			if !callback("onMouseClick", 3, 2, 1, false, false, false) {
				return &lifeErr{msg: fmt.Sprintf("%v: onMouseClick is not installed on the live screen although mouse events were enabled", c.Seq)}
			}
			mev := nextEvent(s, positiveWait)
			em, isMouse := mev.(*tcell.EventMouse)
			if !isMouse {
				return &lifeErr{msg: fmt.Sprintf("%v: mouse events were enabled before the lifecycle calls, but a click on the live screen afterwards delivered %s", c.Seq, describeEvent(mev))}
			}
			if x, y := em.Position(); x != 3 || y != 2 || em.Buttons() != tcell.Button1 {
				return &lifeErr{msg: fmt.Sprintf("%v: click at (3,2) arrived as %s", c.Seq, describeEvent(mev))}
			}
			if !callback("onPaste", true) {
				return &lifeErr{msg: fmt.Sprintf("%v: onPaste is not installed on the live screen although paste was enabled", c.Seq)}
			}
			pev := nextEvent(s, positiveWait)
			if ep, isPaste := pev.(*tcell.EventPaste); !isPaste || !ep.Start() {
				return &lifeErr{msg: fmt.Sprintf("%v: paste was enabled before the lifecycle calls, but a paste-start callback afterwards delivered %s", c.Seq, describeEvent(pev))}
			}
			closeScreen(s)
			return nil
		}
		// resize events posted by SetSize come first
	}
	return &lifeErr{msg: fmt.Sprintf("%v: no EventKey among the first 16 events", c.Seq)}
}

func knownLife(err error) string {
	if le, ok := err.(*lifeErr); ok && le.class != "" && strings.Contains(le.msg, "did not return within") {
		return le.class
	}
	return ""
}
