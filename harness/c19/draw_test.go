//go:build js && wasm

package c19

// Sub-check "draw": histories of drawing calls on the js/wasm screen; after
// every Show/Sync the page grid kept by the tcell.js stand-in must equal an
// independent shadow model of what the application last set, and drawCell may
// only have been called for cells that changed since the previous Show.

import (
	"fmt"
	"runtime"
	"strings"

	"github.com/gdamore/tcell/v2"
	runewidth "github.com/mattn/go-runewidth"
	"pgregory.net/rapid"

	"verifharness/internal/gen"
	"verifharness/internal/pbt"
)

type Op struct {
	Kind  string        `json:"op"`
	X     int           `json:"x,omitempty"`
	Y     int           `json:"y,omitempty"`
	R     rune          `json:"r,omitempty"`
	Comb  []rune        `json:"comb,omitempty"`
	Style gen.StyleSpec `json:"style"`
	W     int           `json:"w,omitempty"`
	H     int           `json:"h,omitempty"`
	On    bool          `json:"on,omitempty"`
	N     int           `json:"n,omitempty"`
	S     string        `json:"s,omitempty"`
}

type DrawCase struct {
	Ops []Op `json:"ops"`
}

// finding ids of the two draw-related divergences (see the final report)
const (
	idWideLastCol = "C19-wide-rune-last-column-not-blanked"
	idCursorOOB   = "C19-cursor-outside-grid-js-exception"
)

var rw = func() *runewidth.Condition {
	c := runewidth.NewCondition()
	c.EastAsianWidth = false
	return c
}()

func width(r rune) int { return rw.RuneWidth(r) }

// blank: control, zero-width and invalid primary runes are shown as a blank
func blankRune(r rune) bool { return r < ' ' || width(r) == 0 }
func isWide(r rune) bool    { return !blankRune(r) && width(r) >= 2 }

// ---------------------------------------------------------------- colours (own table)

var xterm16 = [16]int{
	0x000000, 0xcd0000, 0x00cd00, 0xcdcd00, 0x0000ee, 0xcd00cd, 0x00cdcd, 0xe5e5e5,
	0x7f7f7f, 0xff0000, 0x00ff00, 0xffff00, 0x5c5cff, 0xff00ff, 0x00ffff, 0xffffff,
}

func xterm256(n int) int {
	if n < 16 {
		return xterm16[n]
	}
	if n < 232 {
		n -= 16
		lv := [6]int{0, 95, 135, 175, 215, 255}
		return lv[n/36]<<16 | lv[(n/6)%6]<<8 | lv[n%6]
	}
	g := 8 + 10*(n-232)
	return g<<16 | g<<8 | g
}

// colourValue is the 24-bit value a colour must be drawn with; ok=false for the
// default / reset colours whose numeric stand-in is not compared.
func colourValue(c gen.ColorSpec) (int, bool) {
	switch c.Kind() {
	case "palette":
		return xterm256(c.N()), true
	case "rgb":
		return c.N(), true
	}
	return 0, false
}

// ---------------------------------------------------------------- shadow model

type mcell struct {
	r    rune
	comb []rune
	st   gen.StyleSpec

	// logical content at the last Show at which the cell could be drawn
	sValid bool
	sr     rune
	scomb  []rune
	sst    gen.StyleSpec

	touched bool // differed from the shown content at some point since / neighbour of a changed wide rune
	inval   bool // page wiped, unlocked, resized: has to be brought up to date
	locked  bool
	lockUnk bool // lock state not defined by the documentation (was locked before a size change)
	taint   bool // content was placed right of a wide rune: documented as undefined
}

type model struct {
	w, h   int
	cells  []mcell
	def    gen.StyleSpec
	cx, cy int
	prev   []pcell // page grid as it was after the previous Show (or the wipe by resize)
}

func newModel() *model {
	// the 80x24 grid is allocated on first use: most histories resize at once
	return &model{w: 80, h: 24, cx: -1, cy: -1}
}

func (m *model) ensure() {
	if m.cells == nil && m.w*m.h > 0 {
		m.cells = make([]mcell, m.w*m.h)
		for i := range m.cells {
			m.cells[i].inval = true
		}
	}
}

func (m *model) in(x, y int) bool     { return x >= 0 && y >= 0 && x < m.w && y < m.h }
func (m *model) at(x, y int) *mcell   { return &m.cells[y*m.w+x] }
func (m *model) cursorOutside() bool  { return m.cx >= 0 && m.cy >= 0 && (m.cx >= m.w || m.cy >= m.h) }
func (m *model) snapshot(p *page)     { m.prev = append(m.prev[:0], p.cells...) }

func eqRunes(a, b []rune) bool {
	if len(a) != len(b) {
		return false
	}
	for i := range a {
		if a[i] != b[i] {
			return false
		}
	}
	return true
}

func mergeStyle(n, old gen.StyleSpec) gen.StyleSpec {
	if n.Fg == "none" {
		n.Fg = old.Fg
	}
	if n.Bg == "none" {
		n.Bg = old.Bg
	}
	return n
}

func (c *mcell) sameAsShown() bool {
	return c.sValid && c.r == c.sr && eqRunes(c.comb, c.scomb) && c.st == c.sst
}

// displaysAsShown: the logical content may differ from the shown one only in a
// primary rune that is displayed as a blank either way (NUL, control,
// zero-width, invalid): not an observable change.
func (c *mcell) displaysAsShown() bool {
	return c.sValid && c.st == c.sst && cellText(c.r, c.comb) == cellText(c.sr, c.scomb) && isWide(c.r) == isWide(c.sr)
}

func (c *mcell) noteWrite() {
	// Storing NUL: tcell keeps NUL as a blank once the cell has been shown, so
	// storing NUL again counts as a change there; NUL and ' ' look the same and
	// the statement does not say which applies (same decision as in C08).
	if c.sValid && (!c.sameAsShown() || c.r == 0) {
		c.touched = true
	}
}

func (m *model) set(x, y int, r rune, comb []rune, st gen.StyleSpec) {
	if !m.in(x, y) {
		return
	}
	c := m.at(x, y)
	if x > 0 && isWide(m.at(x-1, y).r) {
		// "attempts to place character at next cell to the right will have undefined effects"
		c.taint = true
		m.at(x-1, y).taint = true
	}
	changed := r != c.r || !eqRunes(comb, c.comb)
	if changed && (isWide(c.r) || isWide(r)) && x+1 < m.w {
		// the column covered / uncovered by a changed wide rune may be redrawn
		m.at(x+1, y).touched = true
	}
	c.r = r
	c.comb = append([]rune{}, comb...)
	c.st = mergeStyle(st, c.st)
	c.noteWrite()
}

func (m *model) fill(r rune, st gen.StyleSpec) {
	for i := range m.cells {
		c := &m.cells[i]
		c.r, c.comb = r, nil
		c.st = mergeStyle(st, c.st)
		c.noteWrite()
	}
}

func (m *model) lockRegion(x, y, w, h int, lock bool) {
	for j := y; j < y+h; j++ {
		for i := x; i < x+w; i++ {
			if !m.in(i, j) {
				continue
			}
			c := m.at(i, j)
			c.lockUnk = false
			if lock {
				c.locked = true
			} else {
				c.locked = false
				c.inval = true
			}
		}
	}
}

func (m *model) invalidateAll() {
	for i := range m.cells {
		m.cells[i].inval = true
		m.cells[i].taint = false
	}
}

func (m *model) resize(w, h int) {
	if w == m.w && h == m.h {
		// the documentation says SetSize invalidates the cells; a repaint is acceptable
		for i := range m.cells {
			m.cells[i].touched = true
		}
		return
	}
	nc := make([]mcell, w*h)
	for i := range nc {
		nc[i].inval = true
	}
	for y := 0; m.cells != nil && y < h && y < m.h; y++ {
		for x := 0; x < w && x < m.w; x++ {
			o := m.at(x, y)
			n := &nc[y*w+x]
			n.r, n.comb, n.st = o.r, o.comb, o.st
			n.lockUnk = o.locked || o.lockUnk
		}
	}
	m.cells, m.w, m.h = nc, w, h
}

// ---------------------------------------------------------------- expectation

type want struct {
	texts         []string
	fg, bg, uc    int
	fgK, bgK, ucK bool
	attrs, us     int
}

func has(list []string, s string) bool {
	for _, x := range list {
		if x == s {
			return true
		}
	}
	return false
}

func cellText(r rune, comb []rune) string {
	b := make([]rune, 0, 1+len(comb))
	if blankRune(r) {
		r = ' '
	}
	b = append(b, r)
	b = append(b, comb...)
	return string(b)
}

func (m *model) want(c *mcell, lastColWide bool) want {
	var w want
	if lastColWide {
		// "Wide runes that are printed in the last column will be replaced with a
		// single width space on output."
		w.texts = []string{" ", cellText(' ', c.comb)}
	} else {
		w.texts = []string{cellText(c.r, c.comb)}
	}
	st := c.st
	if st == (gen.StyleSpec{}) {
		st = m.def
	}
	w.fg, w.fgK = colourValue(st.Fg)
	w.bg, w.bgK = colourValue(st.Bg)
	if st.Bold {
		w.attrs |= 1 << 0
	}
	if st.Blink {
		w.attrs |= 1 << 1
	}
	if st.Reverse {
		w.attrs |= 1 << 2
	}
	if st.Dim {
		w.attrs |= 1 << 4
	}
	if st.Italic {
		w.attrs |= 1 << 5
	}
	if st.Strike {
		w.attrs |= 1 << 6
	}
	w.us = st.Ul
	if st.Ul != 0 {
		w.uc, w.ucK = colourValue(st.UlColor)
	}
	return w
}

const attrCompareMask = 1<<0 | 1<<1 | 1<<2 | 1<<4 | 1<<5 | 1<<6 // the bits tcell.js reads

// styleMismatch compares everything but the text.
func (w want) styleMismatch(pc pcell) string {
	var d []string
	if !pc.Styled {
		// blank node left by clearScreen()/resize(): no colours, no attributes
		if w.fgK || w.bgK {
			d = append(d, "cell was never drawn (blank node without colours)")
		}
	} else {
		if w.fgK && pc.Fg != w.fg {
			d = append(d, fmt.Sprintf("fg %06x want %06x", pc.Fg, w.fg))
		}
		if w.bgK && pc.Bg != w.bg {
			d = append(d, fmt.Sprintf("bg %06x want %06x", pc.Bg, w.bg))
		}
	}
	if pc.Attrs&attrCompareMask != w.attrs {
		d = append(d, fmt.Sprintf("attrs %#x want %#x", pc.Attrs&attrCompareMask, w.attrs))
	}
	if pc.Us != w.us {
		d = append(d, fmt.Sprintf("underline style %d want %d", pc.Us, w.us))
	}
	if w.ucK && pc.Uc != w.uc {
		d = append(d, fmt.Sprintf("underline colour %06x want %06x", pc.Uc, w.uc))
	}
	return strings.Join(d, ", ")
}

func (w want) mismatch(pc pcell) string {
	d := w.styleMismatch(pc)
	if !has(w.texts, pc.Text) {
		t := fmt.Sprintf("text %+q want %+q", pc.Text, w.texts[0])
		if d != "" {
			return t + ", " + d
		}
		return t
	}
	return d
}

type softKnown struct {
	id  string
	msg string
}

// checkShow is called after a Show/Sync with the page brought up to date.
func (m *model) checkShow(p *page, step int, kind string, soft *[]softKnown) error {
	where := fmt.Sprintf("step %d (%s)", step, kind)
	if p.w != m.w || p.h != m.h {
		return fmt.Errorf("%s: page grid is %dx%d but the screen is %dx%d", where, p.w, p.h, m.w, m.h)
	}
	if p.shows == 0 || p.lastShowAt < p.lastDrawAt {
		return fmt.Errorf("%s: show() was not called after the last drawCell (%d show calls): the page is not refreshed", where, p.shows)
	}
	hidden := make([]bool, m.w)
	for y := 0; y < m.h; y++ {
		for x := range hidden {
			hidden[x] = false
		}
		for x := 0; x < m.w; {
			if isWide(m.at(x, y).r) && x+1 < m.w {
				hidden[x+1] = true
				x += 2
			} else {
				x++
			}
		}
		for x := 0; x < m.w; x++ {
			i := y*m.w + x
			c := &m.cells[i]
			pc := p.cells[i]
			drawn := p.draws[i] > 0
			if c.lockUnk || c.taint {
				continue
			}
			if c.locked {
				if drawn {
					return fmt.Errorf("%s: drawCell(%d,%d) although the cell is locked (LockRegion: a lock prevents the cell from being redrawn)", where, x, y)
				}
				continue
			}
			changed := !c.sValid || c.inval || !c.displaysAsShown()
			either := c.touched || !c.sameAsShown()
			may := changed || either
			if drawn && !may {
				return fmt.Errorf("%s: drawCell(%d,%d,%+q) although the cell did not change since the previous Show (rune %#x comb %x style %+v)", where, x, y, pc.Text, c.r, c.comb, c.st)
			}
			if hidden[x] {
				continue // right half of a wide rune: not compared
			}
			lastColWide := x == m.w-1 && isWide(c.r)
			w := m.want(c, lastColWide)
			var prev pcell
			havePrev := i < len(m.prev)
			if havePrev {
				prev = m.prev[i]
			}
			// the known divergence, observed exactly: the cell is the last column,
			// holds a wide rune, and the page shows that rune (with the right style)
			// where the documentation promises a single width space
			wideNotBlanked := func() bool {
				if lastColWide && w.styleMismatch(pc) == "" && pc.Text == string(append([]rune{c.r}, c.comb...)) {
					*soft = append(*soft, softKnown{idWideLastCol, fmt.Sprintf("%s: cell (%d,%d) is the last column of a %dx%d screen and holds the wide rune %+q: the page shows %+q, documented (Screen.SetContent) is a single width space", where, x, y, m.w, m.h, c.r, pc.Text)})
					return true
				}
				return false
			}
			switch {
			case changed:
				if d := w.mismatch(pc); d != "" && !wideNotBlanked() {
					return fmt.Errorf("%s: page cell (%d,%d) differs from the logical contents (rune %#x comb %x style %+v, default style %+v): %s; drawn in this Show: %v; page cell %+v", where, x, y, c.r, c.comb, c.st, m.def, d, drawn, pc)
				}
			case either:
				if d := w.mismatch(pc); d != "" && !(havePrev && pc == prev) && !wideNotBlanked() {
					return fmt.Errorf("%s: page cell (%d,%d) is neither the up-to-date rendering (%s) nor what the previous Show left (%+v): %+v", where, x, y, d, prev, pc)
				}
			default:
				if havePrev && pc != prev {
					return fmt.Errorf("%s: page cell (%d,%d) changed from %+v to %+v although the cell did not change and was not redrawn (page wiped?)", where, x, y, prev, pc)
				}
			}
			c.sValid, c.sr, c.scomb, c.sst = true, c.r, c.comb, c.st
			c.touched, c.inval = false, false
		}
	}
	m.snapshot(p)
	return nil
}

// ---------------------------------------------------------------- execution

func drain(s tcell.Screen) {
	for i := 0; i < 64 && s.HasPendingEvent(); i++ {
		s.PollEvent()
	}
}

var cursorStyles = []tcell.CursorStyle{
	tcell.CursorStyleDefault, tcell.CursorStyleBlinkingBlock, tcell.CursorStyleSteadyBlock,
	tcell.CursorStyleBlinkingUnderline, tcell.CursorStyleSteadyUnderline, tcell.CursorStyleBlinkingBar, tcell.CursorStyleSteadyBar,
}

// runDraw evaluates a history under a guard: a drawing call that never returns
// is a failure of the case ("never wedges"), not a hung test process.
func runDraw(c DrawCase) error {
	// js/wasm is single threaded and never preempts: yield once per case so that
	// the garbage collector's workers get to run (without this the heap grew to 2 GB)
	runtime.Gosched()
	at := "Init"
	return guardedErr(fullGuard, func() string { return "draw history stuck in " + at }, func() error { return runDrawSteps(c, &at) })
}

func runDrawSteps(c DrawCase, at *string) (err error) {
	freshPage()
	s, e := tcell.NewScreen()
	if e != nil || s == nil {
		return fmt.Errorf("NewScreen: %v", e)
	}
	if e := s.Init(); e != nil {
		return fmt.Errorf("Init: %v", e)
	}
	defer func() {
		// screens stay reachable through the js.FuncOf callbacks they installed:
		// drop the cell buffer so that thousands of cases fit in memory
		defer func() { _ = recover() }()
		drain(s)
		s.SetSize(0, 0)
		s.Fini()
	}()
	p := newPage()
	m := newModel()
	if e := p.pull(); e != nil {
		return e
	}
	m.snapshot(p)
	var soft []softKnown
	for i, op := range c.Ops {
		*at = fmt.Sprintf("step %d (%s)", i, op.Kind)
		p.beginOp()
		if op.Kind != "size" {
			m.ensure()
			p.ensure()
		}
		outBefore := m.cursorOutside()
		st := op.Style.Style()
		switch op.Kind {
		case "set":
			comb := append([]rune{}, op.Comb...)
			s.SetContent(op.X, op.Y, op.R, comb, st)
			for j := range comb {
				comb[j] = 'X' // the caller's slice must not be retained
			}
			m.set(op.X, op.Y, op.R, op.Comb, op.Style)
		case "setcell":
			if op.R == 0 && len(op.Comb) == 0 {
				s.SetCell(op.X, op.Y, st)
				m.set(op.X, op.Y, ' ', nil, op.Style)
			} else {
				s.SetCell(op.X, op.Y, st, append([]rune{op.R}, op.Comb...)...)
				m.set(op.X, op.Y, op.R, op.Comb, op.Style)
			}
		case "fill":
			s.Fill(op.R, st)
			m.fill(op.R, op.Style)
		case "clear":
			s.Clear()
			m.fill(' ', gen.StyleSpec{})
		case "style":
			s.SetStyle(st)
			m.def = op.Style
		case "cursor":
			s.ShowCursor(op.X, op.Y)
			m.cx, m.cy = op.X, op.Y
		case "hidecursor":
			s.HideCursor()
			m.cx, m.cy = -1, -1
		case "curstyle":
			cs := cursorStyles[op.N%len(cursorStyles)]
			if op.Style.Fg != "" {
				s.SetCursorStyle(cs, op.Style.Fg.Color())
			} else {
				s.SetCursorStyle(cs)
			}
		case "lock":
			s.LockRegion(op.X, op.Y, op.W, op.H, op.On)
			m.lockRegion(op.X, op.Y, op.W, op.H, op.On)
		case "size":
			s.SetSize(op.W, op.H)
			drain(s) // SetSize posts a resize event; an application polls its events
			m.resize(op.W, op.H)
		case "title":
			s.SetTitle(op.S)
		case "beep":
			_ = s.Beep()
		case "show":
			s.Show()
		case "sync":
			s.Sync()
			m.invalidateAll()
		default:
			return fmt.Errorf("unknown op %q", op.Kind)
		}
		if e := p.pull(); e != nil {
			return e
		}
		where := fmt.Sprintf("step %d (%s)", i, op.Kind)
		if len(p.bad) > 0 {
			return fmt.Errorf("%s: %s", where, strings.Join(p.bad, "; "))
		}
		if len(p.jsErrs) > 0 {
			msg := fmt.Sprintf("%s: webfiles/tcell.js would throw: %s (application cursor %d,%d, screen %dx%d; Screen.ShowCursor: coordinates outside the dimensions of the screen hide the cursor)", where, strings.Join(p.jsErrs, "; "), m.cx, m.cy, m.w, m.h)
			cursorErr := true
			for _, je := range p.jsErrs {
				if !strings.Contains(je, "cursor") {
					cursorErr = false
				}
			}
			if cursorErr && (outBefore || m.cursorOutside()) {
				soft = append(soft, softKnown{idCursorOOB, msg})
			} else {
				return fmt.Errorf("%s", msg)
			}
			p.jsErrs = nil
		}
		isShow := op.Kind == "show" || op.Kind == "sync"
		if !isShow && p.drawTotal > 0 {
			return fmt.Errorf("%s: %d drawCell calls outside Show/Sync (results are not displayed until Show() or Sync() is called)", where, p.drawTotal)
		}
		if op.Kind == "size" {
			if p.w != m.w || p.h != m.h {
				return fmt.Errorf("%s: after SetSize(%d,%d) the page grid is %dx%d", where, op.W, op.H, p.w, p.h)
			}
			m.snapshot(p)
		}
		if isShow {
			if e := m.checkShow(p, i, op.Kind, &soft); e != nil {
				return e
			}
		}
	}
	if len(soft) > 0 {
		return fmt.Errorf("KNOWN-CLASS[%s] %s (and %d more of a known class in this history)", soft[0].id, soft[0].msg, len(soft)-1)
	}
	return nil
}

func knownDraw(_ DrawCase, err error) string {
	msg := err.Error()
	for _, id := range []string{idWideLastCol, idCursorOOB} {
		if strings.HasPrefix(msg, "KNOWN-CLASS["+id+"]") {
			return id
		}
	}
	return ""
}

// ---------------------------------------------------------------- generator

var wideRunes = []rune{'世', '界', '日', '한', 'あ', 'Ａ', '😀', '🚀'}

func genDraw(t *rapid.T) DrawCase {
	var c DrawCase
	w, h := 80, 24
	big := rapid.IntRange(0, 79).Draw(t, "big") == 41 // (rapid favours the bounds: a mid value keeps this rare)
	maxOps := pbt.Pick(40, 60)
	if big {
		maxOps = 10
	} else {
		w = rapid.SampledFrom([]int{0, 1, 2, 3, 3, 4, 4, 5, 5, 6, 7, 8}).Draw(t, "w0")
		h = rapid.SampledFrom([]int{0, 1, 1, 2, 2, 3, 3, 4, 5}).Draw(t, "h0")
		c.Ops = append(c.Ops, Op{Kind: "size", W: w, H: h})
	}
	n := rapid.IntRange(1, maxOps).Draw(t, "n")
	coordX := func() int { return rapid.IntRange(-2, w+1).Draw(t, "x") }
	coordY := func() int { return rapid.IntRange(-2, h+1).Draw(t, "y") }
	inX := func() int {
		if w <= 0 {
			return 0
		}
		return rapid.IntRange(0, w-1).Draw(t, "ix")
	}
	inY := func() int {
		if h <= 0 {
			return 0
		}
		return rapid.IntRange(0, h-1).Draw(t, "iy")
	}
	var lastSet *Op
	for i := 0; i < n; i++ {
		k := rapid.IntRange(0, 39).Draw(t, "kind")
		var op Op
		switch {
		case k <= 13:
			op = Op{Kind: "set", X: coordX(), Y: coordY(), R: gen.Rune(t, "r", false), Comb: gen.Comb(t, "comb"), Style: ulOnly(t, gen.Style(t, "st", true, true))}
		case k <= 16:
			if lastSet != nil {
				// store identical (or nearly identical) content again
				op = *lastSet
				switch rapid.IntRange(0, 3).Draw(t, "tweak") {
				case 0:
					op.Style = gen.Style(t, "st2", true, true)
				case 1:
					op.R = gen.Rune(t, "r2", false)
				}
			} else {
				op = Op{Kind: "set", X: inX(), Y: inY(), R: 'a'}
			}
		case k == 17:
			op = Op{Kind: "setcell", X: coordX(), Y: coordY(), Style: gen.Style(t, "st", true, false)}
			if rapid.IntRange(0, 3).Draw(t, "empty") != 0 {
				op.R = gen.Rune(t, "r", false)
				op.Comb = gen.Comb(t, "comb")
			}
		case k <= 19:
			// wide runes, over-representing the last column and neighbours
			x := inX()
			switch rapid.IntRange(0, 3).Draw(t, "wx") {
			case 0:
				x = w - 1
			case 1:
				x = w - 2
			}
			op = Op{Kind: "set", X: x, Y: inY(), R: rapid.SampledFrom(wideRunes).Draw(t, "wr"), Style: gen.Style(t, "st", true, false)}
		case k == 20:
			op = Op{Kind: "fill", R: gen.FillRune(t, "fr", false), Style: gen.Style(t, "fst", true, false)}
		case k == 21:
			op = Op{Kind: "clear"}
		case k == 22:
			op = Op{Kind: "style", Style: gen.Style(t, "def", false, false)}
		case k == 23:
			switch rapid.IntRange(0, 9).Draw(t, "cur") {
			case 0:
				op = Op{Kind: "cursor", X: coordX(), Y: coordY()}
			case 1:
				op = Op{Kind: "cursor", X: rapid.IntRange(-1, 100).Draw(t, "cx"), Y: rapid.IntRange(-1, 100).Draw(t, "cy")}
			case 2:
				op = Op{Kind: "hidecursor"}
			case 3:
				op = Op{Kind: "curstyle", N: rapid.IntRange(0, 6).Draw(t, "cs"), Style: gen.StyleSpec{Fg: gen.Color(t, "cc", false)}}
			default:
				op = Op{Kind: "cursor", X: inX(), Y: inY()}
			}
		case k <= 25:
			op = Op{Kind: "lock", X: coordX(), Y: coordY(), W: rapid.IntRange(-1, 3).Draw(t, "lw"), H: rapid.IntRange(-1, 3).Draw(t, "lh"), On: rapid.IntRange(0, 2).Draw(t, "lon") != 0}
		case k <= 33:
			op = Op{Kind: "show"}
		case k == 34:
			op = Op{Kind: "sync"}
		case k == 35:
			if big {
				op = Op{Kind: "show"}
			} else {
				op = Op{Kind: "size", W: rapid.IntRange(0, 9).Draw(t, "nw"), H: rapid.IntRange(0, 6).Draw(t, "nh")}
				if rapid.IntRange(0, 5).Draw(t, "same") == 0 {
					op.W, op.H = w, h
				}
				w, h = op.W, op.H
			}
		case k == 36:
			if rapid.Bool().Draw(t, "beep") {
				op = Op{Kind: "beep"}
			} else {
				op = Op{Kind: "title", S: rapid.StringN(0, 8, 16).Draw(t, "title")}
			}
		default:
			op = Op{Kind: "set", X: inX(), Y: inY(), R: gen.Rune(t, "r", false), Comb: gen.Comb(t, "comb"), Style: ulOnly(t, gen.Style(t, "st", true, false))}
		}
		if op.Kind == "set" {
			o := op
			lastSet = &o
		}
		c.Ops = append(c.Ops, op)
	}
	c.Ops = append(c.Ops, Op{Kind: "show"})
	return c
}

// dims replays the size ops (for classification only).
func drawWalk(c DrawCase, f func(op Op, w, h int)) {
	w, h := 80, 24
	for _, op := range c.Ops {
		f(op, w, h)
		if op.Kind == "size" {
			w, h = op.W, op.H
		}
	}
}

func drawNonTrivial(c DrawCase) bool {
	shows, changeSince, ok := 0, false, false
	drawWalk(c, func(op Op, w, h int) {
		switch op.Kind {
		case "show", "sync":
			if shows > 0 && changeSince {
				ok = true
			}
			shows++
			changeSince = false
		case "set", "setcell":
			if op.X >= 0 && op.Y >= 0 && op.X < w && op.Y < h {
				changeSince = true
			}
		case "fill", "clear":
			if w > 0 && h > 0 {
				changeSince = true
			}
		}
	})
	return ok
}

func drawClasses(c DrawCase) []string {
	seen := map[string]bool{}
	var out []string
	add := func(s string) {
		if !seen[s] {
			seen[s] = true
			out = append(out, s)
		}
	}
	idx := -1
	drawWalk(c, func(op Op, w, h int) {
		idx++
		if idx == 0 && op.Kind != "size" {
			add("initial-80x24")
		}
		switch op.Kind {
		case "set", "setcell":
			in := op.X >= 0 && op.Y >= 0 && op.X < w && op.Y < h
			if !in {
				add("out-of-range-write")
			}
			if isWide(op.R) {
				add("wide-rune")
				if in && op.X == w-1 {
					add("wide-rune-last-column")
				}
			} else if op.R != 0 && blankRune(op.R) {
				add("control-or-zero-width-rune")
			}
			if len(op.Comb) > 0 {
				add("combining")
			}
			if op.Style.Fg == "none" || op.Style.Bg == "none" {
				add("colornone")
			}
			if op.Style.Fg.Kind() == "palette" && op.Style.Fg.N() < 16 || op.Style.Bg.Kind() == "palette" && op.Style.Bg.N() < 16 {
				add("basic-16-colour")
			}
			if op.Style.Ul != 0 {
				add("underline")
			}
		case "cursor":
			if op.X >= w || op.Y >= h {
				add("cursor-beyond-grid")
			}
		case "fill", "clear", "lock", "sync", "style":
			add(op.Kind)
		case "size":
			if idx > 0 {
				add("resize")
			}
		}
	})
	return out
}

// ulOnly turns a third of the underlined styles into styles whose underline style and colour are
// kept while the underline attribute bit is cleared again (Underline(...) followed by Attributes(...)),
// half of those with nothing else set: the logical contents still say "underlined".
func ulOnly(t *rapid.T, s gen.StyleSpec) gen.StyleSpec {
	if s.Ul != 0 && rapid.IntRange(0, 2).Draw(t, "ulonly") == 0 {
		s.UlOnly = true
		if rapid.Bool().Draw(t, "ulbare") {
			s.Fg, s.Bg = "", ""
			s.Bold, s.Blink, s.Reverse, s.Dim, s.Italic, s.Strike = false, false, false, false, false, false
		}
	}
	return s
}
