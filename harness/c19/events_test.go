//go:build js && wasm

package c19

// Sub-checks "keys", "mouse" and "modes": the callbacks webfiles/tcell.js
// invokes (onKeyEvent, onMouseClick, onMouseMove, onPaste, onFocus) must become
// the corresponding tcell events.

import (
	"fmt"
	"sort"
	"strings"
	"time"
	"unicode/utf8"

	"github.com/gdamore/tcell/v2"
)

const (
	idDomKeyNames  = "C19-dom-key-name-unmapped"
	idClickNoFlag  = "C19-click-ignored-without-button-flag"
	positiveWait   = 10 * time.Millisecond
	negativeWait   = 3 * time.Millisecond
	pollGranule    = 500 * time.Microsecond
	fullMouseFlags = 7
)

// newLiveScreen emulates a page load followed by NewScreen + Init.
func newLiveScreen() (tcell.Screen, error) {
	freshPage()
	s, err := tcell.NewScreen()
	if err != nil || s == nil {
		return nil, fmt.Errorf("NewScreen: %v", err)
	}
	if err := s.Init(); err != nil {
		return nil, fmt.Errorf("Init: %v", err)
	}
	return s, nil
}

// closeScreen shrinks and finalizes a screen that is no longer needed (the
// js.FuncOf callbacks keep it reachable).  Guarded: it must never hang the run.
func closeScreen(s tcell.Screen) {
	if s == nil {
		return
	}
	guarded(fullGuard, func() {
		drain(s)
		s.SetSize(0, 0)
		s.Fini()
	})
}

// nextEvent waits (cooperatively) until an event is pending and returns it; nil
// when none arrived within d.  No goroutine is left behind that could steal a
// later event.
func nextEvent(s tcell.Screen, d time.Duration) tcell.Event {
	if s.HasPendingEvent() {
		return s.PollEvent()
	}
	deadline := time.Now().Add(d)
	for time.Now().Before(deadline) {
		time.Sleep(pollGranule)
		if s.HasPendingEvent() {
			return s.PollEvent()
		}
	}
	return nil
}

func describeEvent(ev tcell.Event) string {
	switch e := ev.(type) {
	case nil:
		return "no event"
	case *tcell.EventKey:
		return fmt.Sprintf("EventKey{key=%d (%s) rune=%q mod=%d}", e.Key(), e.Name(), e.Rune(), e.Modifiers())
	case *tcell.EventMouse:
		x, y := e.Position()
		return fmt.Sprintf("EventMouse{%d,%d buttons=%#x mod=%d}", x, y, e.Buttons(), e.Modifiers())
	case *tcell.EventPaste:
		return fmt.Sprintf("EventPaste{start=%v}", e.Start())
	case *tcell.EventFocus:
		return fmt.Sprintf("EventFocus{%v}", e.Focused)
	case *tcell.EventResize:
		w, h := e.Size()
		return fmt.Sprintf("EventResize{%d,%d}", w, h)
	}
	return fmt.Sprintf("%T", ev)
}

// ---------------------------------------------------------------- keys

type KeyCase struct {
	Name  string `json:"key"` // KeyboardEvent.key
	Shift bool   `json:"shift,omitempty"`
	Alt   bool   `json:"alt,omitempty"`
	Ctrl  bool   `json:"ctrl,omitempty"`
	Meta  bool   `json:"meta,omitempty"`
}

func (c KeyCase) mods() tcell.ModMask {
	m := tcell.ModNone
	if c.Shift {
		m |= tcell.ModShift
	}
	if c.Alt {
		m |= tcell.ModAlt
	}
	if c.Ctrl {
		m |= tcell.ModCtrl
	}
	if c.Meta {
		m |= tcell.ModMeta
	}
	return m
}

var fkeys = []tcell.Key{
	tcell.KeyF1, tcell.KeyF2, tcell.KeyF3, tcell.KeyF4, tcell.KeyF5, tcell.KeyF6, tcell.KeyF7, tcell.KeyF8,
	tcell.KeyF9, tcell.KeyF10, tcell.KeyF11, tcell.KeyF12, tcell.KeyF13, tcell.KeyF14, tcell.KeyF15, tcell.KeyF16,
	tcell.KeyF17, tcell.KeyF18, tcell.KeyF19, tcell.KeyF20, tcell.KeyF21, tcell.KeyF22, tcell.KeyF23, tcell.KeyF24,
	tcell.KeyF25, tcell.KeyF26, tcell.KeyF27, tcell.KeyF28, tcell.KeyF29, tcell.KeyF30, tcell.KeyF31, tcell.KeyF32,
	tcell.KeyF33, tcell.KeyF34, tcell.KeyF35, tcell.KeyF36, tcell.KeyF37, tcell.KeyF38, tcell.KeyF39, tcell.KeyF40,
	tcell.KeyF41, tcell.KeyF42, tcell.KeyF43, tcell.KeyF44, tcell.KeyF45, tcell.KeyF46, tcell.KeyF47, tcell.KeyF48,
	tcell.KeyF49, tcell.KeyF50, tcell.KeyF51, tcell.KeyF52, tcell.KeyF53, tcell.KeyF54, tcell.KeyF55, tcell.KeyF56,
	tcell.KeyF57, tcell.KeyF58, tcell.KeyF59, tcell.KeyF60, tcell.KeyF61, tcell.KeyF62, tcell.KeyF63, tcell.KeyF64,
}

// domKeys is my own table from the named key values of the UI Events
// KeyboardEvent.key specification to the tcell key of the same meaning.
var domKeys = func() map[string][]tcell.Key {
	m := map[string][]tcell.Key{
		"Enter":      {tcell.KeyEnter},
		"Tab":        {tcell.KeyTab},
		"Backspace":  {tcell.KeyBackspace, tcell.KeyBackspace2},
		"Escape":     {tcell.KeyEscape},
		"Delete":     {tcell.KeyDelete},
		"Insert":     {tcell.KeyInsert},
		"ArrowUp":    {tcell.KeyUp},
		"ArrowDown":  {tcell.KeyDown},
		"ArrowLeft":  {tcell.KeyLeft},
		"ArrowRight": {tcell.KeyRight},
		"Home":       {tcell.KeyHome},
		"End":        {tcell.KeyEnd},
		"PageUp":     {tcell.KeyPgUp},
		"PageDown":   {tcell.KeyPgDn},
		"Clear":      {tcell.KeyClear},
		"Cancel":     {tcell.KeyCancel},
		"Pause":      {tcell.KeyPause},
		"Help":       {tcell.KeyHelp},
		"Print":      {tcell.KeyPrint},
	}
	for i, k := range fkeys {
		m[fmt.Sprintf("F%d", i+1)] = []tcell.Key{k}
	}
	return m
}()

var ctrlLetters = []tcell.Key{
	tcell.KeyCtrlA, tcell.KeyCtrlB, tcell.KeyCtrlC, tcell.KeyCtrlD, tcell.KeyCtrlE, tcell.KeyCtrlF, tcell.KeyCtrlG,
	tcell.KeyCtrlH, tcell.KeyCtrlI, tcell.KeyCtrlJ, tcell.KeyCtrlK, tcell.KeyCtrlL, tcell.KeyCtrlM, tcell.KeyCtrlN,
	tcell.KeyCtrlO, tcell.KeyCtrlP, tcell.KeyCtrlQ, tcell.KeyCtrlR, tcell.KeyCtrlS, tcell.KeyCtrlT, tcell.KeyCtrlU,
	tcell.KeyCtrlV, tcell.KeyCtrlW, tcell.KeyCtrlX, tcell.KeyCtrlY, tcell.KeyCtrlZ,
}

// ctrlKeyFor is the control key a character produces together with Ctrl.
func ctrlKeyFor(r rune) (tcell.Key, bool) {
	switch {
	case r >= 'a' && r <= 'z':
		return ctrlLetters[r-'a'], true
	case r >= 'A' && r <= 'Z':
		return ctrlLetters[r-'A'], true
	}
	switch r {
	case ' ', '@':
		return tcell.KeyCtrlSpace, true
	case '[':
		return tcell.KeyCtrlLeftSq, true
	case '\\':
		return tcell.KeyCtrlBackslash, true
	case ']':
		return tcell.KeyCtrlRightSq, true
	case '^':
		return tcell.KeyCtrlCarat, true
	case '_':
		return tcell.KeyCtrlUnderscore, true
	}
	return 0, false
}

var modifierKeyNames = map[string]bool{"Shift": true, "Control": true, "Alt": true, "Meta": true}

// keyClass: "dom" (independent expectation), "char", "tcell-only" (an EventKey
// with the modifiers must arrive), "modifier" (nothing asserted).
func keyClass(name string) string {
	if modifierKeyNames[name] {
		return "modifier"
	}
	if _, ok := domKeys[name]; ok {
		return "dom"
	}
	if utf8.RuneCountInString(name) == 1 {
		return "char"
	}
	return "tcell-only"
}

func keyProp(s tcell.Screen, c KeyCase) error {
	drain(s)
	if !callback("onKeyEvent", c.Name, c.Shift, c.Alt, c.Ctrl, c.Meta) {
		return fmt.Errorf("onKeyEvent is not installed on a live screen")
	}
	class := keyClass(c.Name)
	if class == "modifier" {
		drain(s)
		return nil
	}
	ev := nextEvent(s, positiveWait)
	ek, ok := ev.(*tcell.EventKey)
	if !ok {
		return fmt.Errorf("onKeyEvent(%q, shift=%v alt=%v ctrl=%v meta=%v): got %s, want an EventKey", c.Name, c.Shift, c.Alt, c.Ctrl, c.Meta, describeEvent(ev))
	}
	if extra := nextEvent(s, 0); extra != nil {
		return fmt.Errorf("onKeyEvent(%q): a second event %s followed %s", c.Name, describeEvent(extra), describeEvent(ek))
	}
	fail := func(what string) error {
		return fmt.Errorf("onKeyEvent(%q, shift=%v alt=%v ctrl=%v meta=%v): got %s: %s", c.Name, c.Shift, c.Alt, c.Ctrl, c.Meta, describeEvent(ek), what)
	}
	modsOK := ek.Modifiers() == c.mods()
	switch class {
	case "dom":
		keyOK := false
		for _, k := range domKeys[c.Name] {
			if ek.Key() == k {
				keyOK = true
			}
		}
		if c.Name == "Tab" && c.Shift && ek.Key() == tcell.KeyBacktab {
			keyOK = true
			modsOK = modsOK || ek.Modifiers() == c.mods()&^tcell.ModShift
		}
		if !keyOK {
			return fail(fmt.Sprintf("want key %d (KeyboardEvent.key %q)", domKeys[c.Name][0], c.Name))
		}
	case "char":
		r, _ := utf8.DecodeRuneInString(c.Name)
		keyOK := ek.Key() == tcell.KeyRune && ek.Rune() == r
		if c.Ctrl {
			if k, ok := ctrlKeyFor(r); ok && ek.Key() == k {
				keyOK = true
			}
		}
		if !keyOK {
			return fail(fmt.Sprintf("want KeyRune %q (or its control key when Ctrl is held)", r))
		}
	}
	if !modsOK {
		return fail(fmt.Sprintf("want modifiers %d", c.mods()))
	}
	return nil
}

func knownKey(c KeyCase) func(error) string {
	return func(err error) string {
		// exactly: a DOM key name that tcell has a Key for but that is missing from
		// WebKeyNames, so the first letter is reported as a rune
		if keyClass(c.Name) != "dom" {
			return ""
		}
		if _, inTable := tcell.WebKeyNames[c.Name]; inTable {
			return ""
		}
		r, _ := utf8.DecodeRuneInString(c.Name)
		if strings.Contains(err.Error(), fmt.Sprintf("key=%d ", tcell.KeyRune)) && strings.Contains(err.Error(), fmt.Sprintf("rune=%q", r)) && strings.Contains(err.Error(), "want key") {
			return idDomKeyNames
		}
		return ""
	}
}

func keyNames() []string {
	set := map[string]bool{}
	for n := range tcell.WebKeyNames {
		set[n] = true
	}
	for n := range domKeys {
		set[n] = true
	}
	for n := range modifierKeyNames {
		set[n] = true
	}
	for r := rune(0x20); r <= 0x7e; r++ {
		set[string(r)] = true
	}
	for _, r := range []rune{'é', 'ß', 'Ж', 'א', '€', '世', 'あ', '😀', 0x00a0, 0x10348} {
		set[string(r)] = true
	}
	out := make([]string, 0, len(set))
	for n := range set {
		out = append(out, n)
	}
	sort.Strings(out)
	return out
}

// ---------------------------------------------------------------- mouse

type MouseCase struct {
	Flags int    `json:"flags"` // subset of MouseButtonEvents(1)|MouseDragEvents(2)|MouseMotionEvents(4)
	How   string `json:"how"`   // how the subset was enabled
	Kind  string `json:"kind"`  // click | move
	Which int    `json:"which"` // MouseEvent.which: 0 none, 1 left, 2 middle, 3 right
	Shift bool   `json:"shift,omitempty"`
	Alt   bool   `json:"alt,omitempty"`
	Ctrl  bool   `json:"ctrl,omitempty"`
	X     int    `json:"x"`
	Y     int    `json:"y"`
}

func mouseHows(flags int) []string {
	switch flags {
	case 0:
		return []string{"never", "enable-all-then-disable"}
	case fullMouseFlags:
		return []string{"or", "variadic", "no-arguments", "disable-then-enable"}
	}
	return []string{"or", "variadic", "disable-then-enable", "narrowed-from-all"}
}

func flagList(flags int) []tcell.MouseFlags {
	var l []tcell.MouseFlags
	for _, f := range []tcell.MouseFlags{tcell.MouseButtonEvents, tcell.MouseDragEvents, tcell.MouseMotionEvents} {
		if flags&int(f) != 0 {
			l = append(l, f)
		}
	}
	return l
}

func prepMouse(flags int, how string) (tcell.Screen, error) {
	s, err := newLiveScreen()
	if err != nil {
		return nil, err
	}
	switch how {
	case "never":
	case "enable-all-then-disable":
		s.EnableMouse()
		s.DisableMouse()
	case "or":
		s.EnableMouse(tcell.MouseFlags(flags))
	case "variadic":
		s.EnableMouse(flagList(flags)...)
	case "no-arguments":
		s.EnableMouse()
	case "disable-then-enable":
		s.EnableMouse()
		s.DisableMouse()
		s.EnableMouse(tcell.MouseFlags(flags))
	case "narrowed-from-all":
		// a second EnableMouse replaces the selection, it does not add to it
		s.EnableMouse()
		s.EnableMouse(tcell.MouseFlags(flags))
	default:
		return nil, fmt.Errorf("unknown how %q", how)
	}
	return s, nil
}

// mouseExpect: +1 must be delivered, -1 must not be delivered, 0 not asserted.
//
//	MouseButtonEvents: click events only
//	MouseDragEvents:   click-drag events (includes button events)
//	MouseMotionEvents: all mouse events (includes click and drag events)
func mouseExpect(c MouseCase) int {
	if c.Flags == 0 {
		return -1
	}
	switch c.Kind {
	case "click":
		if c.Which == 0 {
			return 0 // a click always has a button in a browser
		}
		return +1 // every mode includes button events
	case "move":
		if c.Which == 0 { // plain motion
			if c.Flags&int(tcell.MouseMotionEvents) != 0 {
				return +1
			}
			return -1
		}
		if c.Flags&int(tcell.MouseDragEvents|tcell.MouseMotionEvents) != 0 {
			return +1
		}
		return -1
	}
	return 0
}

func mouseProp(s tcell.Screen, c MouseCase) error {
	drain(s)
	cb := "onMouseClick"
	if c.Kind == "move" {
		cb = "onMouseMove"
	}
	// tcell.js: onMouseClick(x, y, e.which, e.shiftKey, e.altKey, e.ctrlKey)
	if !callback(cb, c.X, c.Y, c.Which, c.Shift, c.Alt, c.Ctrl) {
		return fmt.Errorf("%s is not installed on a live screen (Init installs it)", cb)
	}
	exp := mouseExpect(c)
	wait := positiveWait
	if exp <= 0 {
		wait = negativeWait
	}
	ev := nextEvent(s, wait)
	what := fmt.Sprintf("%s(%d,%d, which=%d, shift=%v alt=%v ctrl=%v) with mouse flags %d (%s)", cb, c.X, c.Y, c.Which, c.Shift, c.Alt, c.Ctrl, c.Flags, c.How)
	if ev == nil {
		if exp > 0 {
			return fmt.Errorf("%s: no event delivered although the enabled modes include this kind of event", what)
		}
		return nil
	}
	if exp < 0 {
		return fmt.Errorf("%s: delivered %s although no enabled mode includes this kind of event", what, describeEvent(ev))
	}
	em, ok := ev.(*tcell.EventMouse)
	if !ok {
		return fmt.Errorf("%s: got %s, want an EventMouse", what, describeEvent(ev))
	}
	wantBtn := tcell.ButtonNone
	switch c.Which {
	case 1:
		wantBtn = tcell.ButtonPrimary
	case 2:
		wantBtn = tcell.ButtonMiddle
	case 3:
		wantBtn = tcell.ButtonSecondary
	}
	wantMod := tcell.ModNone
	if c.Shift {
		wantMod |= tcell.ModShift
	}
	if c.Alt {
		wantMod |= tcell.ModAlt
	}
	if c.Ctrl {
		wantMod |= tcell.ModCtrl
	}
	x, y := em.Position()
	if x != c.X || y != c.Y || em.Buttons() != wantBtn || em.Modifiers() != wantMod {
		return fmt.Errorf("%s: got %s, want position %d,%d buttons %#x modifiers %d", what, describeEvent(em), c.X, c.Y, wantBtn, wantMod)
	}
	if extra := nextEvent(s, 0); extra != nil {
		return fmt.Errorf("%s: a second event %s", what, describeEvent(extra))
	}
	return nil
}

func knownMouse(c MouseCase) func(error) string {
	return func(err error) string {
		if c.Kind == "click" && c.Which >= 1 && c.Which <= 3 && c.Flags != 0 && c.Flags&int(tcell.MouseButtonEvents) == 0 &&
			strings.Contains(err.Error(), "no event delivered") {
			return idClickNoFlag
		}
		return ""
	}
}

// ---------------------------------------------------------------- paste / focus modes

type ModeCase struct {
	Kind    string   `json:"kind"` // paste | focus
	Hist    []string `json:"hist"` // enable / disable calls made before the callback
	Text    string   `json:"text,omitempty"`
	Focused bool     `json:"focused,omitempty"`
}

func modeProp(c ModeCase) error {
	s, err := newLiveScreen()
	if err != nil {
		return err
	}
	defer closeScreen(s)
	enabled := false
	for _, h := range c.Hist {
		switch {
		case c.Kind == "paste" && h == "enable":
			s.EnablePaste()
			enabled = true
		case c.Kind == "paste" && h == "disable":
			s.DisablePaste()
			enabled = false
		case c.Kind == "focus" && h == "enable":
			s.EnableFocus()
			enabled = true
		case c.Kind == "focus" && h == "disable":
			s.DisableFocus()
			enabled = false
		default:
			return fmt.Errorf("bad mode case %+v", c)
		}
	}
	drain(s)
	var got []string
	collect := func() {
		for {
			ev := nextEvent(s, negativeWait)
			if ev == nil {
				return
			}
			got = append(got, describeEvent(ev))
		}
	}
	var want []string
	switch c.Kind {
	case "focus":
		installed := callback("onFocus", c.Focused)
		if !installed && enabled {
			return fmt.Errorf("onFocus is not installed after %v", c.Hist)
		}
		collect()
		if enabled {
			want = append(want, describeEvent(tcell.NewEventFocus(c.Focused)))
		}
	case "paste":
		// tcell.js: onPaste(true); onKeyEvent(ch,false,false,false,false) per UTF-16 unit; onPaste(false)
		if callback("onPaste", true) {
			collect()
			for _, r := range c.Text {
				if !callback("onKeyEvent", string(r), false, false, false, false) {
					return fmt.Errorf("onKeyEvent is not installed on a live screen")
				}
				collect()
			}
			callback("onPaste", false)
			collect()
			for _, r := range c.Text {
				want = append(want, describeEvent(tcell.NewEventKey(tcell.KeyRune, r, tcell.ModNone)))
			}
		} else if enabled {
			return fmt.Errorf("onPaste is not installed after %v", c.Hist)
		}
		// (not installed at all: the ReferenceError ends tcell.js' paste listener, nothing is delivered)
		if enabled {
			want = append([]string{describeEvent(tcell.NewEventPaste(true))}, want...)
			want = append(want, describeEvent(tcell.NewEventPaste(false)))
		}
	}
	if strings.Join(got, " | ") != strings.Join(want, " | ") {
		return fmt.Errorf("%s callback after %v (text %q, focused %v): events [%s], want [%s]", c.Kind, c.Hist, c.Text, c.Focused, strings.Join(got, " | "), strings.Join(want, " | "))
	}
	return nil
}

func modeCases() []ModeCase {
	hists := [][]string{{}, {"enable"}, {"disable"}, {"enable", "disable"}, {"disable", "enable"}, {"enable", "enable"}, {"enable", "disable", "enable"}, {"enable", "disable", "disable"}, {"enable", "disable", "enable", "disable"}}
	texts := []string{"", "a", "hello", "Hi, World! 123", "héllo wörld", "世界", "x€y"}
	var out []ModeCase
	for _, h := range hists {
		for _, t := range texts {
			out = append(out, ModeCase{Kind: "paste", Hist: h, Text: t})
		}
		for _, f := range []bool{true, false} {
			out = append(out, ModeCase{Kind: "focus", Hist: h, Focused: f})
		}
	}
	return out
}
