//go:build js && wasm

package c19

// The JavaScript side: a recording stand-in for webfiles/tcell.js.
//
// Every global function wscreen.go calls is defined (from Go, through eval) as
// a recorder that appends [name, args...] to a log.  Go fetches the log as one
// JSON string after every screen call and replays it on a Go model of what the
// real tcell.js keeps for the page: the width x height grid of DOM nodes
// (content.data[y].data[x]), the cursor position / class / colour and the
// content.dirty flag, including the places where the real script would throw
// (it indexes content.data[cy].data[cx] without a range check).
//
// (A js.FuncOf based recorder was measured at ~29 us per drawCell, the JS-side
// log at ~4 us, which is what makes thousands of histories affordable.)

import (
	"encoding/json"
	"fmt"
	"syscall/js"
)

const standInJS = `(function () {
  const g = globalThis;
  g.__c19log = [];
  function enc(v) {
    if (v === undefined) return {"$": "undefined"};
    if (typeof v === "number" && !Number.isFinite(v)) return {"$": String(v)};
    if (typeof v === "function" || typeof v === "symbol" || typeof v === "bigint") return {"$": typeof v};
    return v;
  }
  function rec(name) {
    return function () {
      const a = [name];
      for (let i = 0; i < arguments.length; i++) a.push(enc(arguments[i]));
      g.__c19log.push(a);
    };
  }
  for (const n of ["drawCell", "clearScreen", "show", "showCursor", "resize", "setCursorStyle", "beep", "setTitle"]) {
    g[n] = rec(n);
  }
  g.__c19take = function () {
    const r = JSON.stringify(g.__c19log);
    g.__c19log = [];
    return r;
  };
  // a fresh page load: no callbacks installed yet, empty log
  g.__c19reset = function () {
    g.__c19log = [];
    for (const n of ["onKeyEvent", "onMouseClick", "onMouseMove", "onFocus", "onPaste"]) delete g[n];
  };
})()`

var standInInstalled bool

func ensureStandIn() {
	if !standInInstalled {
		js.Global().Call("eval", standInJS)
		standInInstalled = true
	}
}

// freshPage emulates loading the page anew (before a new screen is created).
func freshPage() {
	ensureStandIn()
	js.Global().Call("__c19reset")
}

type jsCall struct {
	Name string
	Args []any
}

func takeLog() ([]jsCall, error) {
	raw := js.Global().Call("__c19take").String()
	if raw == "[]" {
		return nil, nil
	}
	var arr [][]any
	if err := json.Unmarshal([]byte(raw), &arr); err != nil {
		return nil, fmt.Errorf("stand-in log unreadable: %v", err)
	}
	out := make([]jsCall, 0, len(arr))
	for _, a := range arr {
		if len(a) == 0 {
			continue
		}
		n, _ := a[0].(string)
		out = append(out, jsCall{Name: n, Args: a[1:]})
	}
	return out, nil
}

// callback invokes a global callback the way tcell.js does.  It reports false
// when the global is not a function (tcell.js would raise a ReferenceError /
// TypeError inside its DOM event listener, which the browser just logs).
func callback(name string, args ...any) bool {
	v := js.Global().Get(name)
	if v.Type() != js.TypeFunction {
		return false
	}
	v.Invoke(args...)
	return true
}

// ---------------------------------------------------------------- page model

// pcell is one node of tcell.js' content grid.
type pcell struct {
	Styled bool   `json:"styled"` // false: the blank text node clearScreen() creates
	Text   string `json:"text"`
	Fg     int    `json:"fg"`
	Bg     int    `json:"bg"`
	Attrs  int    `json:"attrs"`
	Us     int    `json:"us"`
	Uc     int    `json:"uc"`
}

var blankCell = pcell{Text: " "}

type page struct {
	w, h     int
	cells    []pcell
	cx, cy   int
	curClass string
	curColor string
	dirty    bool

	// per operation bookkeeping (reset by beginOp)
	draws      []int // drawCell calls per cell
	drawTotal  int
	clears     int
	shows      int
	resizes    int
	lastDrawAt int // log index of the last drawCell
	lastShowAt int // log index of the last show
	nlog       int

	jsErrs []string // exceptions the real tcell.js would have thrown
	bad    []string // malformed calls (wrong arity / types / outside the grid)
}

// newPage is tcell.js after initialize(): 80x24 blanks, shown, no cursor.
func newPage() *page {
	// the 80x24 grid is allocated on first use: most histories resize at once
	return &page{w: 80, h: 24, cx: -1, cy: -1, curClass: "cursor-blinking-block"}
}

func (p *page) ensure() {
	if p.cells == nil && p.w*p.h > 0 {
		d := p.dirty
		p.setSize(p.w, p.h)
		p.dirty = d
	}
}

func (p *page) setSize(w, h int) {
	p.w, p.h = w, h
	p.cells = make([]pcell, w*h)
	for i := range p.cells {
		p.cells[i] = blankCell
	}
	p.draws = make([]int, w*h)
	p.dirty = true
}

func (p *page) beginOp() {
	for i := range p.draws {
		p.draws[i] = 0
	}
	p.drawTotal, p.clears, p.shows, p.resizes = 0, 0, 0, 0
	p.lastDrawAt, p.lastShowAt, p.nlog = -1, -1, 0
}

func (p *page) in(x, y int) bool { return x >= 0 && y >= 0 && x < p.w && y < p.h }

func argInt(v any) (int, bool) {
	f, ok := v.(float64)
	if !ok || f != float64(int(f)) {
		return 0, false
	}
	return int(f), true
}

func ints(args []any, idx ...int) ([]int, bool) {
	out := make([]int, len(idx))
	for i, k := range idx {
		if k >= len(args) {
			return nil, false
		}
		n, ok := argInt(args[k])
		if !ok {
			return nil, false
		}
		out[i] = n
	}
	return out, true
}

// cursorAccess mirrors `content.data[cy].data[cx].classList` for a cursor
// position that tcell.js considers valid (!(cx < 0 || cy < 0)).
func (p *page) cursorAccess(where string) {
	if p.cx < 0 || p.cy < 0 {
		return
	}
	if p.cy >= p.h {
		p.jsErrs = append(p.jsErrs, fmt.Sprintf("%s: TypeError: content.data[%d] is undefined (cursor %d,%d on a %dx%d page)", where, p.cy, p.cx, p.cy, p.w, p.h))
	} else if p.cx >= p.w {
		p.jsErrs = append(p.jsErrs, fmt.Sprintf("%s: TypeError: content.data[%d].data[%d] is undefined (cursor %d,%d on a %dx%d page)", where, p.cy, p.cx, p.cx, p.cy, p.w, p.h))
	}
}

func (p *page) apply(c jsCall) {
	at := p.nlog
	p.nlog++
	badf := func(format string, a ...any) { p.bad = append(p.bad, fmt.Sprintf(format, a...)) }
	if c.Name == "drawCell" || c.Name == "clearScreen" {
		p.ensure()
	}
	switch c.Name {
	case "drawCell":
		if len(c.Args) != 8 {
			badf("drawCell called with %d arguments %v, tcell.js takes (x, y, s, fg, bg, attrs, us, uc)", len(c.Args), c.Args)
			return
		}
		xy, ok1 := ints(c.Args, 0, 1)
		s, ok2 := c.Args[2].(string)
		rest, ok3 := ints(c.Args, 3, 4, 5, 6, 7)
		if !ok1 || !ok2 || !ok3 {
			badf("drawCell called with ill-typed arguments %v", c.Args)
			return
		}
		x, y := xy[0], xy[1]
		if !p.in(x, y) {
			badf("drawCell(%d,%d,%q) lies outside the %dx%d page grid (tcell.js: TypeError for a bad row, a stray extra node for a bad column)", x, y, s, p.w, p.h)
			return
		}
		i := y*p.w + x
		p.cells[i] = pcell{Styled: true, Text: s, Fg: rest[0], Bg: rest[1], Attrs: rest[2], Us: rest[3], Uc: rest[4]}
		p.draws[i]++
		p.drawTotal++
		p.lastDrawAt = at
		p.dirty = true
	case "clearScreen":
		for i := range p.cells {
			p.cells[i] = blankCell
		}
		p.clears++
		p.dirty = true
	case "resize":
		wh, ok := ints(c.Args, 0, 1)
		if !ok || len(c.Args) != 2 {
			badf("resize called with %v", c.Args)
			return
		}
		if wh[0] < 0 || wh[1] < 0 {
			p.jsErrs = append(p.jsErrs, fmt.Sprintf("resize(%d,%d): RangeError: Invalid array length", wh[0], wh[1]))
			return
		}
		p.setSize(wh[0], wh[1])
		p.resizes++
	case "show":
		p.shows++
		p.lastShowAt = at
		if p.dirty {
			p.cursorAccess("show()/displayCursor")
			p.dirty = false
		}
	case "showCursor":
		xy, ok := ints(c.Args, 0, 1)
		if !ok || len(c.Args) != 2 {
			badf("showCursor called with %v", c.Args)
			return
		}
		p.dirty = true
		p.cursorAccess("showCursor")
		p.cx, p.cy = xy[0], xy[1]
	case "setCursorStyle":
		if len(c.Args) != 2 {
			badf("setCursorStyle called with %v", c.Args)
			return
		}
		cl, ok1 := c.Args[0].(string)
		co, ok2 := c.Args[1].(string)
		if !ok1 || !ok2 {
			badf("setCursorStyle called with %v", c.Args)
			return
		}
		if cl == p.curClass && co == p.curColor {
			return
		}
		if !(p.cx < 0 || p.cy < 0) {
			p.dirty = true
			p.cursorAccess("setCursorStyle")
		}
		p.curClass, p.curColor = cl, co
	case "beep":
	case "setTitle":
		if len(c.Args) != 1 {
			badf("setTitle called with %v", c.Args)
		} else if _, ok := c.Args[0].(string); !ok {
			badf("setTitle called with %v", c.Args)
		}
	default:
		badf("unexpected JS call %s%v", c.Name, c.Args)
	}
}

// sync pulls the log and applies it.
func (p *page) pull() error {
	calls, err := takeLog()
	if err != nil {
		return err
	}
	for _, c := range calls {
		p.apply(c)
	}
	return nil
}
