// C01 — terminal display equals the logical screen after Show, Sync and resize.
package c01

import (
	"fmt"
	"strings"
	"testing"

	"pgregory.net/rapid"

	"verifharness/internal/pbt"
	"verifharness/internal/shadow"
	"verifharness/internal/tsrun"
)

func TestMain(m *testing.M) { pbt.Main(m, "C01") }

type Case struct {
	Cfg tsrun.Config `json:"cfg"`
	Ops []tsrun.Op   `json:"ops"`
}

var entries []string

func genCase(t *rapid.T) Case {
	o := tsrun.GenOpts{MaxOps: pbt.Pick(40, 80), Resize: true, Corrupt: true, Lock: true, MaxW: pbt.Pick(12, 24), MaxH: pbt.Pick(6, 8), MinW: 2, Urls: true}
	c := Case{Cfg: tsrun.GenConfig(t, entries, o)}
	c.Ops = tsrun.GenOps(t, c.Cfg.W, c.Cfg.H, o)
	return c
}

func prop(c Case) error {
	r, err := tsrun.New(c.Cfg)
	if err != nil {
		return err
	}
	if err := r.Init(); err != nil {
		return err
	}
	defer r.Close()
	tainted := false
	for i, op := range c.Ops {
		pt, err := r.Apply(op)
		if err != nil {
			return fmt.Errorf("step %d (%s): %v", i, op.Kind, err)
		}
		if pt == tsrun.None {
			continue
		}
		if r.WideAtCornerOnTrickTerminal() {
			tainted = true // the known defect damages the display from here on
		}
		if r.Corrupted {
			// the terminal's contents were scrambled behind the library's back:
			// only a Sync / resize redraw has to repair that
			if err := r.CheckStrict(); err != nil {
				tag := ""
				if tainted || r.WideAtCornerOnTrickTerminal() {
					tag = "[" + knownWideCorner + "] "
				}
				return fmt.Errorf("%sstep %d (%s): %v", tag, i, op.Kind, err)
			}
			continue
		}
		if err := r.CheckDisplay(); err != nil {
			tag := ""
			if tainted || r.WideAtCornerOnTrickTerminal() {
				tag = "[" + knownWideCorner + "] "
			}
			return fmt.Errorf("%sstep %d (%s) on %s/%s %dx%d: %v", tag, i, op.Kind, c.Cfg.Entry, c.Cfg.Color, r.Shadow.W, r.Shadow.H, err)
		}
	}
	return nil
}

const knownWideCorner = "C01-amtrick-wide-rune-at-corner"

// known maps a failure onto a listed finding: exact class = an auto-margin
// terminal without rmam but with ich1 (tcell's insert trick) showing a wide
// rune whose second column is the bottom-right cell at the failing Show.
func known(c Case, err error) string {
	if strings.HasPrefix(err.Error(), "["+knownWideCorner+"]") {
		return knownWideCorner
	}
	return ""
}

func nonTrivial(c Case) bool {
	// >= 2 Shows with a cell changed in between
	shows, changedSince := 0, false
	for _, op := range c.Ops {
		switch op.Kind {
		case "show", "sync":
			if shows >= 1 && changedSince {
				return true
			}
			shows++
			changedSince = false
		case "set", "setcell", "fill", "clear":
			changedSince = true
		}
	}
	return false
}

func classes(c Case) []string {
	seen := map[string]bool{}
	var out []string
	add := func(s string) {
		if !seen[s] {
			seen[s] = true
			out = append(out, s)
		}
	}
	add("entry:" + c.Cfg.Entry)
	add("color:" + c.Cfg.Color)
	w := c.Cfg.W
	h := c.Cfg.H
	corrupt := false
	for _, op := range c.Ops {
		switch op.Kind {
		case "set", "setcell":
			rw := shadow.RuneWidth(op.R)
			if rw == 2 {
				add("wide")
				if op.X == w-1 {
					add("wide-in-last-column")
				}
			}
			if len(op.Comb) > 0 {
				add("combining")
			}
			if op.X == w-1 && op.Y == h-1 {
				add("bottom-right-painted")
			}
			if op.Style.Fg.Kind() == "rgb" || op.Style.Bg.Kind() == "rgb" {
				add("rgb-colour")
			}
			if op.Style.Url != "" {
				add("hyperlink")
			}
			if op.Style.Ul > 1 {
				add("styled-underline")
			}
		case "lock":
			add("lock")
		case "resize":
			w, h = op.W, op.H
			if op.On {
				add("resize-notified")
			} else {
				add("resize-noticed-by-show")
			}
		case "corrupt":
			corrupt = true
		case "sync":
			if corrupt {
				add("sync-after-corrupt")
				corrupt = false
			}
		case "setstyle":
			add("setstyle")
		}
	}
	if nonTrivial(c) {
		add("two-shows-with-change")
	}
	return out
}

func TestProp(t *testing.T) {
	defer pbt.Recover(t)
	entries = tsrun.ECMAEntries()
	pbt.Describe("rapid histories (<= 40 ops quick / 80 thorough) of SetContent/SetCell/Fill/Clear/SetStyle/ShowCursor/HideCursor/SetCursorStyle/LockRegion/Show/Sync/window-resize (noticed by the next Show, or delivered through the resize callback)/external corruption, coordinates -2..w+1, rune classes ascii/narrow/wide/acs/control/C1/zero-width/invalid/astral, combining lists, styles from public builders (palette, RGB, default/none/reset, all attributes, underline style+colour, hyperlinks), on a real terminfo screen over a fake tty for every ECMA-48-family registered name x colour mode {as shipped, RGB strings added, TCELL_TRUECOLOR=disable}, initial size 2..12 x 1..6 (thorough 2..24 x 1..8); after every Show/Sync/resize redraw every unlocked, visible cell and the cursor of the reference terminal (fed with exactly the bytes written) are compared with the shadow model. Non-trivial = >= 2 Shows with a content change in between; distinct = hash of the case.",
		"the reference terminal harness/internal/vt (strict ECMA-48/xterm tokenizer + screen model) is the standards-conforming terminal; entries with am, no rmam and ich1 are modelled without the newline glitch (printing in the bottom-right cell scrolls), other am entries with deferred wrap",
		"go-runewidth (EastAsianWidth=false) classifies widths for model and terminal alike",
		"monochrome entries: colours and the reverse bit are not compared (tcell maps colour to reverse video by luminance, which the statement does not describe)",
		"a cell holding StyleDefault may show any default style that was in force at a Show since its content last changed (tcell resolves the default at paint time)",
		"invalid code points (surrogates) may be shown as U+FFFD or as a blank; right halves of wide runes and locked cells are not compared; ColorReset means the pen after the entry's op string, whose side effect on the other colour component is tolerated",
		"PadChar is cleared on the entry copy so padding does not sleep (output bytes do not depend on it)")
	pbt.Check(t, "history", pbt.Pick(12000, 60000), pbt.Spec[Case]{Gen: genCase, Prop: prop, NonTrivial: nonTrivial, Classes: classes, Known: known})
}
