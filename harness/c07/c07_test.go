// C07 — parameterized capability strings evaluate per terminfo(5).
//
// Sub-checks: db-sweep (every distinct parameterized string of the built-in
// database and the sequences tcell hard-codes, over their parameter domains,
// against the reference interpreter), programs (typed grammar-generated
// programs, sequences of 1-4 calls sharing static variables), robust
// (arbitrary bytes x arbitrary parameters: no panic, no hang), refcheck
// (thorough: the reference itself against ncurses tparm via python3 curses).
package c07

import (
	"encoding/hex"
	"encoding/json"
	"errors"
	"fmt"
	"os"
	"os/exec"
	"reflect"
	"sort"
	"strings"
	"testing"
	"time"

	"github.com/gdamore/tcell/v2/terminfo"
	_ "github.com/gdamore/tcell/v2/terminfo/extended"
	"pgregory.net/rapid"

	"verifharness/internal/pbt"
	"verifharness/internal/tiref"
)

func TestMain(m *testing.M) { pbt.Main(m, "C07") }

var ti = &terminfo.Terminfo{}

func toArgs(ps []tiref.ParamSpec) []interface{} {
	out := make([]interface{}, len(ps))
	for i, p := range ps {
		if p.IsStr {
			out[i] = p.S
		} else {
			out[i] = int(p.I)
		}
	}
	return out
}

// errUnspecified classes are discarded (counted), never reported.
func unspecified(err error) string {
	switch {
	case errors.Is(err, tiref.ErrOverflow):
		return "unspecified:int-overflow"
	case errors.Is(err, tiref.ErrType):
		return "unspecified:operand-type"
	case errors.Is(err, tiref.ErrUnderflow):
		return "unspecified:stack-underflow"
	}
	return ""
}

// unspecifiedOutputs reports constructs whose result the manual page leaves
// open (or where C and Go printf legitimately differ): %c of 0, formatted %c
// of a non-ASCII value, %x/%o/%X of a negative number.
type probe struct {
	zeroChar, fmtHighChar, negHex bool
}

func scanUnspecified(prog []tiref.Node, m *tiref.Machine, params []tiref.Value) probe {
	// instrumented second evaluation: walk with a copy of the machine
	var p probe
	mc := *m
	hook := func(n tiref.Node, v tiref.Value) {
		if v.IsStr {
			if n.Width >= 0 || n.Prec >= 0 {
				for i := 0; i < len(v.S); i++ {
					if v.S[i] >= 0x80 {
						// C pads/truncates by bytes, Go's fmt by runes
						p.fmtHighChar = true
					}
				}
			}
			return
		}
		switch n.Verb {
		case "c":
			if v.I&0xff == 0 {
				p.zeroChar = true
			}
			if (n.Flags != "" || n.Width >= 0 || n.Prec >= 0 || n.Colon) && (v.I < 1 || v.I > 127) {
				p.fmtHighChar = true
			}
			if v.I < 0 || v.I > 255 {
				p.fmtHighChar = true
			}
		case "x", "X", "o":
			if v.I < 0 {
				p.negHex = true
			}
			if v.I == 0 && strings.Contains(n.Flags, "#") {
				// C prints "0", Go's fmt prints "0x0": the statement says
				// "printf-style", which both are
				p.negHex = true
			}
		}
	}
	tiref.OutHook = hook
	_, _ = mc.Eval(prog, params)
	tiref.OutHook = nil
	return p
}

// ---------------------------------------------------------------- programs

type Call struct {
	Prog   string            `json:"prog"`
	Params []tiref.ParamSpec `json:"params"`
	Omit   int               `json:"omit,omitempty"` // trailing (zero, numeric) parameters the call leaves out
}

type ProgCase struct {
	Calls []Call `json:"calls"`
}

func genProgCase(t *rapid.T) ProgCase {
	n := rapid.SampledFrom([]int{1, 1, 1, 2, 3, 4}).Draw(t, "ncalls")
	var c ProgCase
	depth := pbt.Pick(4, 6)
	for i := 0; i < n; i++ {
		ps := tiref.GenParams(t, false)
		// Omit: the caller passes fewer arguments than the string refers to; per terminfo(5) (tparm takes
		// nine values, the rest being 0) a parameter that is not supplied is the number 0. Only p3.. are
		// left out: what %i does to a missing p1/p2 is not asked here.
		omit := 0
		if len(ps) > 2 && rapid.IntRange(0, 3).Draw(t, "omit") == 0 {
			omit = rapid.IntRange(1, len(ps)-2).Draw(t, "nomit")
			for k := len(ps) - omit; k < len(ps); k++ {
				ps[k] = tiref.ParamSpec{}
			}
		}
		prog := tiref.GenProgram(t, ps, tiref.GenOpts{Depth: rapid.IntRange(0, depth).Draw(t, "depth")})
		c.Calls = append(c.Calls, Call{Prog: tiref.String(prog), Params: ps, Omit: omit})
	}
	return c
}

func progProp(c ProgCase) error {
	terminfo.VerifResetStatics()
	m := &tiref.Machine{}
	for i, call := range c.Calls {
		prog, err := tiref.Parse(call.Prog)
		if err != nil {
			return fmt.Errorf("harness: generated program does not parse: %q: %v", call.Prog, err)
		}
		if back := tiref.String(prog); back != call.Prog {
			return fmt.Errorf("harness: parse/print mismatch %q vs %q", call.Prog, back)
		}
		vals := tiref.Values(call.Params)
		pr := scanUnspecified(prog, m, vals)
		want, err := m.Eval(prog, vals)
		if err != nil {
			if cl := unspecified(err); cl != "" {
				pbt.Excluded(cl)
				return nil
			}
			return fmt.Errorf("harness: reference evaluation failed: %v", err)
		}
		if pr.zeroChar || pr.fmtHighChar || pr.negHex {
			pbt.Excluded("unspecified:printf-c-or-negative-hex")
			return nil
		}
		// The caller's argument slice is its own: a prefix of a longer array,
		// passed as args... It must come back untouched (elements, and what lies
		// behind the prefix), so that evaluating again gives the same output.
		fresh := toArgs(call.Params)
		fresh = fresh[:len(fresh)-call.Omit]
		backing := make([]interface{}, len(fresh), len(fresh)+10)
		copy(backing, fresh)
		tail := backing[len(fresh) : len(fresh)+10]
		for k := range tail {
			tail[k] = "sentinel"
		}
		got := ti.TParm(call.Prog, backing...)
		if got != want {
			return fmt.Errorf("call %d: TParm(%q, %v) = %q, terminfo(5) reference gives %q", i, call.Prog, toArgs(call.Params), got, want)
		}
		for k := range fresh {
			if backing[k] != fresh[k] {
				return fmt.Errorf("call %d: TParm(%q, args...) changed the caller's args[%d] from %v to %v", i, call.Prog, k, fresh[k], backing[k])
			}
		}
		for k := range tail {
			if tail[k] != "sentinel" {
				return fmt.Errorf("call %d: TParm(%q, args[:%d]...) wrote %v behind the caller's slice (element %d of the backing array)", i, call.Prog, len(fresh), tail[k], len(fresh)+k)
			}
		}
	}
	return nil
}

func progNonTrivial(c ProgCase) bool {
	for i, call := range c.Calls {
		prog, err := tiref.Parse(call.Prog)
		if err != nil {
			continue
		}
		u := tiref.Analyze(prog)
		if u.Nested || u.ElseIf || (u.Static && i > 0) {
			return true
		}
	}
	return false
}

func progClasses(c ProgCase) []string {
	var out []string
	seen := map[string]bool{}
	add := func(s string) {
		if !seen[s] {
			seen[s] = true
			out = append(out, s)
		}
	}
	for i, call := range c.Calls {
		prog, err := tiref.Parse(call.Prog)
		if err != nil {
			continue
		}
		u := tiref.Analyze(prog)
		if u.Nested {
			add("nested-conditional")
		}
		if u.ElseIf {
			add("else-if")
		}
		if u.Static && i > 0 {
			add("cross-call-static")
		}
		if u.Conds > 0 {
			add("conditional")
		}
		if strings.Contains(call.Prog, "%l") {
			add("strlen")
		}
		if strings.Contains(call.Prog, "%-") || strings.Contains(call.Prog, "%/") || strings.Contains(call.Prog, "%m") {
			add("noncommutative-op")
		}
		if strings.Contains(call.Prog, "%A") || strings.Contains(call.Prog, "%O") {
			add("logical-and-or")
		}
	}
	if len(c.Calls) > 1 {
		add("multi-call")
	}
	return out
}

// ---------------------------------------------------------------- robustness

type RobustCase struct {
	Prog   []byte            `json:"prog"`
	Params []tiref.ParamSpec `json:"params"`
}

func genRobust(t *rapid.T) RobustCase {
	var prog []byte
	switch rapid.IntRange(0, 2).Draw(t, "mode") {
	case 0:
		prog = rapid.SliceOfN(rapid.Byte(), 0, 40).Draw(t, "bytes")
	case 1:
		// directive soup
		n := rapid.IntRange(0, 20).Draw(t, "n")
		for i := 0; i < n; i++ {
			prog = append(prog, '%')
			prog = append(prog, rapid.SampledFrom([]byte("%pPgidcsxXo:0123456789.+-*/m&|^=<>!~?te;l'{} #AOz")).Draw(t, "d"))
			if rapid.Bool().Draw(t, "arg") {
				prog = append(prog, rapid.SampledFrom([]byte("0129azAZ'}{%;x \x00\xff")).Draw(t, "a"))
			}
		}
	default:
		// mutate a well-formed program: truncate / delete a byte
		ps := tiref.GenParams(t, false)
		s := []byte(tiref.String(tiref.GenProgram(t, ps, tiref.GenOpts{Depth: 3})))
		if len(s) > 0 {
			cut := rapid.IntRange(0, len(s)).Draw(t, "cut")
			s = s[:cut]
		}
		if len(s) > 1 && rapid.Bool().Draw(t, "del") {
			i := rapid.IntRange(0, len(s)-1).Draw(t, "deli")
			s = append(append([]byte{}, s[:i]...), s[i+1:]...)
		}
		prog = s
	}
	np := rapid.IntRange(0, 11).Draw(t, "np")
	var ps []tiref.ParamSpec
	for i := 0; i < np; i++ {
		if rapid.Bool().Draw(t, "s") {
			ps = append(ps, tiref.ParamSpec{IsStr: true, S: string(rapid.SliceOfN(rapid.Byte(), 0, 5).Draw(t, "sv"))})
		} else {
			ps = append(ps, tiref.ParamSpec{I: int64(rapid.Int32().Draw(t, "iv"))})
		}
	}
	return RobustCase{Prog: prog, Params: ps}
}

func robustProp(c RobustCase) error {
	done := make(chan error, 1)
	go func() {
		done <- pbt.Safe(func() error {
			_ = ti.TParm(string(c.Prog), toArgs(c.Params)...)
			return nil
		})
	}()
	select {
	case err := <-done:
		return err
	case <-pbt.After(5 * time.Second):
		return fmt.Errorf("TParm(%q, %v) did not return within 5s", c.Prog, toArgs(c.Params))
	}
}

// ---------------------------------------------------------------- database sweep

var hardCoded = map[string]string{
	"tscreen:underColor":    "\x1b[58:5:%p1%dm",
	"tscreen:underRGB":      "\x1b[58:2::%p1%d:%p2%d:%p3%dm",
	"tscreen:enterUrl":      "\x1b]8;%p2%s;%p1%s\x1b\\",
	"tscreen:setWinSize":    "\x1b[8;%p1%p2%d;%dt",
	"tscreen:setTitle":      "\x1b[>2t\x1b]2;%p1%s\x1b\\",
	"tscreen:setClipboard":  "\x1b]52;c;%p1%s\x1b\\",
	"tscreen:cursorRGB":     "\x1b]12;#%p1%02x%p2%02x%p3%02x\007",
	"lookup:SetFgRGB":       "\x1b[38;2;%p1%d;%p2%d;%p3%dm",
	"lookup:SetBgRGB":       "\x1b[48;2;%p1%d;%p2%d;%p3%dm",
	"lookup:SetFgBgRGB":     "\x1b[38;2;%p1%d;%p2%d;%p3%d;48;2;%p4%d;%p5%d;%p6%dm",
	"lookup:SetFg256":       "\x1b[%?%p1%{8}%<%t3%p1%d%e%p1%{16}%<%t9%p1%{8}%-%d%e38;5;%p1%d%;m",
	"lookup:SetBg256":       "\x1b[%?%p1%{8}%<%t4%p1%d%e%p1%{16}%<%t10%p1%{8}%-%d%e48;5;%p1%d%;m",
	"lookup:SetFgBg256":     "\x1b[%?%p1%{8}%<%t3%p1%d%e%p1%{16}%<%t9%p1%{8}%-%d%e38;5;%p1%d%;;%?%p2%{8}%<%t4%p2%d%e%p2%{16}%<%t10%p2%{8}%-%d%e48;5;%p2%d%;m",
	"xterm-style:cursorRGB": "\x1b]12;#%p1%02x%p2%02x%p3%02x\x1b\\",
}

type dbString struct {
	S     string
	Where []string
}

func collectStrings() []dbString {
	m := map[string][]string{}
	seenEntry := map[*terminfo.Terminfo]bool{}
	for _, e := range terminfo.VerifTerminfos() {
		if seenEntry[e] {
			continue
		}
		seenEntry[e] = true
		v := reflect.ValueOf(e).Elem()
		for i := 0; i < v.NumField(); i++ {
			f := v.Field(i)
			if f.Kind() != reflect.String {
				continue
			}
			s := f.String()
			name := v.Type().Field(i).Name
			if strings.HasPrefix(name, "Key") || name == "Name" || name == "AltChars" || name == "Mouse" || name == "PasteStart" || name == "PasteEnd" {
				continue
			}
			if strings.Contains(s, "%") {
				m[s] = append(m[s], e.Name+"."+name)
			}
		}
	}
	for k, s := range hardCoded {
		m[s] = append(m[s], k)
	}
	var out []dbString
	for s, w := range m {
		sort.Strings(w)
		out = append(out, dbString{S: s, Where: w})
	}
	sort.Slice(out, func(i, j int) bool { return out[i].S < out[j].S })
	return out
}

// stringParams finds parameters that are consumed as strings (%pN directly
// followed by %s or %l).
func stringParams(prog []tiref.Node) map[int]bool {
	out := map[int]bool{}
	var walk func(ns []tiref.Node)
	walk = func(ns []tiref.Node) {
		for i, n := range ns {
			if n.Kind == tiref.NParam && i+1 < len(ns) {
				nx := ns[i+1]
				if (nx.Kind == tiref.NOut && nx.Verb == "s") || nx.Kind == tiref.NLen {
					out[n.N] = true
				}
			}
			if n.Kind == tiref.NCond {
				for _, c := range n.Clauses {
					walk(c.Cond)
					walk(c.Body)
				}
				walk(n.Else)
			}
		}
	}
	walk(prog)
	return out
}

type SweepCase struct {
	Prog   string            `json:"prog"`
	Where  []string          `json:"where"`
	Params []tiref.ParamSpec `json:"params"`
}

func evalOne(sw *pbt.Sweep, d dbString, prog []tiref.Node, nontrivial bool, params []tiref.ParamSpec, record bool) {
	m := &tiref.Machine{}
	vals := tiref.Values(params)
	want, err := m.Eval(prog, vals)
	if err != nil {
		if cl := unspecified(err); cl != "" {
			pbt.Excluded(cl)
			return
		}
	}
	got := ti.TParm(d.S, toArgs(params)...)
	var res error
	if err != nil {
		res = fmt.Errorf("harness: reference failed on database string %q: %v", d.S, err)
	} else if got != want {
		res = fmt.Errorf("TParm(%q [%s], %v) = %q, terminfo(5) reference gives %q", d.S, strings.Join(d.Where, ","), toArgs(params), got, want)
	}
	if res != nil || record {
		h := pbt.HashStr(d.S, fmt.Sprint(toArgs(params)))
		sw.Case(nontrivial, h, func() any { return SweepCase{Prog: d.S, Where: d.Where, Params: params} }, res, nil)
	} else {
		pbt.NoteN(1)
	}
}

func sweepDB(t *testing.T) {
	sw := pbt.NewSweep(t, "db-sweep")
	var rc SweepCase
	if pbt.ReplayCase("db-sweep", &rc) {
		prog, err := tiref.Parse(rc.Prog)
		if err != nil {
			pbt.Inconclusive("replay: " + err.Error())
			return
		}
		evalOne(sw, dbString{S: rc.Prog, Where: rc.Where}, prog, true, rc.Params, true)
		pbt.Note(true, 1)
		pbt.Note(true, 2)
		return
	}
	if sw.Skip() {
		return
	}
	strs := collectStrings()
	pbt.Extra("db_distinct_parameterized_strings", len(strs))
	full := pbt.Thorough()
	strLattice := []string{"", "a", "http://x.y/z?q=1;2", "id=7", "é世", "%d%p1", "\x1b]", "QUJD"}
	item := 0
	for _, d := range strs {
		prog, err := tiref.Parse(d.S)
		if err != nil {
			sw.Case(true, pbt.HashStr(d.S), func() any { return SweepCase{Prog: d.S, Where: d.Where} }, fmt.Errorf("database string %q (%s) is not a well-formed terminfo(5) program: %v", d.S, strings.Join(d.Where, ","), err), nil)
			continue
		}
		u := tiref.Analyze(prog)
		sp := stringParams(prog)
		nontrivial := u.Conds > 0
		np := u.MaxParam
		mk := func(vals ...int) []tiref.ParamSpec {
			ps := make([]tiref.ParamSpec, np)
			for i := 0; i < np; i++ {
				if sp[i+1] {
					ps[i] = tiref.ParamSpec{IsStr: true, S: strLattice[((vals[i]%len(strLattice))+len(strLattice))%len(strLattice)]}
				} else {
					ps[i] = tiref.ParamSpec{I: int64(vals[i])}
				}
			}
			return ps
		}
		switch {
		case np == 0:
			evalOne(sw, d, prog, nontrivial, nil, true)
		case np == 1:
			max := 1024
			if full {
				max = 70000
			}
			for a := -2; a < max; a++ {
				item++
				if !sw.Mine(item) {
					continue
				}
				evalOne(sw, d, prog, nontrivial, mk(a), a%97 == 0)
			}
		case np == 2:
			lim := 1024
			step := func(a int) int {
				if full || a < 40 {
					return 1
				}
				return 7
			}
			for a := 0; a < lim; a += step(a) {
				item++
				if !sw.Mine(item) {
					continue
				}
				for b := 0; b < lim; b += step(b) {
					evalOne(sw, d, prog, nontrivial, mk(a, b), (a*lim+b)%4099 == 0)
				}
			}
		case np == 3:
			lat := []int{0, 1, 2, 7, 8, 15, 16, 31, 64, 95, 127, 128, 135, 200, 254, 255, 256}
			if full {
				lat = nil
				for i := 0; i <= 256; i += 3 {
					lat = append(lat, i)
				}
				lat = append(lat, 255, 256)
			}
			for _, a := range lat {
				item++
				if !sw.Mine(item) {
					continue
				}
				for _, b := range lat {
					for _, c := range lat {
						evalOne(sw, d, prog, nontrivial, mk(a, b, c), (a+b*3+c*7)%211 == 0)
					}
				}
			}
		default:
			lat := []int{0, 9, 127, 255}
			if full {
				lat = []int{0, 1, 9, 99, 128, 255}
			}
			idx := make([]int, np)
			for {
				item++
				if sw.Mine(item) {
					vals := make([]int, np)
					s := 0
					for i := range idx {
						vals[i] = lat[idx[i]]
						s += idx[i] * (i + 3)
					}
					evalOne(sw, d, prog, nontrivial, mk(vals...), s%53 == 0)
				}
				k := 0
				for k < np {
					idx[k]++
					if idx[k] < len(lat) {
						break
					}
					idx[k] = 0
					k++
				}
				if k == np {
					break
				}
			}
		}
	}
	if full {
		pbt.Exhaustive("every distinct parameterized string of the database and tcell's hard-coded sequences: 1-parameter strings over -2..69999, 2-parameter strings over 0..1023 x 0..1023")
	} else {
		pbt.Exhaustive("every distinct parameterized string of the database and tcell's hard-coded sequences: 1-parameter strings over -2..1023; 2-parameter strings over a 0..39 dense + step-7 lattice of 0..1023")
	}
}

// ---------------------------------------------------------------- ncurses cross-check of the reference

const pyOracle = `
import sys, json, curses
curses.setupterm("xterm")
cases = json.load(open(sys.argv[1]))
out = []
for c in cases:
    try:
        r = curses.tparm(c["prog"].encode("latin-1"), *c["params"])
        out.append(r.hex())
    except Exception as e:
        out.append(None)
json.dump(out, open(sys.argv[2], "w"))
`

func refCheck(t *testing.T) {
	if _, replaying := pbt.Replaying(); replaying {
		return
	}
	if s, _ := pbt.Shard(); s != 0 {
		return
	}
	py, err := exec.LookPath("python3")
	if err != nil {
		pbt.Extra("ncurses_crosscheck", "skipped: python3 not found")
		return
	}
	n := pbt.Pick(1500, 20000)
	type pc struct {
		Prog   string  `json:"prog"`
		Params []int64 `json:"params"`
	}
	var cases []pc
	var wants []string
	// the prefix zeroes the dynamic variables the generator uses (older ncurses
	// keeps them across calls) and references %p1 so that ncurses does not fall
	// into its termcap-compatibility mode (parameters pre-pushed when no %p occurs)
	reset := "%p1%Pa%{0}%Pa%{0}%Pb%{0}%Pc%{0}%Pd"
	gen := rapid.Custom(func(t *rapid.T) pc {
		ps := tiref.GenParams(t, true)
		if len(ps) == 0 {
			ps = []tiref.ParamSpec{{I: 3}}
		}
		prog := tiref.GenProgram(t, ps, tiref.GenOpts{Depth: 4, IntOnly: true, NoStatics: true})
		c := pc{Prog: reset + tiref.String(prog)}
		for _, p := range ps {
			c.Params = append(c.Params, p.I)
		}
		return c
	})
	skipped := 0
	for i := 0; len(cases) < n && i < n*4; i++ {
		c := gen.Example(int(pbt.Seed()%1000000) + i)
		if strings.ContainsAny(c.Prog, "\x00") {
			continue
		}
		prog, err := tiref.Parse(c.Prog)
		if err != nil {
			pbt.Inconclusive("refcheck: generated program does not parse: " + c.Prog)
			return
		}
		var vals []tiref.Value
		for _, p := range c.Params {
			vals = append(vals, tiref.IntV(p))
		}
		m := &tiref.Machine{}
		pr := scanUnspecified(prog, m, vals)
		w, err := m.Eval(prog, vals)
		if err != nil || pr.zeroChar || pr.fmtHighChar {
			skipped++
			continue
		}
		cases = append(cases, c)
		wants = append(wants, w)
	}
	dir, err := os.MkdirTemp("", "c07ref")
	if err != nil {
		pbt.Extra("ncurses_crosscheck", "skipped: no temp dir")
		return
	}
	defer os.RemoveAll(dir)
	b, _ := json.Marshal(cases)
	_ = os.WriteFile(dir+"/in.json", b, 0o644)
	_ = os.WriteFile(dir+"/o.py", []byte(pyOracle), 0o644)
	cmd := exec.Command(py, dir+"/o.py", dir+"/in.json", dir+"/out.json")
	cmd.Env = append(os.Environ(), "TERM=xterm")
	if outb, err := cmd.CombinedOutput(); err != nil {
		pbt.Extra("ncurses_crosscheck", "skipped: python curses unavailable: "+strings.TrimSpace(string(outb)))
		return
	}
	ob, err := os.ReadFile(dir + "/out.json")
	if err != nil {
		pbt.Extra("ncurses_crosscheck", "skipped: no oracle output")
		return
	}
	var got []*string
	if json.Unmarshal(ob, &got) != nil || len(got) != len(cases) {
		pbt.Extra("ncurses_crosscheck", "skipped: oracle output unreadable")
		return
	}
	agree, errs := 0, 0
	for i := range cases {
		if got[i] == nil {
			errs++
			continue
		}
		if gb, err := hex.DecodeString(*got[i]); err != nil || string(gb) != wants[i] {
			*got[i] = string(gb)
			pbt.Inconclusive(fmt.Sprintf("reference interpreter disagrees with ncurses tparm on %q %v: reference %q, ncurses %q", cases[i].Prog, cases[i].Params, wants[i], *got[i]))
			return
		}
		agree++
	}
	pbt.Extra("ncurses_crosscheck", fmt.Sprintf("reference interpreter agreed with ncurses tparm on %d integer-only generated programs (%d rejected by ncurses, %d skipped as unspecified)", agree, errs, skipped))
}

func TestProp(t *testing.T) {
	defer pbt.Recover(t)
	pbt.Describe("db-sweep: every distinct parameterized string found by reflection in the registered database entries plus tcell's hard-coded sequences, over parameter lattices (see exhaustive_subspaces), compared with the reference terminfo(5) interpreter; programs: rapid typed-grammar programs (depth <= 4 quick / 6 thorough; literals, %%, %p1-9, %i, %d/%c/%s and printf formats with flags/width/precision, %'c', %{n}, %l, all arithmetic/bitwise/logical/comparison operators, dynamic and static variables, nested conditionals and else-if chains) in sequences of 1-4 calls sharing static variables; robust: arbitrary byte strings, directive soup and truncated programs with arbitrary parameter lists must return without panic within 5 s. Non-trivial = program contains a nested conditional, an else-if chain or a static variable used by a later call (db-sweep: string contains a conditional); distinct = hash of the case.",
		"the reference interpreter in harness/internal/tiref (cross-checked against ncurses tparm through python3 curses, see ncurses_crosscheck)",
		"C int semantics: evaluations whose intermediate values leave the int32 range are discarded and counted (excluded)",
		"%c of 0, formatted %c outside 1..127, %x/%o/%X of negative numbers, operand type confusion and parameters not supplied by the caller are treated as unspecified and discarded (counted)")
	sweepDB(t)
	pbt.Check(t, "programs", pbt.Pick(60000, 1500000), pbt.Spec[ProgCase]{
		Gen: genProgCase, Prop: progProp, NonTrivial: progNonTrivial, Classes: progClasses,
	})
	pbt.Check(t, "robust", pbt.Pick(20000, 300000), pbt.Spec[RobustCase]{
		Gen: genRobust, Prop: robustProp,
		NonTrivial: func(c RobustCase) bool {
			return strings.Contains(string(c.Prog), "%?") || strings.Contains(string(c.Prog), "%p")
		},
	})
	refCheck(t)
}
