package c07

import (
	"testing"

	"verifharness/internal/pbt"
)

func FuzzPrograms(f *testing.F) {
	pbt.FuzzRapid(f, "programs", pbt.Spec[ProgCase]{Gen: genProgCase, Prop: progProp})
}

func FuzzRobust(f *testing.F) {
	pbt.FuzzRapid(f, "robust", pbt.Spec[RobustCase]{Gen: genRobust, Prop: robustProp})
}
