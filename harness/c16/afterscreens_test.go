package c16

import (
	"fmt"
	"os"
	"testing"

	"github.com/gdamore/tcell/v2"
	"github.com/gdamore/tcell/v2/terminfo"

	"verifharness/internal/faketty"
	"verifharness/internal/pbt"
)

// afterScreens: the colour tables are process-wide. Bringing up and shutting
// down screens on descriptions of every colour depth (8, 16, 88, 256 and direct
// colour), drawing a few coloured cells on each, must leave them exactly as they
// were: the palette sweep and the name table are run once more afterwards.
func afterScreens(t *testing.T) {
	sw := pbt.NewSweep(t, "tables-after-screens")
	if sw.Skip() {
		return
	}
	os.Setenv("LC_ALL", "en_US.UTF-8")
	before := map[tcell.Color]int32{}
	for k, v := range tcell.ColorValues {
		before[k] = v
	}
	names := []string{"linux", "xterm", "xterm-16color", "xterm-88color", "rxvt-88color", "rxvt-unicode", "xterm-256color", "xterm-direct", "vt100", "sun-color"}
	for _, n := range names {
		base, err := terminfo.LookupTerminfo(n)
		if err != nil {
			continue // not every name is in the built-in database
		}
		ti := *base
		ti.PadChar = ""
		s, err := tcell.NewTerminfoScreenFromTtyTerminfo(faketty.New(20, 4), &ti)
		if err != nil {
			pbt.Inconclusive("harness: " + err.Error())
			continue
		}
		if err := s.Init(); err != nil {
			pbt.Inconclusive("harness: Init " + n + ": " + err.Error())
			continue
		}
		for i := 0; i < 20; i++ {
			st := tcell.StyleDefault.Foreground(tcell.PaletteColor(i * 12)).Background(tcell.NewRGBColor(int32(i*12), 7, int32(255-i*12)))
			s.SetContent(i, i%4, 'x', nil, st)
		}
		s.Show()
		s.Fini()
		pbt.Class("tables-after-screens:" + fmt.Sprintf("colors-%d", ti.Colors))
	}
	var err error
	if len(tcell.ColorValues) != len(before) {
		err = fmt.Errorf("after screens on %v were used, ColorValues has %d entries, it had %d before", names, len(tcell.ColorValues), len(before))
	}
	for k, v := range before {
		if err == nil && tcell.ColorValues[k] != v {
			err = fmt.Errorf("after screens on %v were used, ColorValues[%#x] = %#06x, it was %#06x before any screen existed", names, uint64(k), tcell.ColorValues[k], v)
		}
	}
	sw.Case(true, 1, func() any { return map[string]any{"screens": names} }, err, nil)
	for i := 0; i < 256; i++ {
		c := PalCase{Index: i}
		perr := pbt.Safe(func() error { return propPalette(c) })
		if perr != nil {
			perr = fmt.Errorf("after screens on %v were used: %v", names, perr)
		}
		sw.Case(true, uint64(i)+2, func() any { return c }, perr, nil)
	}
}
