// C16 — Colour table, names and conversions are exact; FindColor is optimal.
//
// Domain: all 256 palette indices, every colour name (tcell's and CSS's), all
// 2^24 RGB values (thorough; stratified 2^20 sample in quick) for the
// conversion identities, invalid/special colour values, and FindColor over all
// 2^24 RGB values (thorough; ~2^16 stratified sample per palette in quick)
// against the first 8/16/88/256 palette colours plus rapid-generated palettes.
// Oracles (independent of tcell's tables and of go-colorful): the xterm
// palette formula, an embedded CSS named-colour table, and an own
// sRGB -> XYZ(D65) -> CIELAB / CIE76 implementation (ref_test.go).
package c16

import (
	"fmt"
	"image/color"
	"sort"
	"testing"
	"time"

	"github.com/gdamore/tcell/v2"
	"pgregory.net/rapid"

	"verifharness/internal/pbt"
)

func TestMain(m *testing.M) { pbt.Main(m, "C16") }

// knownFinding maps a failure of sub-check `check` onto the id of a finding
// listed in /verif/known_findings.json ("" = not known: report a violation).
// TODO(wire): no C16 divergence is known on the current tree; if one is
// accepted as a known finding, match its exact failure class here.
func knownFinding(check string, err error) string { return "" }

func knownFor(check string) func(error) string {
	return func(err error) string { return knownFinding(check, err) }
}

const maxSweepFails = 20 // a sweep stops after this many failing items

func splitmix(x uint64) uint64 {
	x += 0x9e3779b97f4a7c15
	x = (x ^ (x >> 30)) * 0xbf58476d1ce4e5b9
	x = (x ^ (x >> 27)) * 0x94d049bb133111eb
	return x ^ (x >> 31)
}

func rawColor(raw uint64) tcell.Color { return tcell.Color(raw) }

// rgbColorRaw is the documented representation of a 24-bit RGB colour.
func rgbColorRaw(v int32) uint64 { return bitValid | bitIsRGB | uint64(v&0xffffff) }

// ================================================================ palette

type PalCase struct {
	Index int `json:"index"`
}

var ansiConsts = [16]tcell.Color{
	tcell.ColorBlack, tcell.ColorMaroon, tcell.ColorGreen, tcell.ColorOlive,
	tcell.ColorNavy, tcell.ColorPurple, tcell.ColorTeal, tcell.ColorSilver,
	tcell.ColorGray, tcell.ColorRed, tcell.ColorLime, tcell.ColorYellow,
	tcell.ColorBlue, tcell.ColorFuchsia, tcell.ColorAqua, tcell.ColorWhite,
}

var someXtermConsts = map[int]tcell.Color{
	16: tcell.Color16, 17: tcell.Color17, 100: tcell.Color100, 196: tcell.Color196,
	231: tcell.Color231, 232: tcell.Color232, 244: tcell.Color244, 255: tcell.Color255,
}

func propPalette(c PalCase) error {
	i := c.Index
	if i < 0 || i > 255 {
		return fmt.Errorf("case outside the domain: palette index %d", i)
	}
	want := refPalette(i)
	col := tcell.PaletteColor(i)
	if uint64(col) != bitValid|uint64(i) {
		return fmt.Errorf("PaletteColor(%d) = %#x, want ColorValid|%d", i, uint64(col), i)
	}
	if !col.Valid() {
		return fmt.Errorf("PaletteColor(%d).Valid() = false", i)
	}
	if col.IsRGB() {
		return fmt.Errorf("PaletteColor(%d).IsRGB() = true", i)
	}
	if got := col.Hex(); got != want {
		return fmt.Errorf("PaletteColor(%d).Hex() = %#06x, xterm value is %#06x", i, got, want)
	}
	r, g, b := col.RGB()
	if r != (want>>16)&0xff || g != (want>>8)&0xff || b != want&0xff {
		return fmt.Errorf("PaletteColor(%d).RGB() = (%d,%d,%d), xterm value is %#06x", i, r, g, b, want)
	}
	if v, ok := tcell.ColorValues[col]; !ok || v != want {
		return fmt.Errorf("ColorValues[PaletteColor(%d)] = %#06x (present=%v), xterm value is %#06x", i, v, ok, want)
	}
	if got := col.TrueColor(); uint64(got) != rgbColorRaw(want) {
		return fmt.Errorf("PaletteColor(%d).TrueColor() = %#x, want the RGB colour %#06x (%#x)", i, uint64(got), want, rgbColorRaw(want))
	}
	if got := col.CSS(); got != cssHex(want, true) {
		return fmt.Errorf("PaletteColor(%d).CSS() = %q, want %q", i, got, cssHex(want, true))
	}
	if i < 16 && ansiConsts[i] != col {
		return fmt.Errorf("named ANSI constant %d = %#x differs from PaletteColor(%d)", i, uint64(ansiConsts[i]), i)
	}
	if k, ok := someXtermConsts[i]; ok && k != col {
		return fmt.Errorf("constant Color%d = %#x differs from PaletteColor(%d)", i, uint64(k), i)
	}
	return nil
}

func palClasses(c PalCase) []string {
	switch {
	case c.Index < 8:
		return []string{"ansi-0-7"}
	case c.Index < 16:
		return []string{"ansi-8-15"}
	case c.Index < 232:
		return []string{"cube"}
	}
	return []string{"grey-ramp"}
}

// ================================================================ ColorValues

type ValueCase struct {
	Raw uint64 `json:"raw"` // a key of tcell.ColorValues
}

func colorValueKeys() []uint64 {
	keys := make([]uint64, 0, len(tcell.ColorValues))
	for k := range tcell.ColorValues {
		keys = append(keys, uint64(k))
	}
	sort.Slice(keys, func(i, j int) bool { return keys[i] < keys[j] })
	return keys
}

func propValue(c ValueCase) error {
	col := rawColor(c.Raw)
	v, ok := tcell.ColorValues[col]
	if !ok {
		return nil // not a key (any more): nothing stated
	}
	want, known := refRGB(col)
	if !known {
		return fmt.Errorf("ColorValues has key %#x which is neither a palette colour 0..255 nor an RGB colour", c.Raw)
	}
	if v != want {
		return fmt.Errorf("ColorValues[%#x] = %#06x, reference value is %#06x", c.Raw, v, want)
	}
	if got := col.Hex(); got != want {
		return fmt.Errorf("Color(%#x).Hex() = %#06x, reference value is %#06x", c.Raw, got, want)
	}
	return nil
}

// ================================================================ names

type NameCase struct {
	Name string `json:"name"`
}

func allNames() []string {
	seen := map[string]bool{}
	var out []string
	for n := range tcell.ColorNames {
		if !seen[n] {
			seen[n] = true
			out = append(out, n)
		}
	}
	for n := range cssNamed {
		if !seen[n] {
			seen[n] = true
			out = append(out, n)
		}
	}
	sort.Strings(out)
	return out
}

func propName(c NameCase) error {
	tc, inTcell := tcell.ColorNames[c.Name]
	css, inCSS := cssNamed[c.Name]
	if !inTcell {
		// a CSS name tcell does not offer: nothing to check (counted as a class)
		return nil
	}
	got := tcell.GetColor(c.Name)
	if got != tc {
		return fmt.Errorf("GetColor(%q) = %#x but ColorNames[%q] = %#x", c.Name, uint64(got), c.Name, uint64(tc))
	}
	if !got.Valid() {
		return fmt.Errorf("GetColor(%q) = %#x is not Valid()", c.Name, uint64(got))
	}
	if inCSS {
		if h := got.Hex(); h != css {
			return fmt.Errorf("GetColor(%q).Hex() = %#06x, the CSS value of %q is %#06x", c.Name, h, c.Name, css)
		}
		r, g, b := got.RGB()
		if r != (css>>16)&0xff || g != (css>>8)&0xff || b != css&0xff {
			return fmt.Errorf("GetColor(%q).RGB() = (%d,%d,%d), the CSS value is %#06x", c.Name, r, g, b, css)
		}
		if s := got.CSS(); s != cssHex(css, true) {
			return fmt.Errorf("GetColor(%q).CSS() = %q, want %q", c.Name, s, cssHex(css, true))
		}
		if tv := got.TrueColor(); uint64(tv) != rgbColorRaw(css) {
			return fmt.Errorf("GetColor(%q).TrueColor() = %#x, want RGB colour %#06x", c.Name, uint64(tv), css)
		}
	}
	return nil
}

func nameClasses(c NameCase) []string {
	_, inTcell := tcell.ColorNames[c.Name]
	_, inCSS := cssNamed[c.Name]
	switch {
	case inTcell && inCSS:
		if tcell.ColorNames[c.Name].IsRGB() {
			return []string{"css-name-rgb-constant"}
		}
		return []string{"css-name-palette-constant"}
	case inTcell:
		return []string{"tcell-only-name"}
	}
	return []string{"css-name-missing-in-tcell"}
}

// ================================================================ conversions

type ConvCase struct {
	V int32 `json:"rgb"` // 0xRRGGBB
}

func propConv(c ConvCase) error {
	v := c.V
	if v < 0 || v > 0xffffff {
		return fmt.Errorf("case outside the domain: rgb %#x", v)
	}
	r, g, b := (v>>16)&0xff, (v>>8)&0xff, v&0xff
	col := tcell.NewHexColor(v)
	if uint64(col) != rgbColorRaw(v) {
		return fmt.Errorf("NewHexColor(%#06x) = %#x, want ColorValid|ColorIsRGB|%#06x", v, uint64(col), v)
	}
	if !col.Valid() || !col.IsRGB() {
		return fmt.Errorf("NewHexColor(%#06x): Valid()=%v IsRGB()=%v, want true/true", v, col.Valid(), col.IsRGB())
	}
	if got := col.Hex(); got != v {
		return fmt.Errorf("NewHexColor(%#06x).Hex() = %#06x", v, got)
	}
	if gr, gg, gb := col.RGB(); gr != r || gg != g || gb != b {
		return fmt.Errorf("NewHexColor(%#06x).RGB() = (%d,%d,%d), want (%d,%d,%d)", v, gr, gg, gb, r, g, b)
	}
	c2 := tcell.NewRGBColor(r, g, b)
	if c2 != col {
		return fmt.Errorf("NewRGBColor(%d,%d,%d) = %#x, want %#x", r, g, b, uint64(c2), uint64(col))
	}
	if gr, gg, gb := c2.RGB(); gr != r || gg != g || gb != b {
		return fmt.Errorf("NewRGBColor(%d,%d,%d).RGB() = (%d,%d,%d)", r, g, b, gr, gg, gb)
	}
	if got := col.TrueColor(); got != col {
		return fmt.Errorf("TrueColor() of RGB colour %#06x = %#x, want itself (%#x)", v, uint64(got), uint64(col))
	}
	wantCSS := cssHex(v, true)
	css := col.CSS()
	if css != wantCSS {
		return fmt.Errorf("NewHexColor(%#06x).CSS() = %q, want %q", v, css, wantCSS)
	}
	if got := tcell.GetColor(css); got != col {
		return fmt.Errorf("GetColor(%q) = %#x, want %#x", css, uint64(got), uint64(col))
	}
	lower := cssHex(v, false)
	if got := tcell.GetColor(lower); got != col {
		return fmt.Errorf("GetColor(%q) = %#x, want %#x", lower, uint64(got), uint64(col))
	}
	r8, g8, b8 := uint8(r), uint8(g), uint8(b)
	if got := tcell.FromImageColor(color.RGBA{R: r8, G: g8, B: b8, A: 255}); got != col {
		return fmt.Errorf("FromImageColor(color.RGBA{%d,%d,%d,255}) = %#x, want %#x", r, g, b, uint64(got), uint64(col))
	}
	if got := tcell.FromImageColor(color.NRGBA{R: r8, G: g8, B: b8, A: 255}); got != col {
		return fmt.Errorf("FromImageColor(color.NRGBA{%d,%d,%d,255}) = %#x, want %#x", r, g, b, uint64(got), uint64(col))
	}
	c64 := color.RGBA64{R: uint16(r) * 0x101, G: uint16(g) * 0x101, B: uint16(b) * 0x101, A: 0xffff}
	if got := tcell.FromImageColor(c64); got != col {
		return fmt.Errorf("FromImageColor(color.RGBA64{%#x,%#x,%#x,0xffff}) = %#x, want %#x", c64.R, c64.G, c64.B, uint64(got), uint64(col))
	}
	return nil
}

func convClasses(c ConvCase) []string {
	r, g, b := (c.V>>16)&0xff, (c.V>>8)&0xff, c.V&0xff
	var out []string
	if r == g && g == b {
		out = append(out, "grey")
	}
	if r == 0 || g == 0 || b == 0 || r == 255 || g == 255 || b == 255 {
		out = append(out, "on-cube-face")
	}
	if r < 16 || g < 16 || b < 16 {
		out = append(out, "leading-zero-hex-digit")
	}
	if r >= 0x80 {
		out = append(out, "high-bit-red")
	}
	return out
}

// convQuickValues is the quick tier's stratified sample: one value in each of
// the 2^20 cells (7 bits of red, 7 of green, 6 of blue) plus boundary values.
func convQuickValues() []int32 {
	seed := pbt.Seed()
	out := make([]int32, 0, 1<<20+1024)
	for s := 0; s < 1<<20; s++ {
		h := splitmix(seed ^ uint64(s)*0x9e3779b97f4a7c15)
		r := int32(s>>13)<<1 | int32(h&1)
		g := int32((s>>6)&127)<<1 | int32((h>>1)&1)
		b := int32(s&63)<<2 | int32((h>>2)&3)
		out = append(out, r<<16|g<<8|b)
	}
	edge := []int32{0, 1, 15, 16, 127, 128, 254, 255}
	for _, r := range edge {
		for _, g := range edge {
			for _, b := range edge {
				out = append(out, r<<16|g<<8|b)
			}
		}
	}
	for i := 0; i < 256; i++ {
		out = append(out, refPalette(i))
	}
	for _, v := range cssNamed {
		out = append(out, v)
	}
	return out
}

// ================================================================ invalid / special

type InvalidCase struct {
	Raw uint64 `json:"raw"`
}

func propInvalid(c InvalidCase) error {
	col := rawColor(c.Raw)
	if c.Raw&bitValid != 0 {
		// "unknown" colour: valid bit, not RGB, no table entry. Only the
		// documented "-1" of Hex and RGB is asserted.
		if c.Raw&bitIsRGB != 0 || c.Raw&^bitValid < 256 {
			return fmt.Errorf("case outside the domain: %#x is a known colour", c.Raw)
		}
		if h := col.Hex(); h != -1 {
			return fmt.Errorf("Color(%#x) (valid bit, unknown index).Hex() = %d, documented -1", c.Raw, h)
		}
		if r, g, b := col.RGB(); r != -1 || g != -1 || b != -1 {
			return fmt.Errorf("Color(%#x) (valid bit, unknown index).RGB() = (%d,%d,%d), documented (-1,-1,-1)", c.Raw, r, g, b)
		}
		return nil
	}
	if col.Valid() {
		return fmt.Errorf("Color(%#x) has no valid bit but Valid() = true", c.Raw)
	}
	if h := col.Hex(); h != -1 {
		return fmt.Errorf("Color(%#x) (not valid).Hex() = %d, want -1", c.Raw, h)
	}
	if r, g, b := col.RGB(); r != -1 || g != -1 || b != -1 {
		return fmt.Errorf("Color(%#x) (not valid).RGB() = (%d,%d,%d), want (-1,-1,-1)", c.Raw, r, g, b)
	}
	if s := col.CSS(); s != "" {
		return fmt.Errorf("Color(%#x) (not valid).CSS() = %q, want \"\"", c.Raw, s)
	}
	// TrueColor of a colour that is not valid is ColorDefault in the current
	// implementation; the statement only says such colours "report not-valid",
	// so only that is asserted.
	if tv := col.TrueColor(); tv.Valid() {
		return fmt.Errorf("Color(%#x) (not valid).TrueColor() = %#x which is Valid()", c.Raw, uint64(tv))
	}
	return nil
}

func invalidClasses(c InvalidCase) []string {
	switch {
	case c.Raw == uint64(tcell.ColorDefault):
		return []string{"ColorDefault"}
	case c.Raw == uint64(tcell.ColorNone):
		return []string{"ColorNone"}
	case c.Raw == uint64(tcell.ColorReset):
		return []string{"ColorReset"}
	case c.Raw&bitValid != 0:
		return []string{"valid-bit-unknown-index"}
	}
	var out []string
	if c.Raw&bitSpecial != 0 {
		out = append(out, "special-bit")
	}
	if c.Raw&bitIsRGB != 0 {
		out = append(out, "rgb-bit-without-valid")
	}
	if c.Raw>>35 != 0 {
		out = append(out, "high-bits")
	}
	if c.Raw&0xffffffff < 256 && c.Raw>>32 == 0 {
		out = append(out, "bare-palette-index")
	}
	if rawColor(c.Raw).TrueColor() == tcell.ColorDefault {
		out = append(out, "truecolor-is-default")
	}
	return out
}

func invalidEnumerated() []uint64 {
	out := []uint64{uint64(tcell.ColorDefault), uint64(tcell.ColorNone), uint64(tcell.ColorReset)}
	flags := []uint64{bitIsRGB, bitSpecial, 1 << 35, 1 << 63}
	lows := []uint64{0, 1, 2, 7, 8, 15, 16, 255, 256, 0x123456, 0xffffff, 0x1000000, 0xffffffff}
	for m := 0; m < 1<<len(flags); m++ {
		var f uint64
		for i, fl := range flags {
			if m&(1<<i) != 0 {
				f |= fl
			}
		}
		for _, l := range lows {
			out = append(out, f|l)
		}
	}
	for _, idx := range []uint64{256, 257, 1000, 0xffffff, 0x1000000, 0xffffffff} {
		out = append(out, bitValid|idx)
	}
	out = append(out, bitValid|bitSpecial, bitValid|bitSpecial|1, bitValid|1<<35|5)
	return out
}

func genInvalid(t *rapid.T) InvalidCase {
	switch rapid.IntRange(0, 9).Draw(t, "kind") {
	case 0:
		return InvalidCase{Raw: rapid.SampledFrom(invalidEnumerated()).Draw(t, "enum")}
	case 1:
		// unknown index with the valid bit
		idx := rapid.Uint64Range(256, 0xffffffff).Draw(t, "idx")
		return InvalidCase{Raw: bitValid | idx}
	case 2, 3:
		// a bare index / rgb value with flag bits but no valid bit
		low := uint64(rapid.Uint32().Draw(t, "low"))
		var f uint64
		if rapid.Bool().Draw(t, "rgbbit") {
			f |= bitIsRGB
		}
		if rapid.Bool().Draw(t, "specialbit") {
			f |= bitSpecial
		}
		return InvalidCase{Raw: f | low}
	case 4:
		return InvalidCase{Raw: uint64(rapid.IntRange(0, 300).Draw(t, "bare"))}
	}
	return InvalidCase{Raw: rapid.Uint64().Draw(t, "raw") &^ bitValid}
}

// ================================================================ FindColor

// FindCase: Color and Palette hold raw tcell.Color values (valid palette
// colours 0..255 or RGB colours). Std > 0 means: the palette is the first Std
// palette colours and Palette is ignored.
type FindCase struct {
	Color   uint64   `json:"color"`
	Std     int      `json:"std,omitempty"`
	Palette []uint64 `json:"palette,omitempty"`
}

func stdPalette(n int) []tcell.Color {
	p := make([]tcell.Color, n)
	for i := range p {
		p[i] = tcell.PaletteColor(i)
	}
	return p
}

type finder struct {
	pal  []tcell.Color
	rgb  []int32
	labs []lab
	idx  map[tcell.Color]int
	d    []float64
}

func newFinder(pal []tcell.Color) (*finder, error) {
	f := &finder{pal: pal, idx: map[tcell.Color]int{}, d: make([]float64, len(pal))}
	for i, p := range pal {
		v, ok := refRGB(p)
		if !ok {
			return nil, fmt.Errorf("case outside the domain: palette entry %d = %#x is not a valid palette/RGB colour", i, uint64(p))
		}
		f.rgb = append(f.rgb, v)
		f.labs = append(f.labs, labOf(v))
		if _, dup := f.idx[p]; !dup {
			f.idx[p] = i
		}
	}
	return f, nil
}

type findInfo struct {
	res        tcell.Color
	resIdx     int
	nontrivial bool // no palette entry has the same RGB value as the colour
	tie        bool // another entry with a different RGB value is equally close (within tolerance)
	nearTie    bool // ... is within 0.1% of the best distance
}

const (
	relTol = 1e-9
	absTol = 1e-9
)

// check evaluates FindColor(c, palette) against the CIE76 oracle. cv/cl are
// the reference RGB value and CIELAB coordinates of c.
func (f *finder) check(c tcell.Color, cv int32, cl lab) (findInfo, error) {
	var in findInfo
	in.res = tcell.FindColor(c, f.pal)
	in.resIdx = -1
	if len(f.pal) == 0 {
		if in.res != tcell.ColorDefault {
			return in, fmt.Errorf("FindColor(%s, empty palette) = %#x, want ColorDefault", descr(c), uint64(in.res))
		}
		return in, nil
	}
	k, ok := f.idx[in.res]
	if !ok {
		return in, fmt.Errorf("FindColor(%s, %s) = %#x which is not a member of the palette", descr(c), f.descr(), uint64(in.res))
	}
	in.resIdx = k
	best, bi := -1.0, -1
	for i := range f.labs {
		d := deltaE76(cl, f.labs[i])
		f.d[i] = d
		if bi < 0 || d < best {
			best, bi = d, i
		}
	}
	in.nontrivial = true
	for i := range f.rgb {
		if f.rgb[i] == cv {
			in.nontrivial = false
			break
		}
	}
	lim := best*(1+relTol) + absTol
	for i := range f.d {
		if f.rgb[i] != f.rgb[bi] {
			if f.d[i] <= lim {
				in.tie = true
			}
			if f.d[i] <= best*1.001+absTol {
				in.nearTie = true
			}
		}
	}
	if got := f.d[k]; got > lim {
		return in, fmt.Errorf("FindColor(%s, %s) = %s at CIE76 distance %.12g, but palette entry [%d] %s is strictly closer: distance %.12g",
			descr(c), f.descr(), descr(in.res), got, bi, descr(f.pal[bi]), best)
	}
	return in, nil
}

func descr(c tcell.Color) string {
	v, ok := refRGB(c)
	if !ok {
		return fmt.Sprintf("Color(%#x)", uint64(c))
	}
	if uint64(c)&bitIsRGB != 0 {
		return "rgb " + cssHex(v, false)
	}
	return fmt.Sprintf("palette colour %d (%s)", uint64(c)&^bitValid, cssHex(v, false))
}

func (f *finder) descr() string {
	std := true
	for i, p := range f.pal {
		if p != tcell.PaletteColor(i) {
			std = false
			break
		}
	}
	if std {
		return fmt.Sprintf("first %d palette colours", len(f.pal))
	}
	return fmt.Sprintf("palette of %d colours", len(f.pal))
}

func (c FindCase) palette() ([]tcell.Color, error) {
	if c.Std > 0 {
		if c.Std > 256 {
			return nil, fmt.Errorf("case outside the domain: std palette size %d", c.Std)
		}
		return stdPalette(c.Std), nil
	}
	p := make([]tcell.Color, len(c.Palette))
	for i, r := range c.Palette {
		p[i] = rawColor(r)
	}
	return p, nil
}

func evalFind(c FindCase) (findInfo, error) {
	pal, err := c.palette()
	if err != nil {
		return findInfo{}, err
	}
	f, err := newFinder(pal)
	if err != nil {
		return findInfo{}, err
	}
	col := rawColor(c.Color)
	cv, ok := refRGB(col)
	if !ok {
		return findInfo{}, fmt.Errorf("case outside the domain: colour %#x is not a valid palette/RGB colour", c.Color)
	}
	return f.check(col, cv, labOf(cv))
}

func propFind(c FindCase) error {
	_, err := evalFind(c)
	return err
}

func findNonTrivial(c FindCase) bool {
	in, _ := evalFind(c)
	return in.nontrivial
}

func findClasses(c FindCase) []string {
	var out []string
	in, _ := evalFind(c)
	n := len(c.Palette)
	if c.Std > 0 {
		n = c.Std
		out = append(out, fmt.Sprintf("std-%d", c.Std))
	}
	switch {
	case n == 0:
		out = append(out, "palette-empty")
	case n == 1:
		out = append(out, "palette-size-1")
	case n <= 8:
		out = append(out, "palette-size-2-8")
	default:
		out = append(out, "palette-size-9+")
	}
	if c.Std == 0 {
		seen := map[uint64]bool{}
		dup, member, hasIdx, hasRGB := false, false, false, false
		for _, p := range c.Palette {
			if seen[p] {
				dup = true
			}
			seen[p] = true
			if p == c.Color {
				member = true
			}
			if p&bitIsRGB != 0 {
				hasRGB = true
			} else {
				hasIdx = true
			}
		}
		if dup {
			out = append(out, "palette-has-duplicates")
		}
		if hasIdx && hasRGB {
			out = append(out, "palette-mixes-index-and-rgb")
		}
		if member {
			out = append(out, "colour-is-member")
		}
	}
	if c.Color&bitIsRGB == 0 {
		out = append(out, "colour-is-palette-index")
	}
	if n > 0 && !in.nontrivial {
		out = append(out, "colour-rgb-equals-an-entry")
	}
	if in.tie {
		out = append(out, "tie")
	}
	if in.nearTie {
		out = append(out, "near-tie-0.1%")
	}
	return out
}

func clamp8(v int32) int32 {
	if v < 0 {
		return 0
	}
	if v > 255 {
		return 255
	}
	return v
}

func genColourRaw(t *rapid.T, prev []uint64) uint64 {
	switch k := rapid.IntRange(0, 9).Draw(t, "ckind"); {
	case k <= 2:
		return bitValid | uint64(rapid.IntRange(0, 255).Draw(t, "idx"))
	case k == 3 && len(prev) > 0:
		return prev[rapid.IntRange(0, len(prev)-1).Draw(t, "dup")]
	case k == 4:
		// the RGB colour with the same value as a palette colour
		return rgbColorRaw(refPalette(rapid.IntRange(0, 255).Draw(t, "same")))
	case k == 5:
		l := int32(rapid.IntRange(0, 255).Draw(t, "grey"))
		return rgbColorRaw(l<<16 | l<<8 | l)
	}
	return rgbColorRaw(int32(rapid.IntRange(0, 0xffffff).Draw(t, "rgb")))
}

func genFind(t *rapid.T) FindCase {
	var c FindCase
	n := 0
	switch k := rapid.IntRange(0, 19).Draw(t, "palkind"); {
	case k == 0:
		n = 0
	case k <= 4:
		n = rapid.IntRange(1, 3).Draw(t, "n")
	default:
		n = rapid.IntRange(1, 40).Draw(t, "n")
	}
	for i := 0; i < n; i++ {
		c.Palette = append(c.Palette, genColourRaw(t, c.Palette))
	}
	entryRGB := func(label string) int32 {
		v, _ := refRGB(rawColor(c.Palette[rapid.IntRange(0, n-1).Draw(t, label)]))
		return v
	}
	k := rapid.IntRange(0, 9).Draw(t, "colkind")
	switch {
	case n > 0 && k == 0:
		// a member of the palette (trivial case)
		c.Color = c.Palette[rapid.IntRange(0, n-1).Draw(t, "member")]
	case n > 0 && k <= 3:
		// a small perturbation of a palette entry
		v := entryRGB("near")
		d := func(l string) int32 { return int32(rapid.IntRange(-3, 3).Draw(t, l)) }
		c.Color = rgbColorRaw(clamp8((v>>16)&0xff+d("dr"))<<16 | clamp8((v>>8)&0xff+d("dg"))<<8 | clamp8(v&0xff+d("db")))
	case n > 1 && k <= 5:
		// (rounded) midpoint of two entries: near a decision boundary
		a, b := entryRGB("mid1"), entryRGB("mid2")
		o := int32(rapid.IntRange(0, 1).Draw(t, "round"))
		m := func(sh uint) int32 { return clamp8((((a >> sh) & 0xff) + ((b >> sh) & 0xff) + o) / 2) }
		c.Color = rgbColorRaw(m(16)<<16 | m(8)<<8 | m(0))
	default:
		c.Color = genColourRaw(t, nil)
	}
	return c
}

// findQuickValues is the quick tier's stratified sample of RGB values for the
// standard palettes: one value in each of 2^16 cells (5/6/5 bits) plus every
// palette value and its +-1 neighbours in each channel.
func findQuickValues() []int32 {
	seed := pbt.Seed()
	out := make([]int32, 0, 1<<16+2048)
	for s := 0; s < 1<<16; s++ {
		h := splitmix(seed ^ 0xc16 ^ uint64(s)*0x9e3779b97f4a7c15)
		r := int32(s>>11)<<3 | int32(h&7)
		g := int32((s>>5)&63)<<2 | int32((h>>3)&3)
		b := int32(s&31)<<3 | int32((h>>5)&7)
		out = append(out, r<<16|g<<8|b)
	}
	for i := 0; i < 256; i++ {
		v := refPalette(i)
		out = append(out, v)
		for sh := uint(0); sh <= 16; sh += 8 {
			ch := (v >> sh) & 0xff
			for _, d := range []int32{-1, 1} {
				if n := ch + d; n >= 0 && n <= 255 {
					out = append(out, v&^(0xff<<sh)|n<<sh)
				}
			}
		}
	}
	return out
}

var stdSizes = []int{8, 16, 88, 256}

// ================================================================ TestProp

func TestProp(t *testing.T) {
	pbt.Describe("Exhaustive sweeps: all 256 palette indices against the xterm formula; every key of ColorValues; every name of tcell.ColorNames and of the embedded 148-entry CSS table; an enumerated set of default/special/not-valid/unknown Color values. Conversion identities (NewHexColor/NewRGBColor/Hex/RGB/Valid/IsRGB/TrueColor/CSS/GetColor(#rrggbb, both cases)/FromImageColor for RGBA, NRGBA, RGBA64) over all 2^24 RGB values in thorough (split over shards) and a stratified 2^20 sample (one value per 7/7/6-bit cell) plus boundary values in quick. FindColor over all 2^24 RGB colours in thorough (split over shards) and a stratified 2^16 sample (one per 5/6/5-bit cell) plus every palette value and its +-1 channel neighbours in quick, against the first 8, 16, 88 and 256 palette colours; plus rapid-generated palettes (empty, 1..40 entries mixing palette-index and RGB colours, duplicates, same-RGB-different-Color entries) with colours that are uniform, members, small perturbations of entries, midpoints of two entries, or palette-index colours. imagecolor: rapid values of the standard library's colour types (RGBA64 with arbitrary 16-bit channels, NRGBA/NRGBA64 with any alpha, Gray16, YCbCr, CMYK ...): FromImageColor must give the 8-bit reduction that color.RGBAModel gives. tables-after-screens: terminfo screens on descriptions with 8, 16, 88, 256 and direct colours are initialised, drawn on and finalised (fake tty), then ColorValues must be unchanged and the palette sweep is repeated (the tables are process-wide). Non-trivial: conversions/palette/names/invalid = every case; FindColor = no palette entry has the same RGB value as the colour (so the answer is not a zero-distance match). Dense sweeps count every item in evaluations but only hash every k-th item (and every failure) into distinct_nontrivial.",
		"CIE76 oracle: 8-bit sRGB -> linear (IEC 61966-2-1 transfer function) -> XYZ with the matrix derived from the sRGB primaries and D65 white chromaticities -> CIELAB with reference white (0.95047, 1, 1.08883), float64; FindColor's answer may be farther than the oracle's best entry by at most a factor 1+1e-9 plus 1e-9 (floating-point differences between implementations)",
		"the 16 system colours are the xterm/W3C basic colours as documented in color.go (maroon=800000 ... silver=c0c0c0, gray=808080 ...)",
		"'every W3C colour name maps to its CSS value' is read as: every CSS Color Level 4 name that tcell offers maps to the CSS value; CSS names tcell lacks are counted (css_names_missing_in_tcell), names tcell offers beyond CSS are only checked for GetColor/ColorNames consistency and validity",
		"for a colour that is not valid, TrueColor() is only required to be not valid (the current implementation returns ColorDefault)",
		"colours with the valid bit, no RGB bit and an index outside 0..255 are only checked for the documented Hex()==-1 / RGB()==(-1,-1,-1); FindColor is only exercised with valid palette-index (0..255) and RGB colours")

	if err := oracleSelfTest(); err != nil {
		pbt.Inconclusive("reference oracle self-test failed: " + err.Error())
		t.Fatalf("oracle self-test: %v", err)
	}
	shard, nshards := pbt.Shard()
	// numeric Extra values are summed over shards by the driver: constants are
	// only reported by shard 0
	constExtra := func(key string, v any) {
		if shard == 0 {
			pbt.Extra(key, v)
		}
	}

	// ---------------------------------------------------------- palette
	palSpec := pbt.Spec[PalCase]{
		Gen:     func(t *rapid.T) PalCase { return PalCase{Index: rapid.IntRange(0, 255).Draw(t, "index")} },
		Prop:    propPalette,
		Classes: palClasses,
		Known:   func(c PalCase, err error) string { return knownFinding("palette", err) },
	}
	pbt.Check(t, "palette", 0, palSpec)
	if sw := pbt.NewSweep(t, "palette"); !sw.Skip() {
		for i := 0; i < 256; i++ {
			c := PalCase{Index: i}
			err := pbt.Safe(func() error { return propPalette(c) })
			for _, cl := range palClasses(c) {
				pbt.Class("palette:" + cl)
			}
			sw.Case(true, uint64(i)+1, func() any { return c }, err, knownFor("palette"))
		}
		pbt.Exhaustive("all 256 palette indices (Hex, RGB, ColorValues, TrueColor, CSS vs the xterm formula)")
	}

	// ---------------------------------------------------------- ColorValues
	pbt.Check(t, "colorvalues", 0, pbt.Spec[ValueCase]{
		Gen:   func(t *rapid.T) ValueCase { return ValueCase{Raw: rapid.SampledFrom(colorValueKeys()).Draw(t, "key")} },
		Prop:  propValue,
		Known: func(c ValueCase, err error) string { return knownFinding("colorvalues", err) },
	})
	if sw := pbt.NewSweep(t, "colorvalues"); !sw.Skip() {
		keys := colorValueKeys()
		for _, k := range keys {
			c := ValueCase{Raw: k}
			err := pbt.Safe(func() error { return propValue(c) })
			if k&bitIsRGB != 0 {
				pbt.Class("colorvalues:rgb-constant")
			} else {
				pbt.Class("colorvalues:palette-constant")
			}
			sw.Case(true, splitmix(k), func() any { return c }, err, knownFor("colorvalues"))
		}
		constExtra("colorvalues_entries", len(keys))
		pbt.Exhaustive("every key of tcell.ColorValues")
	}

	// ---------------------------------------------------------- names
	names := allNames()
	pbt.Check(t, "names", 0, pbt.Spec[NameCase]{
		Gen:     func(t *rapid.T) NameCase { return NameCase{Name: rapid.SampledFrom(names).Draw(t, "name")} },
		Prop:    propName,
		Classes: nameClasses,
		Known:   func(c NameCase, err error) string { return knownFinding("names", err) },
	})
	if sw := pbt.NewSweep(t, "names"); !sw.Skip() {
		missing, extra := []string{}, []string{}
		for _, n := range names {
			c := NameCase{Name: n}
			err := pbt.Safe(func() error { return propName(c) })
			cls := nameClasses(c)
			for _, cl := range cls {
				pbt.Class("names:" + cl)
			}
			_, inTcell := tcell.ColorNames[n]
			_, inCSS := cssNamed[n]
			if !inTcell {
				missing = append(missing, n)
			} else if !inCSS {
				extra = append(extra, n)
			}
			// a CSS name tcell does not offer exercises nothing: trivial
			sw.Case(inTcell, pbt.HashStr(n), func() any { return c }, err, knownFor("names"))
		}
		pbt.Extra("css_names_missing_in_tcell", missing)
		pbt.Extra("tcell_names_not_in_css", extra)
		constExtra("css_table_entries", len(cssNamed))
		constExtra("tcell_colornames_entries", len(tcell.ColorNames))
		pbt.Exhaustive("every name in tcell.ColorNames and every CSS Color Level 4 named colour")
	}

	// ---------------------------------------------------------- invalid / special
	pbt.Check(t, "invalid", pbt.Pick(20000, 100000), pbt.Spec[InvalidCase]{
		Gen:     genInvalid,
		Prop:    propInvalid,
		Classes: invalidClasses,
		Known:   func(c InvalidCase, err error) string { return knownFinding("invalid", err) },
	})
	if sw := pbt.NewSweep(t, "invalid"); !sw.Skip() {
		for _, raw := range invalidEnumerated() {
			c := InvalidCase{Raw: raw}
			err := pbt.Safe(func() error { return propInvalid(c) })
			for _, cl := range invalidClasses(c) {
				pbt.Class("invalid:" + cl)
			}
			sw.Case(true, splitmix(raw), func() any { return c }, err, knownFor("invalid"))
		}
		pbt.Exhaustive("ColorDefault, ColorNone, ColorReset and all combinations of the IsRGB/Special/bit35/bit63 flags with 13 boundary low words, without the valid bit")
	}

	// ---------------------------------------------------------- conversions
	pbt.Check(t, "conv", pbt.Pick(20000, 50000), pbt.Spec[ConvCase]{
		Gen:     func(t *rapid.T) ConvCase { return ConvCase{V: int32(rapid.IntRange(0, 0xffffff).Draw(t, "rgb"))} },
		Prop:    propConv,
		Classes: convClasses,
		Known:   func(c ConvCase, err error) string { return knownFinding("conv", err) },
	})
	if sw := pbt.NewSweep(t, "conv"); !sw.Skip() {
		t0 := time.Now()
		var done, cased int64
		fails := 0
		one := func(v int32, n int64) bool {
			c := ConvCase{V: v}
			err := pbt.Safe(func() error { return propConv(c) })
			done++
			if err != nil || n%17 == 0 {
				if n%(17*64) == 0 || err != nil {
					for _, cl := range convClasses(c) {
						pbt.Class("conv:" + cl)
					}
				}
				sw.Case(true, splitmix(uint64(v)), func() any { return c }, err, knownFor("conv"))
				cased++
			}
			if err != nil {
				fails++
			}
			return fails < maxSweepFails
		}
		complete := true
		if pbt.Thorough() {
			var n int64
			for v := 0; v < 1<<24; v++ {
				if !sw.Mine(v) {
					continue
				}
				n++
				if !one(int32(v), n) {
					complete = false
					break
				}
			}
			if complete {
				pbt.Exhaustive("conversion identities for all 2^24 RGB values (split across shards)")
			}
		} else {
			for i, v := range convQuickValues() {
				if !one(v, int64(i)) {
					break
				}
			}
		}
		pbt.NoteN(done - cased)
		pbt.AddExtra("conv_sweep_values", done)
		pbt.Extra("cpu_s_conv_sweep", time.Since(t0).Seconds())
	}

	pbt.Check(t, "imagecolor", pbt.Pick(20000, 300000), pbt.Spec[ImgCase]{Gen: genImg, Prop: propImg,
		NonTrivial: func(c ImgCase) bool { return c.Kind != "rgba" && c.Kind != "gray" },
		Classes:    func(c ImgCase) []string { return []string{c.Kind} }})

	// ---------------------------------------------------------- FindColor, random palettes
	findSpec := pbt.Spec[FindCase]{
		Gen:        genFind,
		Prop:       propFind,
		NonTrivial: findNonTrivial,
		Classes:    findClasses,
		Known:      func(c FindCase, err error) string { return knownFinding("findcolor-random", err) },
	}
	pbt.Check(t, "findcolor-random", pbt.Pick(20000, 150000), findSpec)

	// ---------------------------------------------------------- FindColor, standard palettes
	stdSpec := findSpec
	stdSpec.Known = func(c FindCase, err error) string { return knownFinding("findcolor-std", err) }
	pbt.Check(t, "findcolor-std", 0, stdSpec)
	if sw := pbt.NewSweep(t, "findcolor-std"); !sw.Skip() {
		t0 := time.Now()
		finders := make([]*finder, len(stdSizes))
		for i, n := range stdSizes {
			f, err := newFinder(stdPalette(n))
			if err != nil {
				t.Fatalf("harness: %v", err)
			}
			finders[i] = f
		}
		stride := int64(pbt.Pick(3, 37))
		var done, cased, fails int64
		nontriv := make([]int64, len(stdSizes))
		ties := make([]int64, len(stdSizes))
		nearTies := make([]int64, len(stdSizes))
		var region [3]int64 // 256-palette answers: ansi16, cube, grey ramp
		used := make([]map[int]bool, len(stdSizes))
		for i := range used {
			used[i] = map[int]bool{}
		}
		one := func(v int32, n int64) bool {
			col := tcell.NewHexColor(v)
			cl := labOf(v)
			for k, f := range finders {
				var in findInfo
				err := pbt.Safe(func() error {
					var e error
					in, e = f.check(col, v, cl)
					return e
				})
				done++
				if in.nontrivial {
					nontriv[k]++
				}
				if in.tie {
					ties[k]++
				}
				if in.nearTie {
					nearTies[k]++
				}
				if in.resIdx >= 0 {
					used[k][in.resIdx] = true
					if stdSizes[k] == 256 {
						switch {
						case in.resIdx < 16:
							region[0]++
						case in.resIdx < 232:
							region[1]++
						default:
							region[2]++
						}
					}
				}
				if err != nil || (n+int64(k))%stride == 0 {
					c := FindCase{Color: uint64(col), Std: stdSizes[k]}
					if err != nil || (n+int64(k))%(stride*16) == 0 {
						for _, cl := range findClasses(c) {
							pbt.Class("findcolor-std:" + cl)
						}
					}
					sw.Case(in.nontrivial, splitmix(uint64(v)<<16|uint64(stdSizes[k])), func() any { return c }, err, knownFor("findcolor-std"))
					cased++
				}
				if err != nil {
					fails++
				}
			}
			return fails < maxSweepFails
		}
		complete := true
		var colours int64
		if pbt.Thorough() {
			for v := 0; v < 1<<24; v++ {
				if !sw.Mine(v) {
					continue
				}
				colours++
				if !one(int32(v), colours) {
					complete = false
					break
				}
			}
			if complete {
				pbt.Exhaustive("FindColor for all 2^24 RGB colours against each of the first 8, 16, 88 and 256 palette colours (split across shards)")
			}
		} else {
			for _, v := range findQuickValues() {
				colours++
				if !one(v, colours) {
					break
				}
			}
		}
		pbt.NoteN(done - cased)
		pbt.AddExtra("findcolor_std_colours", colours)
		for k, n := range stdSizes {
			pbt.AddExtra(fmt.Sprintf("findcolor_std%d_nontrivial", n), nontriv[k])
			pbt.AddExtra(fmt.Sprintf("findcolor_std%d_ties", n), ties[k])
			pbt.AddExtra(fmt.Sprintf("findcolor_std%d_near_ties", n), nearTies[k])
			if nshards == 1 {
				pbt.Extra(fmt.Sprintf("findcolor_std%d_distinct_answers", n), len(used[k]))
			}
		}
		pbt.AddExtra("findcolor_std256_answer_in_ansi16", region[0])
		pbt.AddExtra("findcolor_std256_answer_in_cube", region[1])
		pbt.AddExtra("findcolor_std256_answer_in_grey_ramp", region[2])
		pbt.Extra("cpu_s_findcolor_std_sweep", time.Since(t0).Seconds())
	}
	afterScreens(t)
}
