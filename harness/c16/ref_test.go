package c16

// Reference oracles for C16, written from the standards and not from tcell's
// tables or go-colorful:
//   - the xterm 256-colour palette formula,
//   - sRGB (IEC 61966-2-1) -> linear -> CIE XYZ (D65) -> CIELAB and the CIE76
//     colour difference (Euclidean distance in L*a*b*).

import (
	"fmt"
	"math"

	"github.com/gdamore/tcell/v2"
)

// ---------------------------------------------------------------- xterm palette

// The 16 system colours as tcell documents them (xterm/W3C basic colours).
var ansi16 = [16]int32{
	0x000000, // 0 black
	0x800000, // 1 maroon
	0x008000, // 2 green
	0x808000, // 3 olive
	0x000080, // 4 navy
	0x800080, // 5 purple
	0x008080, // 6 teal
	0xC0C0C0, // 7 silver
	0x808080, // 8 gray
	0xFF0000, // 9 red
	0x00FF00, // 10 lime
	0xFFFF00, // 11 yellow
	0x0000FF, // 12 blue
	0xFF00FF, // 13 fuchsia
	0x00FFFF, // 14 aqua
	0xFFFFFF, // 15 white
}

// cubeLevel is the xterm 6x6x6 cube component level: 0, 95, 135, 175, 215, 255.
func cubeLevel(k int) int32 {
	if k == 0 {
		return 0
	}
	return int32(55 + 40*k)
}

// refPalette returns the reference 0xRRGGBB of xterm palette index i (0..255).
func refPalette(i int) int32 {
	switch {
	case i < 0 || i > 255:
		panic(fmt.Sprintf("refPalette(%d)", i))
	case i < 16:
		return ansi16[i]
	case i < 232:
		j := i - 16
		return cubeLevel(j/36)<<16 | cubeLevel((j/6)%6)<<8 | cubeLevel(j%6)
	default:
		l := int32(8 + 10*(i-232))
		return l<<16 | l<<8 | l
	}
}

const (
	bitValid   = uint64(1) << 32
	bitIsRGB   = uint64(1) << 33
	bitSpecial = uint64(1) << 34
)

// refRGB is the reference RGB value of a colour in the domain of the property:
// an RGB colour (low 24 bits) or a palette colour 0..255 (xterm formula).
func refRGB(c tcell.Color) (int32, bool) {
	raw := uint64(c)
	if raw&bitValid == 0 || raw&bitSpecial != 0 || raw>>35 != 0 {
		return 0, false
	}
	if raw&bitIsRGB != 0 {
		if raw&0xff000000 != 0 {
			return 0, false
		}
		return int32(raw & 0xffffff), true
	}
	idx := raw &^ bitValid
	if idx < 256 {
		return refPalette(int(idx)), true
	}
	return 0, false
}

// cssHex formats v as "#RRGGBB" (upper case) without using fmt.
func cssHex(v int32, upper bool) string {
	digits := "0123456789abcdef"
	if upper {
		digits = "0123456789ABCDEF"
	}
	b := [7]byte{'#'}
	for i := 0; i < 6; i++ {
		b[1+i] = digits[(v>>(uint(5-i)*4))&0xf]
	}
	return string(b[:])
}

// ---------------------------------------------------------------- CIELAB

type lab struct{ L, A, B float64 }

var (
	// linear-light value of each 8-bit sRGB component
	srgbLinear [256]float64
	// linear sRGB -> CIE XYZ, derived in init from the sRGB/Rec.709 primaries and
	// the D65 white chromaticity
	rgb2xyz [3][3]float64
	// CIE standard illuminant D65, 2 degree observer, Y normalised to 1: the
	// CIELAB reference white
	whiteD65 = [3]float64{0.95047, 1.00000, 1.08883}
)

func inv3(m [3][3]float64) [3][3]float64 {
	a, b, c := m[0][0], m[0][1], m[0][2]
	d, e, f := m[1][0], m[1][1], m[1][2]
	g, h, i := m[2][0], m[2][1], m[2][2]
	det := a*(e*i-f*h) - b*(d*i-f*g) + c*(d*h-e*g)
	return [3][3]float64{
		{(e*i - f*h) / det, (c*h - b*i) / det, (b*f - c*e) / det},
		{(f*g - d*i) / det, (a*i - c*g) / det, (c*d - a*f) / det},
		{(d*h - e*g) / det, (b*g - a*h) / det, (a*e - b*d) / det},
	}
}

func init() {
	for i := range srgbLinear {
		v := float64(i) / 255.0
		if v <= 0.04045 {
			srgbLinear[i] = v / 12.92
		} else {
			srgbLinear[i] = math.Pow((v+0.055)/1.055, 2.4)
		}
	}
	// chromaticities (x, y) of the sRGB primaries and of the D65 white point
	prim := [3][2]float64{{0.64, 0.33}, {0.30, 0.60}, {0.15, 0.06}}
	wx, wy := 0.3127, 0.3290
	var p [3][3]float64
	for c := 0; c < 3; c++ {
		x, y := prim[c][0], prim[c][1]
		p[0][c] = x / y
		p[1][c] = 1
		p[2][c] = (1 - x - y) / y
	}
	w := [3]float64{wx / wy, 1, (1 - wx - wy) / wy}
	pi := inv3(p)
	var s [3]float64
	for r := 0; r < 3; r++ {
		s[r] = pi[r][0]*w[0] + pi[r][1]*w[1] + pi[r][2]*w[2]
	}
	for r := 0; r < 3; r++ {
		for c := 0; c < 3; c++ {
			rgb2xyz[r][c] = p[r][c] * s[c]
		}
	}
}

func labF(t float64) float64 {
	const d = 6.0 / 29.0
	if t > d*d*d {
		return math.Cbrt(t)
	}
	return t/(3*d*d) + 4.0/29.0
}

// labOf converts an 8-bit sRGB value 0xRRGGBB to CIELAB (L 0..100).
func labOf(v int32) lab {
	r := srgbLinear[(v>>16)&0xff]
	g := srgbLinear[(v>>8)&0xff]
	b := srgbLinear[v&0xff]
	x := rgb2xyz[0][0]*r + rgb2xyz[0][1]*g + rgb2xyz[0][2]*b
	y := rgb2xyz[1][0]*r + rgb2xyz[1][1]*g + rgb2xyz[1][2]*b
	z := rgb2xyz[2][0]*r + rgb2xyz[2][1]*g + rgb2xyz[2][2]*b
	fx, fy, fz := labF(x/whiteD65[0]), labF(y/whiteD65[1]), labF(z/whiteD65[2])
	return lab{116*fy - 16, 500 * (fx - fy), 200 * (fy - fz)}
}

// deltaE76 is the CIE76 colour difference.
func deltaE76(p, q lab) float64 {
	dl, da, db := p.L-q.L, p.A-q.A, p.B-q.B
	return math.Sqrt(dl*dl + da*da + db*db)
}

// oracleSelfTest checks the reference implementation against published
// values, so that a harness mistake is not reported as a tcell violation.
func oracleSelfTest() error {
	// IEC 61966-2-1 matrix rounded to 4 digits
	want := [3][3]float64{{0.4124, 0.3576, 0.1805}, {0.2126, 0.7152, 0.0722}, {0.0193, 0.1192, 0.9505}}
	for r := 0; r < 3; r++ {
		for c := 0; c < 3; c++ {
			if math.Abs(rgb2xyz[r][c]-want[r][c]) > 6e-5 {
				return fmt.Errorf("derived sRGB matrix [%d][%d]=%v, published %v", r, c, rgb2xyz[r][c], want[r][c])
			}
		}
	}
	// published CIELAB values (D65) of the sRGB primaries, white, black, mid grey
	type kv struct {
		v    int32
		l    lab
		tolL float64
	}
	for _, k := range []kv{
		{0xffffff, lab{100, 0, 0}, 0.02},
		{0x000000, lab{0, 0, 0}, 1e-9},
		{0xff0000, lab{53.24, 80.09, 67.20}, 0.02},
		{0x00ff00, lab{87.73, -86.18, 83.18}, 0.02},
		{0x0000ff, lab{32.30, 79.19, -107.86}, 0.02},
		{0x808080, lab{53.585, 0, 0}, 0.02},
	} {
		g := labOf(k.v)
		if math.Abs(g.L-k.l.L) > k.tolL || math.Abs(g.A-k.l.A) > k.tolL || math.Abs(g.B-k.l.B) > k.tolL {
			return fmt.Errorf("labOf(%06x)=%+v, published %+v", k.v, g, k.l)
		}
	}
	if refPalette(16) != 0 || refPalette(231) != 0xffffff || refPalette(232) != 0x080808 || refPalette(255) != 0xeeeeee || refPalette(196) != 0xff0000 || refPalette(67) != 0x5f87af {
		return fmt.Errorf("xterm formula self-test failed")
	}
	if cssHex(0x0a1bfe, true) != "#0A1BFE" || cssHex(0x0a1bfe, false) != "#0a1bfe" {
		return fmt.Errorf("cssHex self-test failed")
	}
	return nil
}
