package c16

import (
	"fmt"
	"image/color"

	"github.com/gdamore/tcell/v2"
	"pgregory.net/rapid"
)

// ImgCase is a value of one of the standard library's colour types.
type ImgCase struct {
	Kind string `json:"kind"` // rgba64 nrgba nrgba64 gray gray16 ycbcr cmyk rgba
	V    [4]int `json:"v"`
}

func (c ImgCase) color() color.Color {
	v := c.V
	switch c.Kind {
	case "rgba64": // premultiplied: channels <= alpha
		a := v[3] & 0xffff
		f := func(x int) uint16 {
			if a == 0 {
				return 0
			}
			return uint16((x & 0xffff) % (a + 1))
		}
		return color.RGBA64{f(v[0]), f(v[1]), f(v[2]), uint16(a)}
	case "nrgba":
		return color.NRGBA{uint8(v[0]), uint8(v[1]), uint8(v[2]), uint8(v[3])}
	case "nrgba64":
		return color.NRGBA64{uint16(v[0]), uint16(v[1]), uint16(v[2]), uint16(v[3])}
	case "gray":
		return color.Gray{uint8(v[0])}
	case "gray16":
		return color.Gray16{uint16(v[0])}
	case "ycbcr":
		return color.YCbCr{uint8(v[0]), uint8(v[1]), uint8(v[2])}
	case "cmyk":
		return color.CMYK{uint8(v[0]), uint8(v[1]), uint8(v[2]), uint8(v[3])}
	}
	return color.RGBA{uint8(v[0]), uint8(v[1]), uint8(v[2]), 255}
}

func genImg(t *rapid.T) ImgCase {
	c := ImgCase{Kind: rapid.SampledFrom([]string{"rgba64", "rgba64", "nrgba", "nrgba64", "gray", "gray16", "ycbcr", "cmyk", "rgba"}).Draw(t, "kind")}
	for i := range c.V {
		c.V[i] = rapid.OneOf(rapid.IntRange(0, 0xffff), rapid.SampledFrom([]int{0, 1, 0xff, 0x100, 0x1234, 0x8000, 0xff00, 0xffff})).Draw(t, "v")
	}
	return c
}

// propImg: FromImageColor gives the colour whose components are the 8-bit
// reduction of the value's (alpha-premultiplied, 16-bit) RGBA() - the reduction
// the standard library's own RGBAModel performs.
func propImg(c ImgCase) error {
	ic := c.color()
	want := color.RGBAModel.Convert(ic).(color.RGBA)
	got := tcell.FromImageColor(ic)
	r, g, b := got.RGB()
	if !got.Valid() || !got.IsRGB() || r != int32(want.R) || g != int32(want.G) || b != int32(want.B) {
		return fmt.Errorf("FromImageColor(%T%+v) = #%06X (valid %v), the 8-bit reduction of its RGBA() is #%02X%02X%02X", ic, ic, got.Hex(), got.Valid(), want.R, want.G, want.B)
	}
	return nil
}
