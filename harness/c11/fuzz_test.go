package c11

import (
	"testing"

	"verifharness/internal/pbt"
)

func FuzzText(f *testing.F) {
	pbt.FuzzRapid(f, "text", pbt.Spec[Case]{Gen: genCase, Prop: prop})
}
