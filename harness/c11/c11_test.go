// C11 — typed and pasted text is delivered rune for rune, in order.
package c11

import (
	"fmt"
	"sort"
	"strings"
	"testing"

	"github.com/gdamore/tcell/v2"
	"github.com/gdamore/tcell/v2/terminfo"
	"pgregory.net/rapid"

	"verifharness/internal/csets"
	"verifharness/internal/inref"
	"verifharness/internal/live"
	"verifharness/internal/pbt"
)

func TestMain(m *testing.M) {
	csets.Init()
	pbt.Main(m, "C11")
}

var entries = []string{"xterm", "xterm-256color", "linux", "rxvt-unicode", "screen", "st", "vt100", "vt220", "ansi", "sun", "wy60", "hpterm", "vt52", "konsole", "xterm-kitty", "aixterm", "vt220+pastekeys", "ansi+pastekeys"}

type entryInfo struct {
	ti    *terminfo.Terminfo
	paste bool
	// some key sequence starts with ESC ESC: a lone ESC in front of another
	// sequence is then ambiguous
	escEsc bool
	// a focus report that is a proper prefix of one of the entry's key
	// sequences (rxvt: ESC [ O a = ctrl-up) is ambiguous when text follows
	noFocusOut, noFocusIn bool
}

var infos = map[string]*entryInfo{}

func info(name string) (*entryInfo, error) {
	if e, ok := infos[name]; ok {
		return e, nil
	}
	base := strings.TrimSuffix(name, "+pastekeys")
	ti, err := terminfo.LookupTerminfo(base)
	if err != nil {
		return nil, fmt.Errorf("harness: %q: %v", name, err)
	}
	cp := *ti
	if base != name {
		// a description (not in the built-in database) that names its paste
		// brackets but has no sequence to switch bracketed paste on
		cp.Name = name
		cp.PasteStart, cp.PasteEnd, cp.EnablePaste, cp.DisablePaste = "\x1b[200~", "\x1b[201~", "", ""
	}
	tbl, err := tcell.VerifKeyTable(&cp)
	if err != nil {
		return nil, fmt.Errorf("harness: %v", err)
	}
	_, p1 := tbl["\x1b[200~"]
	_, p2 := tbl["\x1b[201~"]
	e := &entryInfo{ti: &cp, paste: p1 && p2}
	if base != name {
		e.paste = true // the description says so; not taken from the library's own table
	}
	for k := range tbl {
		if len(k) > 1 && k[:2] == "\x1b\x1b" {
			e.escEsc = true
		}
		if len(k) > 3 && k[:3] == "\x1b[O" {
			e.noFocusOut = true
		}
		if len(k) > 3 && k[:3] == "\x1b[I" {
			e.noFocusIn = true
		}
	}
	infos[name] = e
	return e, nil
}

// Item is one element of the input: a character, a focus report, or a paste bracket.
type Item struct {
	R     rune   `json:"r,omitempty"`
	Focus string `json:"focus,omitempty"` // "in" / "out"
}

type Case struct {
	Entry   string `json:"entry"`
	Charset string `json:"charset"`
	Items   []Item `json:"items"`
	Paste   bool   `json:"paste"`
	Cuts    []int  `json:"cuts"`
	// EscFirst: a lone ESC keypress immediately in front of the paste: the
	// bracket swallows the pending Alt prefix, the pasted text stays as it is
	EscFirst bool `json:"esc_before_paste,omitempty"`
	// TailOut: on an entry where the focus-out report is a proper prefix of a key sequence (rxvt:
	// ESC [ O a), the input ends with that report: nothing follows, so once the escape timeout has
	// passed it is a focus-out event and nothing else
	TailOut bool `json:"focus_out_at_end,omitempty"`
}

func (c Case) build() ([]byte, []inref.Ev, [][2]int, error) {
	var data []byte
	var want []inref.Ev
	var spans [][2]int
	if c.Paste {
		if c.EscFirst {
			data = append(data, 0x1b)
		}
		data = append(data, "\x1b[200~"...)
		want = append(want, inref.Ev{Kind: "paste", Start: true})
	}
	for _, it := range c.Items {
		switch it.Focus {
		case "in":
			data = append(data, "\x1b[I"...)
			want = append(want, inref.Ev{Kind: "focus", Focus: true})
		case "out":
			data = append(data, "\x1b[O"...)
			want = append(want, inref.Ev{Kind: "focus", Focus: false})
		default:
			b, ok := csets.Encode(c.Charset, it.R)
			if !ok {
				return nil, nil, nil, fmt.Errorf("harness: U+%04X is not in %s", it.R, c.Charset)
			}
			spans = append(spans, [2]int{len(data), len(data) + len(b)})
			data = append(data, b...)
			want = append(want, inref.Ev{Kind: "key", Key: int(tcell.KeyRune), Rune: it.R})
		}
	}
	if c.Paste {
		data = append(data, "\x1b[201~"...)
		want = append(want, inref.Ev{Kind: "paste", Start: false})
	}
	if c.TailOut {
		data = append(data, "\x1b[O"...)
		want = append(want, inref.Ev{Kind: "focus", Focus: false})
	}
	return data, want, spans, nil
}

func split(b []byte, cuts []int) [][]byte {
	var out [][]byte
	prev := 0
	for _, c := range cuts {
		if c > prev && c < len(b) {
			out = append(out, b[prev:c])
			prev = c
		}
	}
	return append(out, b[prev:])
}

func decode(e *entryInfo, charset string, chunks [][]byte) ([]inref.Ev, int, error) {
	cp := *e.ti
	in, err := tcell.VerifNewInput(&cp, charset, 80, 24)
	if err != nil {
		return nil, 0, fmt.Errorf("harness: %v", err)
	}
	var all []tcell.Event
	for _, c := range chunks {
		evs, _ := in.Scan(c, false)
		all = append(all, evs...)
	}
	evs, left := in.Scan(nil, true)
	all = append(all, evs...)
	return inref.FromAll(all), left, nil
}

func prop(c Case) error {
	e, err := info(c.Entry)
	if err != nil {
		return err
	}
	data, want, _, err := c.build()
	if err != nil {
		return err
	}
	got, left, err := decode(e, c.Charset, split(data, c.Cuts))
	if err != nil {
		return err
	}
	if left != 0 {
		return fmt.Errorf("%s/%s: %d byte(s) of %q left buffered", c.Entry, c.Charset, left, data)
	}
	if c.Paste && !e.paste {
		// the terminal has no bracketed paste: only clean termination is required
		pbt.Excluded("paste-on-terminal-without-paste-support")
		return nil
	}
	if !inref.Equal(got, want) {
		return fmt.Errorf("%s/%s: input %q (split at %v) is delivered as %s, want %s", c.Entry, c.Charset, data, c.Cuts, inref.Show(got), inref.Show(want))
	}
	return nil
}

var multiCache = map[string][]csets.Char{}

func multiOf(cs string) []csets.Char {
	if m, ok := multiCache[cs]; ok {
		return m
	}
	var multi []csets.Char
	for _, ch := range csets.Repertoire(cs) {
		if len(ch.B) > 1 {
			multi = append(multi, ch)
		}
	}
	multiCache[cs] = multi
	return multi
}

func genCase(t *rapid.T) Case {
	c := Case{Entry: rapid.SampledFrom(entries).Draw(t, "entry")}
	c.Charset = rapid.SampledFrom(csets.Stateless).Draw(t, "charset")
	if rapid.IntRange(0, 2).Draw(t, "utf8bias") == 0 {
		c.Charset = "UTF-8"
	}
	ei, err := info(c.Entry)
	if err != nil {
		t.Fatalf("%v", err)
	}
	rep := csets.Repertoire(c.Charset)
	// multi-byte characters are the interesting ones
	multi := multiOf(c.Charset)
	n := rapid.IntRange(1, 8).Draw(t, "n")
	for i := 0; i < n; i++ {
		k := rapid.IntRange(0, 9).Draw(t, "kind")
		switch {
		case k == 0:
			f := rapid.SampledFrom([]string{"in", "out"}).Draw(t, "focus")
			if (f == "out" && ei.noFocusOut) || (f == "in" && ei.noFocusIn) {
				f = ""
				c.Items = append(c.Items, Item{R: 'f'})
			} else {
				c.Items = append(c.Items, Item{Focus: f})
			}
		case k <= 5 && len(multi) > 0:
			c.Items = append(c.Items, Item{R: multi[rapid.IntRange(0, len(multi)-1).Draw(t, "mi")].R})
		default:
			c.Items = append(c.Items, Item{R: rep[rapid.IntRange(0, len(rep)-1).Draw(t, "ri")].R})
		}
	}
	c.Paste = rapid.IntRange(0, 2).Draw(t, "paste") == 0
	c.EscFirst = c.Paste && ei.paste && !ei.escEsc && rapid.IntRange(0, 3).Draw(t, "escfirst") == 0
	if ei.noFocusOut && (!c.Paste || ei.paste) {
		c.TailOut = rapid.Bool().Draw(t, "tailout")
	}
	data, _, _, _ := c.build()
	if len(data) > 1 {
		if rapid.IntRange(0, 4).Draw(t, "allcuts") == 0 {
			for i := 1; i < len(data); i++ {
				c.Cuts = append(c.Cuts, i)
			}
		} else {
			k := rapid.IntRange(0, 5).Draw(t, "ncuts")
			for i := 0; i < k; i++ {
				c.Cuts = append(c.Cuts, rapid.IntRange(1, len(data)-1).Draw(t, "cut"))
			}
			sort.Ints(c.Cuts)
		}
	}
	return c
}

func nonTrivial(c Case) bool {
	_, _, spans, err := c.build()
	if err != nil {
		return false
	}
	for _, s := range spans {
		if s[1]-s[0] > 1 {
			for _, cut := range c.Cuts {
				if cut > s[0] && cut < s[1] {
					return true
				}
			}
		}
	}
	return false
}

func classes(c Case) []string {
	out := []string{"charset:" + c.Charset}
	if c.Paste {
		out = append(out, "paste")
	}
	for _, it := range c.Items {
		if it.Focus != "" {
			out = append(out, "focus")
			break
		}
	}
	if nonTrivial(c) {
		out = append(out, "cut-inside-multibyte-char")
	}
	return out
}

// repertoire sweep: every character of every stateless charset once, fed in
// 61-byte reads so that cuts fall at all offsets inside characters.
type SweepCase struct {
	Charset string `json:"charset"`
	From    int    `json:"from"`
	To      int    `json:"to"`
	Chunk   int    `json:"chunk"`
}

func sweepBlock(e *entryInfo, sc SweepCase) error {
	rep := csets.Repertoire(sc.Charset)
	var data []byte
	var want []inref.Ev
	for _, ch := range rep[sc.From:sc.To] {
		data = append(data, ch.B...)
		want = append(want, inref.Ev{Kind: "key", Key: int(tcell.KeyRune), Rune: ch.R})
	}
	var chunks [][]byte
	for i := 0; i < len(data); i += sc.Chunk {
		j := i + sc.Chunk
		if j > len(data) {
			j = len(data)
		}
		chunks = append(chunks, data[i:j])
	}
	got, left, err := decode(e, sc.Charset, chunks)
	if err != nil {
		return err
	}
	if left != 0 || !inref.Equal(got, want) {
		// locate the first difference for a readable message
		i := 0
		for i < len(got) && i < len(want) && got[i] == want[i] {
			i++
		}
		var g, w string
		if i < len(got) {
			g = got[i].String()
		}
		if i < len(want) {
			w = want[i].String()
		}
		return fmt.Errorf("%s: characters %d..%d in %d-byte reads: %d events for %d characters, %d bytes left; first difference at character %d: got %s want %s (bytes %x)", sc.Charset, sc.From, sc.To, sc.Chunk, len(got), len(want), left, sc.From+i, g, w, rep[sc.From+min(i, sc.To-sc.From-1)].B)
	}
	return nil
}

func sweep(t *testing.T) {
	sw := pbt.NewSweep(t, "repertoire")
	e, err := info("xterm")
	if err != nil {
		pbt.Inconclusive(err.Error())
		return
	}
	var rc SweepCase
	if pbt.ReplayCase("repertoire", &rc) {
		sw.Case(true, 1, func() any { return rc }, pbt.Safe(func() error { return sweepBlock(e, rc) }), nil)
		pbt.Note(true, 2)
		return
	}
	if sw.Skip() {
		return
	}
	item := 0
	total := 0
	for _, cs := range csets.Stateless {
		rep := csets.Repertoire(cs)
		total += len(rep)
		const block = 200
		for from := 0; from < len(rep); from += block {
			item++
			if !sw.Mine(item) {
				continue
			}
			if sw.Stop() {
				return
			}
			to := from + block
			if to > len(rep) {
				to = len(rep)
			}
			for _, chunk := range []int{61, 1} {
				if chunk == 1 && !pbt.Thorough() && (from/block)%8 != 0 {
					continue
				}
				sc := SweepCase{Charset: cs, From: from, To: to, Chunk: chunk}
				err := pbt.Safe(func() error { return sweepBlock(e, sc) })
				sw.Case(csets.MultiByte(cs), pbt.HashStr("rep", cs, fmt.Sprint(from, chunk)), func() any { return sc }, err, nil)
				pbt.NoteN(int64(to - from - 1))
			}
		}
	}
	pbt.Extra("repertoire_characters", total)
	pbt.Exhaustive("every printable BMP character each stateless charset can represent (plus astral samples for UTF-8/GB18030), once, in 61-byte reads (and byte-at-a-time reads: all blocks in thorough, every 8th in quick)")
}

// ---------------------------------------------------------------- through the real read pipeline

// LiveCase: a longer text (more characters than both internal queues hold)
// delivered in many tty reads that end at character boundaries, through a real
// screen with its goroutines, the application polling only afterwards.
type LiveCase struct {
	Entry   string `json:"entry"`
	Charset string `json:"charset"`
	Runes   []rune `json:"runes"`
	PerRead []int  `json:"chars_per_read"`
	Paste   bool   `json:"paste"`
	Defer   bool   `json:"defer_poll"`
	Lang    string `json:"locale_language,omitempty"` // language part of the locale name in LC_ALL ("" = en_US)
	Mod     string `json:"locale_modifier,omitempty"` // "@modifier" suffix
	ViaLang bool   `json:"via_lang,omitempty"`        // LC_ALL present but empty, the locale name is in LANG
}

func genLive(t *rapid.T) LiveCase {
	c := LiveCase{Entry: rapid.SampledFrom([]string{"xterm", "linux", "rxvt-unicode", "vt220", "screen"}).Draw(t, "entry")}
	c.Charset = rapid.SampledFrom([]string{"UTF-8", "UTF-8", "EUC-JP", "GBK", "KOI8-R", "ISO8859-1", "Big5", "SHIFT_JIS", "GB18030"}).Draw(t, "charset")
	rep := csets.Repertoire(c.Charset)
	n := rapid.IntRange(1, 100).Draw(t, "n")
	for i := 0; i < n; i++ {
		c.Runes = append(c.Runes, rep[rapid.IntRange(0, len(rep)-1).Draw(t, "ri")].R)
	}
	left := n
	for left > 0 {
		k := rapid.IntRange(1, 5).Draw(t, "per")
		if k > left {
			k = left
		}
		c.PerRead = append(c.PerRead, k)
		left -= k
	}
	c.Paste = rapid.IntRange(0, 3).Draw(t, "paste") == 0
	c.Defer = rapid.IntRange(0, 3).Draw(t, "defer") != 0
	// the locale name the charset comes from: C.UTF-8 is what containers use
	c.Lang = rapid.SampledFrom([]string{"", "", "C", "POSIX", "ja_JP", "de_DE"}).Draw(t, "lang")
	c.Mod = rapid.SampledFrom([]string{"", "", "", "@euro", "@x"}).Draw(t, "mod")
	c.ViaLang = rapid.IntRange(0, 4).Draw(t, "vialang") == 0
	return c
}

func liveProp(c LiveCase) error {
	e, err := info(c.Entry)
	if err != nil {
		return err
	}
	var reads [][]byte
	var want []inref.Ev
	if c.Paste && e.paste {
		reads = append(reads, []byte("\x1b[200~"))
		want = append(want, inref.Ev{Kind: "paste", Start: true})
	}
	i := 0
	for _, k := range c.PerRead {
		var rd []byte
		for j := 0; j < k && i < len(c.Runes); j++ {
			b, ok := csets.Encode(c.Charset, c.Runes[i])
			if !ok {
				return fmt.Errorf("harness: U+%04X not in %s", c.Runes[i], c.Charset)
			}
			rd = append(rd, b...)
			want = append(want, inref.Ev{Kind: "key", Key: int(tcell.KeyRune), Rune: c.Runes[i]})
			i++
		}
		reads = append(reads, rd)
	}
	if c.Paste && e.paste {
		reads = append(reads, []byte("\x1b[201~"))
		want = append(want, inref.Ev{Kind: "paste", Start: false})
	}
	lang := c.Lang
	if lang == "" {
		lang = "en_US"
	}
	loc := lang + "." + c.Charset + c.Mod
	if c.ViaLang {
		loc = "LANG:" + loc
	}
	got, err := live.RunReadsLocale(e.ti, loc, reads, c.Defer, len(want))
	if err != nil {
		return err
	}
	if !inref.Equal(got, want) {
		k := 0
		for k < len(got) && k < len(want) && got[k] == want[k] {
			k++
		}
		g, w := "<none>", "<none>"
		if k < len(got) {
			g = got[k].String()
		}
		if k < len(want) {
			w = want[k].String()
		}
		return fmt.Errorf("%s/%s: %d characters in %d reads (polling deferred: %v) through the real screen: %d events, want %d; first difference at %d: got %s want %s", c.Entry, c.Charset, len(c.Runes), len(reads), c.Defer, len(got), len(want), k, g, w)
	}
	return nil
}

func TestProp(t *testing.T) {
	defer pbt.Recover(t)
	pbt.Describe("text: rapid strings of 1-8 characters drawn from the charset's repertoire (multi-byte characters favoured) with focus reports interspersed, optionally wrapped in paste brackets, over 24 stateless charsets x 16 entries x read partitions (incl. every byte alone), decoded by the production parser (synchronous verif hook with selectable charset); expected: one rune key event per character in order, paste start/end markers around, focus events in position, nothing else, no byte left. repertoire: every character of every charset once. split-backpressure: multi-byte characters split across three reads that arrive within 25 ms while the application does not poll for 130 ms and more runes than the event queue holds lie in between (old timer-channel semantics on odd shards): no character may be torn; slow-typing: 1-3 characters of 3-4 bytes arriving one byte per read every 18-25 ms through a real screen (every gap below the 50 ms escape timeout, the sum above it): no character may be torn (believed only after three plays in a row; plays the machine was too slow for are discarded and counted). live-text (locale names en_US/C/POSIX/ja_JP/de_DE.<charset>[@modifier]): up to 100 characters (more than both internal queues hold) delivered in many tty reads ending at character boundaries through a real screen with its input and main goroutines, polling deferred until the pipeline is saturated. Non-trivial = a cut strictly inside a multi-byte character; distinct = hash of the case.",
		"repertoire of a charset = printable BMP characters that an independently instantiated x/text encoder encodes and a fresh decoder decodes back (astral samples for UTF-8/GB18030)",
		"on entries without bracketed-paste support, text wrapped in paste brackets is only required to terminate cleanly (no panic, nothing left buffered)",
		"ISO-2022-JP and HZ-GB2312 are excluded as the statement says (escape-driven 7-bit encodings)")
	sweep(t)
	pbt.Check(t, "text", pbt.Pick(40000, 400000), pbt.Spec[Case]{Gen: genCase, Prop: prop, NonTrivial: nonTrivial, Classes: classes})
	pbt.Check(t, "split-backpressure", pbt.Pick(10, 150), pbt.Spec[SplitCase]{Gen: genSplit, Prop: splitProp})
	pbt.Check(t, "slow-typing", pbt.Pick(20, 300), pbt.Spec[SlowCase]{Gen: genSlow, Prop: slowProp})
	pbt.Check(t, "live-text", pbt.Pick(150, 3000), pbt.Spec[LiveCase]{Gen: genLive, Prop: liveProp,
		NonTrivial: func(c LiveCase) bool {
			return len(c.Runes) > 25 && len(c.PerRead) > 3 && c.Defer && csets.MultiByte(c.Charset)
		}})
}
