package c11

import (
	"fmt"
	"os"
	"time"

	"github.com/gdamore/tcell/v2"
	"pgregory.net/rapid"

	"verifharness/internal/csets"
	"verifharness/internal/faketty"
	"verifharness/internal/inref"
	"verifharness/internal/pbt"
)

// SlowCase: multi-byte characters arriving one byte per read with gaps well
// below the 50 ms escape timeout, but adding up to more than the timeout. The
// timeout runs from the LAST byte received, so no character may be torn.
type SlowCase struct {
	Entry   string `json:"entry"`
	Charset string `json:"charset"`
	Runes   []rune `json:"runes"`
	GapMs   int    `json:"gap_ms"`
}

func genSlow(t *rapid.T) SlowCase {
	c := SlowCase{Entry: rapid.SampledFrom([]string{"xterm", "linux", "vt220"}).Draw(t, "entry"),
		Charset: rapid.SampledFrom([]string{"UTF-8", "UTF-8", "GB18030", "EUC-JP"}).Draw(t, "charset"),
		GapMs:   rapid.SampledFrom([]int{18, 22, 25}).Draw(t, "gap")}
	var long []rune
	for _, ch := range csets.Repertoire(c.Charset) {
		if len(ch.B) >= 3 {
			long = append(long, ch.R)
		}
	}
	if c.Charset == "UTF-8" {
		long = append(long, '😀', '𝄞', '𠀀')
	}
	n := rapid.IntRange(1, 3).Draw(t, "n")
	for i := 0; i < n; i++ {
		c.Runes = append(c.Runes, long[rapid.IntRange(0, len(long)-1).Draw(t, "ri")])
	}
	return c
}

func slowOnce(c SlowCase, e *entryInfo, bytes_ []byte, want []inref.Ev) (got []inref.Ev, usable bool, err error) {
	os.Setenv("LC_ALL", "en_US."+c.Charset)
	cp := *e.ti
	cp.PadChar = ""
	tty := faketty.New(80, 24)
	s, err := tcell.NewTerminfoScreenFromTtyTerminfo(tty, &cp)
	if err != nil {
		return nil, false, fmt.Errorf("harness: %v", err)
	}
	if err := s.Init(); err != nil {
		return nil, false, fmt.Errorf("harness: %v", err)
	}
	defer s.Fini()
	for s.HasPendingEvent() {
		s.PollEvent()
	}
	take := func() {
		for s.HasPendingEvent() {
			ev := s.PollEvent()
			switch ev.(type) {
			case *tcell.EventResize, *tcell.EventError:
			default:
				got = append(got, inref.From(ev))
			}
		}
	}
	usable = true
	last := time.Now()
	for i, b := range bytes_ {
		if i > 0 {
			time.Sleep(time.Duration(c.GapMs) * time.Millisecond)
		}
		tty.Feed([]byte{b})
		// the byte must have been read well within one timeout of the previous one
		deadline := time.Now().Add(10 * time.Millisecond)
		for tty.QueuedInput() > 0 && time.Now().Before(deadline) {
			time.Sleep(50 * time.Microsecond)
		}
		if tty.QueuedInput() > 0 || (i > 0 && time.Since(last) > 38*time.Millisecond) {
			usable = false
		}
		last = time.Now()
		take()
	}
	deadline := time.Now().Add(pbt.Scaled(2 * time.Second))
	for len(got) < len(want) && time.Now().Before(deadline) {
		take()
		time.Sleep(200 * time.Microsecond)
	}
	time.Sleep(70 * time.Millisecond)
	take()
	return got, usable, nil
}

func slowProp(c SlowCase) error {
	e, err := info(c.Entry)
	if err != nil {
		return err
	}
	var all []byte
	var want []inref.Ev
	for _, r := range c.Runes {
		b, ok := csets.Encode(c.Charset, r)
		if !ok {
			return fmt.Errorf("harness: %q not encodable in %s", r, c.Charset)
		}
		all = append(all, b...)
		want = append(want, inref.Ev{Kind: "key", Key: int(tcell.KeyRune), Rune: r})
	}
	var first []inref.Ev
	for rep := 0; rep < 3; rep++ {
		var got []inref.Ev
		usable := false
		for try := 0; try < 4 && !usable; try++ {
			got, usable, err = slowOnce(c, e, all, want)
			if err != nil {
				return err
			}
		}
		if !usable {
			pbt.Excluded("slow-typing:machine-too-slow")
			return nil
		}
		if inref.Equal(got, want) {
			return nil
		}
		if rep == 0 {
			first = got
		}
	}
	return fmt.Errorf("%s/%s: %q (bytes %x) arriving one byte per read every %d ms - every gap below the 50 ms escape timeout - is delivered as %s, want %s (three plays in a row)", c.Entry, c.Charset, string(c.Runes), all, c.GapMs, inref.Show(first), inref.Show(want))
}
