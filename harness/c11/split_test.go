package c11

import (
	"fmt"

	"github.com/gdamore/tcell/v2"
	"pgregory.net/rapid"

	"verifharness/internal/inref"
	"verifharness/internal/live"
	"verifharness/internal/pbt"
)

// SplitCase: a paste-like burst in three reads whose boundaries fall inside
// multi-byte characters, while the application does not poll (see
// live.SplitUnderBackpressure): UTF-8 locale.
type SplitCase struct {
	Entry  string `json:"entry"`
	First  rune   `json:"first"`
	Cut1   int    `json:"cut1"`
	Filler int    `json:"filler"`
	Last   rune   `json:"last"`
	Cut2   int    `json:"cut2"`
}

func genSplit(t *rapid.T) SplitCase {
	rs := []rune{'é', 'ß', '世', '€', '😀', '𝄞'}
	c := SplitCase{Entry: rapid.SampledFrom([]string{"xterm", "linux", "vt220"}).Draw(t, "entry"),
		First: rapid.SampledFrom(rs).Draw(t, "first"), Last: rapid.SampledFrom(rs).Draw(t, "last"),
		Filler: rapid.IntRange(11, 30).Draw(t, "filler")}
	c.Cut1 = rapid.IntRange(1, len(string(c.First))-1).Draw(t, "cut1")
	c.Cut2 = rapid.IntRange(1, len(string(c.Last))-1).Draw(t, "cut2")
	return c
}

func splitProp(c SplitCase) error {
	e, err := info(c.Entry)
	if err != nil {
		return err
	}
	f, l := []byte(string(c.First)), []byte(string(c.Last))
	want := []inref.Ev{{Kind: "key", Key: int(tcell.KeyRune), Rune: c.First}}
	r2 := append([]byte{}, f[c.Cut1:]...)
	for i := 0; i < c.Filler; i++ {
		r := rune('a' + i%26)
		r2 = append(r2, byte(r))
		want = append(want, inref.Ev{Kind: "key", Key: int(tcell.KeyRune), Rune: r})
	}
	r2 = append(r2, l[:c.Cut2]...)
	want = append(want, inref.Ev{Kind: "key", Key: int(tcell.KeyRune), Rune: c.Last})
	var first []inref.Ev
	for rep := 0; rep < 3; rep++ {
		var got []inref.Ev
		usable := false
		for try := 0; try < 4 && !usable; try++ {
			got, usable, err = live.SplitUnderBackpressure(e.ti, f[:c.Cut1], r2, l[c.Cut2:], len(want))
			if err != nil {
				return err
			}
		}
		if !usable {
			pbt.Excluded("split-backpressure:machine-too-slow")
			return nil
		}
		if inref.Equal(got, want) {
			return nil
		}
		if rep == 0 {
			first = got
		}
	}
	return fmt.Errorf("%s/UTF-8: %q cut after %d bytes, %d letters, %q cut after %d bytes, in three reads arriving within 25 ms while the application does not poll for 130 ms: delivered %s, the text is %s (three plays in a row)", c.Entry, string(c.First), c.Cut1, c.Filler, string(c.Last), c.Cut2, inref.Show(first), inref.Show(want))
}
