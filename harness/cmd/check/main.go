// Command check is the driver registered in MANIFEST.json:
//
//	bin/check <ID> [--tier quick|thorough] [--replay file]
//
// It rebuilds the property's test binary against /repo's current working tree
// (build tag verif), runs it (sharded in the thorough tier), merges the
// per-process statistics into /verif/evidence/<ID>.json and maps the outcome
// to the exit code contract: 0 held (KNOWN-FINDING lines for listed findings),
// 1 + "VIOLATION property=<ID> replay=<path>" for an unlisted violation,
// 2 for infrastructure trouble / inconclusive runs (never a VIOLATION line).
package main

import (
	"bytes"
	"encoding/binary"
	"encoding/json"
	"fmt"
	"os"
	"os/exec"
	"path/filepath"
	"regexp"
	"sort"
	"strconv"
	"strings"
	"sync"
	"time"
)

type propCfg struct {
	Pkg          string // package dir under harness/
	Race         bool
	Wasm         bool
	QuickShards  int
	ThorShards   int
	QuickTimeout time.Duration
	ThorTimeout  time.Duration
	Level        string
	ReplayReps   int
	// Fuzz: native fuzz targets (Fuzz* functions of the package) run after the
	// shards in the thorough tier, each for FuzzSeconds with all cores.
	Fuzz        []string
	FuzzSeconds int
	// OldTimers: odd-numbered shards run with GODEBUG=asynctimerchan=1, i.e. with
	// the timer-channel semantics a main module with a go directive below 1.23
	// gets (tcell's own go.mod says 1.12); even-numbered shards get the
	// semantics of this module's go 1.23.
	OldTimers bool
}

var props = map[string]propCfg{}

func reg(id string, c propCfg) {
	if c.Pkg == "" {
		c.Pkg = strings.ToLower(id)
	}
	if c.QuickShards == 0 {
		c.QuickShards = 1
	}
	if c.ThorShards == 0 {
		c.ThorShards = 16
	}
	if c.QuickTimeout == 0 {
		c.QuickTimeout = 5 * time.Minute
	}
	if c.ThorTimeout == 0 {
		c.ThorTimeout = 40 * time.Minute
	}
	if c.Level == "" {
		c.Level = "exploration"
	}
	props[id] = c
}

func init() {
	for _, id := range []string{"C01", "C04", "C09", "C13", "C14", "C16", "C17", "C18"} {
		reg(id, propCfg{})
	}
	reg("C02", propCfg{QuickShards: 2, OldTimers: true, ThorTimeout: 75 * time.Minute, Fuzz: []string{"FuzzPartition", "FuzzPartitionGrammar", "FuzzEpochs"}, FuzzSeconds: 90})
	reg("C03", propCfg{Fuzz: []string{"FuzzConcat"}, FuzzSeconds: 60})
	reg("C07", propCfg{Fuzz: []string{"FuzzPrograms", "FuzzRobust"}, FuzzSeconds: 90})
	reg("C08", propCfg{Fuzz: []string{"FuzzHistory"}, FuzzSeconds: 60})
	reg("C11", propCfg{QuickShards: 2, OldTimers: true, Fuzz: []string{"FuzzText"}, FuzzSeconds: 60})
	reg("C12", propCfg{Fuzz: []string{"FuzzHistories"}, FuzzSeconds: 60})
	reg("C15", propCfg{Fuzz: []string{"FuzzTputs"}, FuzzSeconds: 60})
	reg("C20", propCfg{ReplayReps: 20, Fuzz: []string{"FuzzViewport", "FuzzBoxlayout"}, FuzzSeconds: 60})
	reg("C05", propCfg{QuickShards: 4, ReplayReps: 20, OldTimers: true})
	reg("C06", propCfg{QuickShards: 4, ReplayReps: 20})
	reg("C10", propCfg{Race: true, QuickShards: 8, ReplayReps: 20})
	reg("C19", propCfg{Wasm: true, ThorShards: 4})
}

var fuzzLine = regexp.MustCompile(`fuzz: elapsed: [^,]+, execs: (\d+) \((\d+)/sec\), new interesting: (\d+) \(total: (\d+)\)`)

// fuzzStage runs the property's native fuzz targets (thorough tier only): the
// package is built once more with coverage instrumentation, each target runs
// in a scratch working directory (a copy of the package's testdata, so that
// nothing is written into /verif/harness) with a fresh cache directory.
func fuzzStage(id, tier, replay string, cfg propCfg, harness, modfile, outDir, buildDir, pid string) (viol []violation, info map[string]any, infra []string) {
	info = map[string]any{}
	if tier != "thorough" || replay != "" || len(cfg.Fuzz) == 0 {
		return
	}
	bin := filepath.Join(buildDir, id+"-"+pid+"-fuzz.test")
	scratch = append(scratch, bin)
	bargs := []string{"test", "-c", "-fuzz=Fuzz", "-tags", "verif", "-o", bin}
	if modfile != filepath.Join(harness, "go.mod") {
		bargs = append(bargs, "-modfile", modfile)
	}
	bargs = append(bargs, "./"+cfg.Pkg)
	cmd := exec.Command("go", bargs...)
	cmd.Dir = harness
	cmd.Env = goEnv()
	if out, err := cmd.CombinedOutput(); err != nil {
		infra = append(infra, fmt.Sprintf("fuzz build failed: %v: %s", err, out))
		return
	}
	secs := cfg.FuzzSeconds
	if v := os.Getenv("VERIF_FUZZ_SECONDS"); v != "" {
		if n, err := strconv.Atoi(v); err == nil && n > 0 {
			secs = n
		}
	}
	if secs == 0 {
		secs = 90
	}
	for _, target := range cfg.Fuzz {
		wd := filepath.Join(outDir, "fuzzwd-"+target)
		_ = os.MkdirAll(wd, 0o755)
		if src := filepath.Join(harness, cfg.Pkg, "testdata"); dirExists(src) {
			_ = exec.Command("cp", "-r", src, filepath.Join(wd, "testdata")).Run()
		}
		c := exec.Command(bin, "-test.run", "^$", "-test.fuzz", "^"+target+"$", "-test.fuzztime", fmt.Sprintf("%ds", secs),
			"-test.fuzzcachedir", filepath.Join(outDir, "fuzzcache-"+target), "-test.fuzzminimizetime", "10s", "-test.parallel", "16", "-test.timeout", "0")
		c.Dir = wd
		c.Env = goEnv("VERIF_DIR="+verifDir, "VERIF_REPO="+repoDir, "VERIF_TIER="+tier, "VERIF_OUTDIR="+outDir, "VERIF_FUZZ=1")
		out, err := c.CombinedOutput()
		var execs, interesting, total int64
		for _, m := range fuzzLine.FindAllSubmatch(out, -1) {
			execs, _ = strconv.ParseInt(string(m[1]), 10, 64)
			interesting, _ = strconv.ParseInt(string(m[3]), 10, 64)
			total, _ = strconv.ParseInt(string(m[4]), 10, 64)
		}
		info["fuzz_"+target] = map[string]any{"seconds": secs, "execs": execs, "new_interesting_inputs": interesting, "corpus_total": total}
		recs, _ := filepath.Glob(filepath.Join(outDir, "fuzzviol-*.json"))
		sort.Strings(recs) // smallest case first (the name starts with the case length)
		found := false
		for _, r := range recs {
			var v violation
			if b, e := os.ReadFile(r); e == nil && json.Unmarshal(b, &v) == nil {
				if !found {
					viol = append(viol, v)
				}
				found = true
			}
			_ = os.Remove(r)
		}
		if err != nil && !found {
			// the target failed without the oracle speaking: a hang or a crash of the
			// worker process. Keep the fuzzer's own reproducer.
			dir := filepath.Join(verifDir, "replays", id)
			_ = os.MkdirAll(dir, 0o755)
			logf := filepath.Join(dir, "fuzz-"+target+".log")
			_ = os.WriteFile(logf, out, 0o644)
			files, _ := filepath.Glob(filepath.Join(wd, "testdata", "fuzz", target, "*"))
			for _, f := range files {
				if !fileExists(filepath.Join(harness, cfg.Pkg, "testdata", "fuzz", target, filepath.Base(f))) {
					_ = exec.Command("cp", f, filepath.Join(dir, "fuzz-"+target+"-"+filepath.Base(f))).Run()
				}
			}
			if bytes.Contains(out, []byte("Failing input written to")) || crashInLibrary(out) {
				viol = append(viol, violation{Check: "fuzz:" + target, Replay: logf, Error: "the fuzz worker crashed or hung on an input (reproducer and log saved next to the log file)"})
			} else {
				tail := out
				if len(tail) > 3000 {
					tail = tail[len(tail)-3000:]
				}
				infra = append(infra, fmt.Sprintf("fuzz target %s ended abnormally: %v: %s", target, err, tail))
			}
		}
	}
	return
}

func dirExists(p string) bool  { st, err := os.Stat(p); return err == nil && st.IsDir() }
func fileExists(p string) bool { _, err := os.Stat(p); return err == nil }

type violation struct {
	Check  string `json:"check"`
	Replay string `json:"replay"`
	Error  string `json:"error"`
}

type stats struct {
	Property     string            `json:"property"`
	Evaluations  int64             `json:"evaluations"`
	NonTrivial   int64             `json:"nontrivial_evaluations"`
	HashesCapped bool              `json:"hashes_capped"`
	Classes      map[string]int64  `json:"classes"`
	Excluded     map[string]int64  `json:"excluded"`
	KnownHits    map[string]string `json:"known_hits"`
	Violations   []violation       `json:"violations"`
	Samples      []json.RawMessage `json:"samples"`
	Rule         string            `json:"rule"`
	Assumptions  []string          `json:"assumptions"`
	Exhaustive   []string          `json:"exhaustive"`
	Extra        map[string]any    `json:"extra"`
	Inconclusive []string          `json:"inconclusive"`
	Completed    bool              `json:"completed"`
}

type finding struct {
	Property string `json:"property"`
	ID       string `json:"id"`
	Kind     string `json:"kind"` // known | fixed
	Text     string `json:"text"`
	Regress  string `json:"regress,omitempty"`
	Commit   string `json:"commit,omitempty"`
}

var verifDir = "/verif"
var repoDir = "/repo"

// scratch: per-process build products (several checks of the same property may
// run at once, e.g. against different scratch copies of the repo)
var scratch []string

func cleanScratch() {
	for _, f := range scratch {
		_ = os.Remove(f)
	}
}

func die2(format string, a ...any) {
	fmt.Fprintf(os.Stderr, "check: "+format+"\n", a...)
	cleanScratch()
	os.Exit(2)
}

func goEnv(extra ...string) []string {
	env := os.Environ()
	env = append(env, "GOFLAGS=-mod=mod", "GOPROXY=off", "GOSUMDB=off", "GOTOOLCHAIN=local", "CGO_ENABLED=1")
	env = append(env, extra...)
	return env
}

func main() {
	if v := os.Getenv("VERIF_DIR"); v != "" {
		verifDir = v
	}
	if v := os.Getenv("VERIF_REPO"); v != "" {
		repoDir = v
	}
	args := os.Args[1:]
	if len(args) < 1 {
		die2("usage: check <ID> [--tier quick|thorough] [--replay file]")
	}
	id := args[0]
	tier := os.Getenv("VERIF_TIER")
	replay := ""
	for i := 1; i < len(args); i++ {
		switch args[i] {
		case "--tier":
			i++
			if i < len(args) {
				tier = args[i]
			}
		case "--replay":
			i++
			if i < len(args) {
				replay = args[i]
			}
		default:
			die2("unknown argument %q", args[i])
		}
	}
	if tier != "thorough" {
		tier = "quick"
	}
	cfg, ok := props[id]
	if !ok {
		die2("unknown property %q", id)
	}
	seed := int64(1)
	if v := os.Getenv("VERIF_SEED"); v != "" {
		if n, err := strconv.ParseInt(v, 10, 64); err == nil {
			seed = n
		}
	}
	if seed == 0 {
		seed = 1
	}
	if replay != "" {
		if abs, err := filepath.Abs(replay); err == nil {
			replay = abs
		}
	}
	t0 := time.Now()
	harness := filepath.Join(verifDir, "harness")
	buildDir := filepath.Join(verifDir, "build")
	_ = os.MkdirAll(buildDir, 0o755)
	pid := strconv.Itoa(os.Getpid())
	bin := filepath.Join(buildDir, id+"-"+pid+".test")

	// the replace directive must point at the repo under test
	modfile := filepath.Join(harness, "go.mod")
	if repoDir != "/repo" {
		b, err := os.ReadFile(modfile)
		if err != nil {
			die2("read go.mod: %v", err)
		}
		alt := filepath.Join(buildDir, "alt-"+id+"-"+pid+".mod")
		nb := bytes.Replace(b, []byte("=> /repo"), []byte("=> "+repoDir), 1)
		_ = os.WriteFile(alt, nb, 0o644)
		if sum, err := os.ReadFile(filepath.Join(harness, "go.sum")); err == nil {
			_ = os.WriteFile(filepath.Join(buildDir, "alt-"+id+"-"+pid+".sum"), sum, 0o644)
		}
		modfile = alt
		scratch = append(scratch, alt, filepath.Join(buildDir, "alt-"+id+"-"+pid+".sum"))
	}
	scratch = append(scratch, bin)

	// ---- build
	bargs := []string{"test", "-c", "-tags", "verif", "-o", bin}
	if modfile != filepath.Join(harness, "go.mod") {
		bargs = append(bargs, "-modfile", modfile)
	}
	var benv []string
	if cfg.Race {
		bargs = append(bargs, "-race")
	}
	if cfg.Wasm {
		benv = append(benv, "GOOS=js", "GOARCH=wasm")
	}
	bargs = append(bargs, "./"+cfg.Pkg)
	cmd := exec.Command("go", bargs...)
	cmd.Dir = harness
	cmd.Env = goEnv(benv...)
	var bout bytes.Buffer
	cmd.Stdout, cmd.Stderr = &bout, &bout
	if err := cmd.Run(); err != nil {
		// A compile failure located in the harness is infrastructure (exit 2). A
		// failure of tcell itself to compile for js/wasm is C19's violation and is
		// handled by that package's own build probe, not here.
		fmt.Fprintf(os.Stderr, "%s", bout.String())
		if cfg.Wasm && wasmTcellBuildBroken() {
			p := filepath.Join(verifDir, "replays", id)
			_ = os.MkdirAll(p, 0o755)
			logf := filepath.Join(p, "build.log")
			_ = os.WriteFile(logf, bout.Bytes(), 0o644)
			writeEvidence(id, tier, seed, cfg, &stats{Property: id, Evaluations: 1, Rule: "GOOS=js GOARCH=wasm go build of the root package", Samples: []json.RawMessage{json.RawMessage(`"go build (js/wasm) failed"`)}}, 0, 1, time.Since(t0), []string{"build failed"})
			fmt.Printf("VIOLATION property=%s replay=%s\n", id, logf)
			cleanScratch()
			os.Exit(1)
		}
		die2("build of %s failed: %v", cfg.Pkg, err)
	}

	// ---- run
	nsh := cfg.QuickShards
	timeout := cfg.QuickTimeout
	if tier == "thorough" {
		nsh = cfg.ThorShards
		timeout = cfg.ThorTimeout
	}
	if replay != "" {
		nsh = 1
		if cfg.OldTimers {
			nsh = 2 // the case is replayed under both timer semantics
		}
	}
	if os.Getenv("VERIF_ONLY_FUZZ") != "" { // development aid: only the native fuzz stage
		nsh = 0
	}
	outDir := filepath.Join(buildDir, "out", fmt.Sprintf("%s-%s-%d", id, tier, os.Getpid()))
	_ = os.RemoveAll(outDir)
	_ = os.MkdirAll(outDir, 0o755)
	defer os.RemoveAll(outDir)

	type res struct {
		code int
		out  []byte
	}
	results := make([]res, nsh)
	var wg sync.WaitGroup
	for i := 0; i < nsh; i++ {
		wg.Add(1)
		go func(i int) {
			defer wg.Done()
			var c *exec.Cmd
			targs := []string{"-test.run", "^TestProp$", "-test.timeout", timeout.String(), "-test.count", "1"}
			if cfg.Wasm {
				wrapper := filepath.Join(verifDir, "harness", "wasm_exec.sh")
				c = exec.Command(wrapper, append([]string{bin}, targs...)...)
			} else {
				c = exec.Command(bin, targs...)
			}
			c.Dir = filepath.Join(harness, cfg.Pkg)
			env := goEnv(
				"VERIF_DIR="+verifDir,
				"VERIF_REPO="+repoDir,
				"VERIF_TIER="+tier,
				"VERIF_SEED="+strconv.FormatInt(seed, 10),
				"VERIF_SHARD="+strconv.Itoa(i),
				"VERIF_NSHARDS="+strconv.Itoa(nsh),
				"VERIF_OUTDIR="+outDir,
			)
			if replay != "" {
				env = append(env, "VERIF_REPLAY="+replay)
				if cfg.ReplayReps > 0 {
					env = append(env, "VERIF_REPLAY_REPS="+strconv.Itoa(cfg.ReplayReps))
				}
			}
			if cfg.OldTimers && i%2 == 1 {
				env = append(env, "GODEBUG=asynctimerchan=1")
			}
			if cfg.Race {
				env = append(env, "GORACE=halt_on_error=0 log_path="+filepath.Join(outDir, fmt.Sprintf("race-%d", i)))
			}
			c.Env = env
			var ob bytes.Buffer
			c.Stdout, c.Stderr = &ob, &ob
			err := c.Run()
			code := 0
			if err != nil {
				code = 1
				if ee, ok := err.(*exec.ExitError); ok {
					code = ee.ExitCode()
				} else {
					code = 99
				}
			}
			results[i] = res{code, ob.Bytes()}
		}(i)
	}
	wg.Wait()
	fuzzViol, fuzzInfo, fuzzInfra := fuzzStage(id, tier, replay, cfg, harness, modfile, outDir, buildDir, pid)
	cleanScratch()

	// ---- merge
	merged := &stats{Property: id, Classes: map[string]int64{}, Excluded: map[string]int64{}, KnownHits: map[string]string{}, Extra: map[string]any{}}
	var allHashes []uint64
	infra := []string{}
	for i := 0; i < nsh; i++ {
		b, err := os.ReadFile(filepath.Join(outDir, fmt.Sprintf("shard-%d.json", i)))
		if err != nil {
			tail := results[i].out
			if len(tail) > 6000 {
				tail = tail[len(tail)-6000:]
			}
			fmt.Fprintf(os.Stderr, "---- shard %d output tail ----\n%s\n", i, tail)
			if crashInLibrary(results[i].out) {
				// the process died from a panic / fatal error raised inside one of the
				// library's own goroutines: that cannot be recovered by the harness
				// and is a failure of the code under test, not of the infrastructure
				dir := filepath.Join(verifDir, "replays", id)
				_ = os.MkdirAll(dir, 0o755)
				logf := filepath.Join(dir, fmt.Sprintf("crash-%s-seed%d-shard%d.log", tier, seed, i))
				_ = os.WriteFile(logf, results[i].out, 0o644)
				merged.Violations = append(merged.Violations, violation{Check: "process-crash", Replay: logf, Error: "the test process died from a panic or fatal error in a tcell goroutine (see the log)"})
				merged.Evaluations++
				continue
			}
			infra = append(infra, fmt.Sprintf("shard %d wrote no statistics (exit %d)", i, results[i].code))
			continue
		}
		var s stats
		if err := json.Unmarshal(b, &s); err != nil {
			infra = append(infra, fmt.Sprintf("shard %d statistics unreadable: %v", i, err))
			continue
		}
		merged.Evaluations += s.Evaluations
		merged.NonTrivial += s.NonTrivial
		merged.HashesCapped = merged.HashesCapped || s.HashesCapped
		for k, v := range s.Classes {
			merged.Classes[k] += v
		}
		for k, v := range s.Excluded {
			merged.Excluded[k] += v
		}
		for k, v := range s.KnownHits {
			if _, ok := merged.KnownHits[k]; !ok {
				merged.KnownHits[k] = v
			}
		}
		merged.Violations = append(merged.Violations, s.Violations...)
		if len(merged.Samples) < 8 {
			for _, sm := range s.Samples {
				if len(merged.Samples) < 8 {
					merged.Samples = append(merged.Samples, sm)
				}
			}
		}
		if merged.Rule == "" {
			merged.Rule = s.Rule
		}
		if len(merged.Assumptions) == 0 {
			merged.Assumptions = s.Assumptions
		}
		if i == 0 {
			merged.Exhaustive = s.Exhaustive
		}
		for k, v := range s.Extra {
			if f, ok := v.(float64); ok {
				if cur, ok := merged.Extra[k].(float64); ok {
					merged.Extra[k] = cur + f
				} else {
					merged.Extra[k] = f
				}
			} else if _, ok := merged.Extra[k]; !ok {
				merged.Extra[k] = v
			}
		}
		merged.Inconclusive = append(merged.Inconclusive, s.Inconclusive...)
		if hb, err := os.ReadFile(filepath.Join(outDir, fmt.Sprintf("shard-%d.hashes", i))); err == nil {
			for j := 0; j+8 <= len(hb); j += 8 {
				allHashes = append(allHashes, binary.LittleEndian.Uint64(hb[j:]))
			}
		}
		if results[i].code != 0 && len(s.Violations) == 0 {
			infra = append(infra, fmt.Sprintf("shard %d exited %d without a recorded violation", i, results[i].code))
			tail := results[i].out
			if len(tail) > 6000 {
				tail = tail[len(tail)-6000:]
			}
			fmt.Fprintf(os.Stderr, "---- shard %d output tail ----\n%s\n", i, tail)
		}
		if cfg.Race {
			// race reports written by the runtime
			files, _ := filepath.Glob(filepath.Join(outDir, fmt.Sprintf("race-%d.*", i)))
			_ = files
		}
	}
	sort.Slice(allHashes, func(i, j int) bool { return allHashes[i] < allHashes[j] })
	distinct := 0
	for i := range allHashes {
		if i == 0 || allHashes[i] != allHashes[i-1] {
			distinct++
		}
	}

	merged.Violations = append(merged.Violations, fuzzViol...)
	for k, v := range fuzzInfo {
		merged.Extra[k] = v
	}
	infra = append(infra, fuzzInfra...)

	// ---- known findings
	findings := loadFindings()
	knownIDs := map[string]finding{}
	for _, f := range findings {
		if f.Property == id && f.Kind == "known" {
			knownIDs[f.ID] = f
		}
	}
	var realViol []violation
	realViol = append(realViol, merged.Violations...)
	var hitIDs []string
	for k := range merged.KnownHits {
		hitIDs = append(hitIDs, k)
	}
	sort.Strings(hitIDs)
	for _, k := range hitIDs {
		if f, ok := knownIDs[k]; ok {
			fmt.Printf("KNOWN-FINDING: property=%s %s: %s\n", id, f.ID, f.Text)
		} else {
			// a matcher fired for an id that is not listed: that is a violation
			realViol = append(realViol, violation{Check: "known-finding-matcher", Replay: filepath.Join(verifDir, "known_findings.json"), Error: "failure class " + k + " is not listed in known_findings.json: " + merged.KnownHits[k]})
		}
	}

	if st, err := exec.Command("git", "-C", repoDir, "status", "--porcelain").Output(); err == nil {
		_ = st // informational only; the harness never writes to the repo
	}

	writeEvidence(id, tier, seed, cfg, merged, distinct, len(realViol), time.Since(t0), infra)

	if len(realViol) > 0 {
		seen := map[string]bool{}
		for _, v := range realViol {
			if seen[v.Replay] {
				continue
			}
			seen[v.Replay] = true
			fmt.Printf("VIOLATION property=%s replay=%s\n", id, v.Replay)
			fmt.Fprintf(os.Stderr, "  [%s] %s\n", v.Check, v.Error)
		}
		os.Exit(1)
	}
	if len(infra) > 0 || len(merged.Inconclusive) > 0 {
		for _, m := range infra {
			fmt.Fprintf(os.Stderr, "check: inconclusive: %s\n", m)
		}
		for _, m := range merged.Inconclusive {
			fmt.Fprintf(os.Stderr, "check: inconclusive: %s\n", m)
		}
		os.Exit(2)
	}
	os.Exit(0)
}

// crashInLibrary: did the process die from a panic / fatal error whose
// panicking goroutine is inside tcell (and was not started by the harness's
// recover-protected wrappers)?
func crashInLibrary(out []byte) bool {
	s := string(out)
	i := strings.Index(s, "\npanic: ")
	if i < 0 {
		i = strings.Index(s, "\nfatal error: ")
	}
	if i < 0 {
		return false
	}
	if strings.Contains(s[i:], "test timed out") {
		return false
	}
	// the first goroutine block after the panic line is the panicking one
	rest := s[i:]
	j := strings.Index(rest, "\ngoroutine ")
	if j < 0 {
		return false
	}
	block := rest[j+1:]
	if k := strings.Index(block, "\n\n"); k >= 0 {
		block = block[:k]
	}
	return strings.Contains(block, "github.com/gdamore/tcell/v2") && !strings.Contains(block, "verifharness/")
}

func loadFindings() []finding {
	b, err := os.ReadFile(filepath.Join(verifDir, "known_findings.json"))
	if err != nil {
		return nil
	}
	var doc struct {
		Findings []finding `json:"findings"`
	}
	if err := json.Unmarshal(b, &doc); err != nil {
		die2("known_findings.json unreadable: %v", err)
	}
	return doc.Findings
}

func wasmTcellBuildBroken() bool {
	cmd := exec.Command("go", "build", "-o", os.DevNull, ".")
	cmd.Dir = repoDir
	cmd.Env = goEnv("GOOS=js", "GOARCH=wasm", "GOFLAGS=-mod=mod")
	return cmd.Run() != nil
}

func writeEvidence(id, tier string, seed int64, cfg propCfg, m *stats, distinct, nviol int, wall time.Duration, infra []string) {
	samples := make([]any, 0, len(m.Samples))
	for _, s := range m.Samples {
		var v any
		if json.Unmarshal(s, &v) == nil {
			samples = append(samples, v)
		}
	}
	cov := map[string]any{
		"evaluations":            m.Evaluations,
		"distinct_nontrivial":    distinct,
		"nontrivial_evaluations": m.NonTrivial,
		"rule":                   m.Rule,
		"samples":                samples,
		"classes":                m.Classes,
		"excluded":               m.Excluded,
	}
	if m.HashesCapped {
		cov["distinct_nontrivial_note"] = "hash sets were capped per process; distinct_nontrivial is a lower bound"
	}
	if len(m.Exhaustive) > 0 {
		cov["exhaustive_subspaces"] = m.Exhaustive
	}
	for k, v := range m.Extra {
		cov[k] = v
	}
	if len(infra) > 0 || len(m.Inconclusive) > 0 {
		cov["inconclusive"] = append(append([]string{}, infra...), m.Inconclusive...)
	}
	if len(m.KnownHits) > 0 {
		cov["known_findings_observed"] = m.KnownHits
	}
	ev := map[string]any{
		"property_id": id,
		"tier":        tier,
		"seed":        seed,
		"level":       cfg.Level,
		"coverage":    cov,
		"assumptions": m.Assumptions,
		"wall_s":      wall.Seconds(),
		"violations":  nviol,
	}
	if m.Assumptions == nil {
		ev["assumptions"] = []string{}
	}
	b, _ := json.MarshalIndent(ev, "", " ")
	dir := filepath.Join(verifDir, "evidence")
	if v := os.Getenv("VERIF_EVIDENCE_DIR"); v != "" {
		dir = v // sensitivity runs against scratch trees must not overwrite real evidence
	}
	_ = os.MkdirAll(dir, 0o755)
	_ = os.WriteFile(filepath.Join(dir, id+".json"), append(b, '\n'), 0o644)
}
