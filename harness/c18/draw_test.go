package c18

// Sub-check "draw": draw histories applied to a SimulationScreen, compared with
// the shared shadow model after every Show/Sync.

import (
	"bytes"
	"fmt"
	"runtime"
	"runtime/debug"
	"sync/atomic"
	"time"

	"github.com/gdamore/tcell/v2"
	"pgregory.net/rapid"

	"verifharness/internal/gen"
	"verifharness/internal/pbt"
	"verifharness/internal/shadow"
)

// finding ids (see knownID)
const (
	idNoResizeEvent = "C18-setsize-no-resize-event"
	idMBLast        = "C18-injectkeybytes-multibyte-last"
	idMBCharset     = "C18-injectkeybytes-multibyte-charset-garbled"
	idWideLastStale = "C18-wide-last-column-not-marked-clean"
)

type Op struct {
	Kind  string        `json:"op"`
	X     int           `json:"x,omitempty"`
	Y     int           `json:"y,omitempty"`
	W     int           `json:"w,omitempty"`
	H     int           `json:"h,omitempty"`
	R     rune          `json:"r,omitempty"`
	Comb  []rune        `json:"comb,omitempty"`
	Style gen.StyleSpec `json:"style"`
	On    bool          `json:"on,omitempty"`
	Subst string        `json:"subst,omitempty"`
}

type DrawCase struct {
	Charset string `json:"charset"`
	W       int    `json:"w"`
	H       int    `json:"h"`
	Ops     []Op   `json:"ops"`
}

// tagged failure: class "" = plain violation, otherwise the id of a finding class
type failure struct {
	class string
	msg   string
}

func (f *failure) Error() string {
	if f.class != "" {
		return "[" + f.class + "] " + f.msg
	}
	return f.msg
}

// ---- waiting for an event that should already be queued.
// The simulator posts events synchronously from the calling goroutine, so an
// expected event is normally already pending. To stay sound if delivery were
// asynchronous we wait a little for a missing one - but stop waiting once many
// consecutive waits were futile (otherwise a screen that never posts the event
// would cost the whole time budget).
var futileWaits atomic.Int64

func awaitPending(s tcell.SimulationScreen) bool {
	if s.HasPendingEvent() {
		return true
	}
	if futileWaits.Load() >= 10 {
		runtime.Gosched()
		return s.HasPendingEvent()
	}
	deadline := time.Now().Add(50 * time.Millisecond)
	for time.Now().Before(deadline) {
		if s.HasPendingEvent() {
			futileWaits.Store(0)
			return true
		}
		time.Sleep(200 * time.Microsecond)
	}
	futileWaits.Add(1)
	return false
}

func eqRunes(a, b []rune) bool {
	if len(a) != len(b) {
		return false
	}
	for i := range a {
		if a[i] != b[i] {
			return false
		}
	}
	return true
}

// acceptableBytes lists the byte strings a cell showing v may hold, given the
// fallback tables that were in force at the Shows at which it may have been
// painted.
func acceptableBytes(cs *charset, fbs []map[rune]string, v shadow.Vis) [][]byte {
	var out [][]byte
	for _, fb := range fbs {
		var prim []byte
		if b, ok := cs.encode(v.R); ok {
			prim = b
		} else if s, ok := fb[v.R]; ok {
			prim = []byte(s)
		} else {
			prim = []byte{'?'}
		}
		alts := [][]byte{prim}
		for _, cr := range v.Comb {
			var next [][]byte
			if b, ok := cs.encode(cr); ok {
				for _, a := range alts {
					next = append(next, append(append([]byte{}, a...), b...))
				}
			} else {
				// soundness exclusion: an unencodable combining rune may be elided
				// (what a real screen does) or shown through its fallback / '?'
				opts := [][]byte{nil, {'?'}}
				if s, ok := fb[cr]; ok {
					opts = append(opts, []byte(s))
				}
				for _, a := range alts {
					for _, o := range opts {
						next = append(next, append(append([]byte{}, a...), o...))
					}
				}
			}
			alts = next
		}
		out = append(out, alts...)
	}
	return out
}

// Rune 0 (a never-written cell, or an explicit NUL) is displayed as a blank and
// is indistinguishable from ' ' on the display; the model stores ' ' for it so
// that a 0 <-> ' ' rewrite does not count as a content change (a cell whose
// visible content did not change need not be repainted, so it may keep the
// default style it was painted with).
func nul(r rune) rune {
	if r == 0 {
		return ' '
	}
	return r
}

func blankNUL(sh *shadow.Screen) {
	for i := range sh.Cells {
		if sh.Cells[i].R == 0 {
			sh.Cells[i].R = ' '
		}
	}
}

// closeScreen finalises the screen unless a panic is unwinding: a panic raised
// inside tcell while it holds the screen lock would make Fini block for ever.
func closeScreen(s tcell.Screen) {
	if r := recover(); r != nil {
		panic(fmt.Sprintf("%v\n%s", r, debug.Stack()))
	}
	s.Fini()
}

func cloneCells(c []tcell.SimCell) []tcell.SimCell {
	return append([]tcell.SimCell(nil), c...)
}

func sameCell(a, b tcell.SimCell) bool {
	return a.Style == b.Style && eqRunes(a.Runes, b.Runes) && bytes.Equal(a.Bytes, b.Bytes)
}

func runDraw(c DrawCase) error {
	cs := charsets[c.Charset]
	if cs == nil {
		return fmt.Errorf("harness: unknown charset %q", c.Charset)
	}
	s := tcell.NewSimulationScreen(c.Charset)
	if s == nil {
		return fmt.Errorf("NewSimulationScreen(%q) returned nil", c.Charset)
	}
	if err := s.Init(); err != nil {
		return fmt.Errorf("Init(%q): %v", c.Charset, err)
	}
	defer closeScreen(s)

	// fallback tables: a new version per Register/Unregister. A cell that is not
	// repainted keeps the bytes it was painted with, so per cell the versions in
	// force at the Shows since its content last changed are acceptable (okFb).
	// every screen starts from the package's default table as it was before any
	// screen existed (a screen's own Register/Unregister calls must not leak
	// into it, i.e. into later screens)
	fb := map[rune]string{}
	for k, v := range initialFallbacks {
		fb[k] = v
	}
	fbVers := []map[rune]string{fb}
	setFb := func(r rune, subst string, del bool) {
		n := make(map[rune]string, len(fb)+1)
		for k, v := range fb {
			n[k] = v
		}
		if del {
			delete(n, r)
		} else {
			n[r] = subst
		}
		fb = n
		fbVers = append(fbVers, n)
	}
	var okFb [][]int
	sh := shadow.New(80, 25)
	blankNUL(sh)
	shownW, shownH := 80, 25 // size at the last Show/Sync (initially what Init gives)
	var resizes []*tcell.EventResize
	fullNext := true
	cursorKnown, cx, cy := true, -1, -1
	var firstKnown error
	// rows whose last column showed the blank that replaces a wide rune, with
	// the style it was painted in (see staleWideBlank)
	wideBlank := map[int]tcell.Style{}

	// staleWideBlank recognises the finding class idWideLastStale: the simulator
	// paints the blank for a wide rune in the last column without marking the
	// cell clean, so a later Fill/Clear that restores the content the cell had
	// when it was last marked clean is not seen as a change and the cell keeps
	// showing that blank in the wide rune's style.
	staleWideBlank := func(x, y int, got tcell.SimCell) bool {
		st, ok := wideBlank[y]
		return ok && x == sh.W-1 && got.Style == st && eqRunes(got.Runes, []rune{' '}) && bytes.Equal(got.Bytes, []byte{' '})
	}
	// the missing EventResize shows up in every history, so a failure of another
	// finding class takes precedence when the case is attributed to one class
	known := func(step int, kind string, id, msg string) {
		if f, ok := firstKnown.(*failure); firstKnown == nil || (ok && f.class == idNoResizeEvent && id != idNoResizeEvent) {
			firstKnown = &failure{id, fmt.Sprintf("step %d (%s): %s", step, kind, msg)}
		}
	}

	pending := 0
	drain := func() {
		pending = 0
		for s.HasPendingEvent() {
			ev := s.PollEvent()
			if r, ok := ev.(*tcell.EventResize); ok {
				resizes = append(resizes, r)
			}
		}
	}

	setSize := func(step int, w, h int) error {
		before, bw, bh := s.GetContents()
		before = cloneCells(before)
		// with the event queue full SetSize waits for room for its resize event:
		// the application keeps polling meanwhile
		done := make(chan struct{})
		go func() { s.SetSize(w, h); close(done) }()
		guard := pbt.After(10 * time.Second)
		select { // the application is slow to poll: SetSize meets the queue as it is
		case <-done:
		case <-time.After(3 * time.Millisecond):
		}
	wait:
		for {
			select {
			case <-done:
				break wait
			case <-guard:
				return fmt.Errorf("step %d: SetSize(%d,%d) did not return within 10s although the application was polling (%d events were pending)", step, w, h, pending)
			default:
				drain()
				time.Sleep(20 * time.Microsecond)
			}
		}
		after, aw, ah := s.GetContents()
		if aw != w || ah != h || len(after) != w*h {
			return fmt.Errorf("step %d: after SetSize(%d,%d) GetContents reports %dx%d with %d cells", step, w, h, aw, ah, len(after))
		}
		for y := 0; y < h && y < bh; y++ {
			for x := 0; x < w && x < bw; x++ {
				if !sameCell(before[y*bw+x], after[y*w+x]) {
					return fmt.Errorf("step %d: SetSize(%d,%d) from %dx%d did not preserve physical cell (%d,%d): before %+v after %+v", step, w, h, bw, bh, x, y, before[y*bw+x], after[y*w+x])
				}
			}
		}
		if w != sh.W || h != sh.H {
			wideBlank = map[int]tcell.Style{}
			sh.Resize(w, h)
			okFb = make([][]int, w*h)
			blankNUL(sh)
			sh.InvalidateSnap()
			fullNext = true
		}
		// (a SetSize to the current size: the Screen doc says the cells are
		// invalidated, the simulator repaints nothing; only the default style an
		// unchanged StyleDefault cell is shown in could tell - either accepted)
		// a size change hides the cursor on a real screen until the next
		// ShowCursor; the statement does not cover it: not asserted
		cursorKnown = false
		drain()
		return nil
	}

	observe := func(step int, kind string) error {
		// A cell covered by the right half of a wide rune is not painted at this
		// Show, so it must not be recorded as shown: it is presented to the model
		// as locked for the duration of MarkShown (which records nothing for
		// locked cells). Otherwise content that changes while covered and is
		// restored by a Fill would count as repainted with the current default.
		var covered []*shadow.Cell
		full := fullNext || kind == "sync"
		cur := len(fbVers) - 1
		for y := 0; y < sh.H; y++ {
			for x, v := range sh.ExpectedRow(y) {
				cell := sh.At(x, y)
				if cell.Locked {
					continue
				}
				if v.Hidden {
					cell.Locked = true
					covered = append(covered, cell)
					continue
				}
				i := y*sh.W + x
				if full || sh.Changed(x, y) {
					okFb[i] = okFb[i][:0]
				}
				if n := len(okFb[i]); n == 0 || okFb[i][n-1] != cur {
					okFb[i] = append(okFb[i], cur)
				}
			}
		}
		sh.MarkShown(full)
		for _, cell := range covered {
			cell.Locked = false
		}
		fullNext = false
		if kind == "sync" {
			wideBlank = map[int]tcell.Style{} // everything is repainted
		}
		// ---- resize event
		if sh.W != shownW || sh.H != shownH {
			if len(resizes) == 0 && awaitPending(s) {
				drain()
			}
			if len(resizes) == 0 {
				known(step, kind, idNoResizeEvent, fmt.Sprintf("the size changed from %dx%d to %dx%d (SetSize) but no EventResize came out of PollEvent", shownW, shownH, sh.W, sh.H))
			} else {
				ew, eh := resizes[len(resizes)-1].Size()
				if ew != sh.W || eh != sh.H {
					return fmt.Errorf("step %d (%s): last EventResize has size %dx%d, screen was set to %dx%d", step, kind, ew, eh, sh.W, sh.H)
				}
			}
		}
		resizes = nil
		shownW, shownH = sh.W, sh.H
		// ---- sizes
		cells, w, h := s.GetContents()
		if w != sh.W || h != sh.H || len(cells) != w*h {
			return fmt.Errorf("step %d (%s): GetContents reports %dx%d (%d cells), expected %dx%d", step, kind, w, h, len(cells), sh.W, sh.H)
		}
		if lw, lh := s.Size(); lw != sh.W || lh != sh.H {
			return fmt.Errorf("step %d (%s): Size() = %dx%d, expected %dx%d", step, kind, lw, lh, sh.W, sh.H)
		}
		// ---- cells
		for y := 0; y < sh.H; y++ {
			row := sh.ExpectedRow(y)
			for x := 0; x < sh.W; x++ {
				v := row[x]
				if v.Hidden || sh.At(x, y).Locked {
					continue
				}
				got := cells[y*w+x]
				want := append([]rune{v.R}, v.Comb...)
				var bad string
				res := sh.Resolved(x, y)
				var fbs []map[rune]string
				for _, ver := range okFb[y*sh.W+x] {
					fbs = append(fbs, fbVers[ver])
				}
				alts := acceptableBytes(cs, fbs, v)
				okStyle, okBytes := false, false
				for _, st := range res {
					if got.Style == st {
						okStyle = true
					}
				}
				for _, a := range alts {
					if bytes.Equal(a, got.Bytes) {
						okBytes = true
					}
				}
				switch {
				case !eqRunes(got.Runes, want):
					bad = fmt.Sprintf("cell (%d,%d) Runes=%x, expected %x (stored primary %#x, blank=%v)", x, y, got.Runes, want, sh.At(x, y).R, v.Blank)
				case !okStyle:
					bad = fmt.Sprintf("cell (%d,%d) %x Style=%+v, expected one of %+v (stored %+v, default %+v)", x, y, want, got.Style, res, sh.At(x, y).Style, sh.Default)
				case !okBytes:
					bad = fmt.Sprintf("cell (%d,%d) runes %x Bytes=%x in %s, expected one of %x", x, y, want, got.Bytes, c.Charset, alts)
				}
				if bad != "" {
					if staleWideBlank(x, y, got) {
						known(step, kind, idWideLastStale, bad+" - the cell still shows the blank painted for a wide rune in the last column at an earlier Show")
						continue
					}
					return fmt.Errorf("step %d (%s): %s", step, kind, bad)
				}
				if x == sh.W-1 && v.Blank && shadow.RuneWidth(sh.At(x, y).R) == 2 {
					wideBlank[y] = got.Style
				}
			}
		}
		// ---- cursor
		if cursorKnown {
			gx, gy, vis := s.GetCursor()
			if sh.In(cx, cy) {
				if !vis || gx != cx || gy != cy {
					return fmt.Errorf("step %d (%s): GetCursor()=(%d,%d,%v) after ShowCursor(%d,%d) on %dx%d", step, kind, gx, gy, vis, cx, cy, sh.W, sh.H)
				}
			} else if vis {
				return fmt.Errorf("step %d (%s): GetCursor()=(%d,%d,visible) but the cursor was last placed at (%d,%d), outside %dx%d", step, kind, gx, gy, cx, cy, sh.W, sh.H)
			}
		}
		return nil
	}

	if err := setSize(-1, c.W, c.H); err != nil {
		return err
	}
	cursorKnown = true // nothing was shown yet; HideCursor state (-1,-1)

	for i, op := range c.Ops {
		st := op.Style.Style()
		switch op.Kind {
		case "set":
			comb := append([]rune{}, op.Comb...)
			s.SetContent(op.X, op.Y, op.R, comb, st)
			for j := range comb {
				comb[j] = 'X' // the caller's slice must not be aliased
			}
			sh.SetContent(op.X, op.Y, nul(op.R), op.Comb, st)
		case "setcell":
			if op.On { // no rune given: documented as a blank
				s.SetCell(op.X, op.Y, st)
				sh.SetContent(op.X, op.Y, ' ', nil, st)
			} else {
				s.SetCell(op.X, op.Y, st, append([]rune{op.R}, op.Comb...)...)
				sh.SetContent(op.X, op.Y, nul(op.R), op.Comb, st)
			}
		case "fill":
			s.Fill(op.R, st)
			sh.Fill(nul(op.R), st)
		case "clear":
			s.Clear()
			sh.Fill(' ', tcell.StyleDefault)
		case "setstyle":
			s.SetStyle(st)
			sh.Default = st
		case "cursor":
			s.ShowCursor(op.X, op.Y)
			cursorKnown, cx, cy = true, op.X, op.Y
		case "hidecursor":
			s.HideCursor()
			cursorKnown, cx, cy = true, -1, -1
		case "lock":
			s.LockRegion(op.X, op.Y, op.W, op.H, op.On)
			sh.Lock(op.X, op.Y, op.W, op.H, op.On)
		case "injectkeys":
			// unpolled input: up to the queue's capacity of 10 events
			for k := 0; k < op.W && pending < 10; k++ {
				s.InjectKey(tcell.KeyRune, 'k', tcell.ModNone)
				pending++
			}
			continue // left unpolled for the next call to meet
		case "regfb":
			s.RegisterRuneFallback(op.R, op.Subst)
			setFb(op.R, op.Subst, false)
		case "unregfb":
			s.UnregisterRuneFallback(op.R)
			setFb(op.R, "", true)
		case "setsize":
			if err := setSize(i, op.W, op.H); err != nil {
				return err
			}
		case "show", "sync":
			if op.Kind == "show" {
				s.Show()
			} else {
				s.Sync()
			}
			drain()
			if err := observe(i, op.Kind); err != nil {
				return err
			}
		default:
			return fmt.Errorf("harness: unknown op %q", op.Kind)
		}
		drain()
	}
	if len(tcell.RuneFallbacks) != len(initialFallbacks) {
		return fmt.Errorf("the package-level RuneFallbacks table has %d entries after this history, it had %d before any screen existed: a screen's Register/UnregisterRuneFallback leaked into it", len(tcell.RuneFallbacks), len(initialFallbacks))
	}
	for k, v := range initialFallbacks {
		if tcell.RuneFallbacks[k] != v {
			return fmt.Errorf("the package-level RuneFallbacks entry for %q is %q after this history, it was %q before any screen existed", k, tcell.RuneFallbacks[k], v)
		}
	}
	return firstKnown
}

// initialFallbacks: the default table, copied before any screen is created.
var initialFallbacks = func() map[rune]string {
	m := map[rune]string{}
	for k, v := range tcell.RuneFallbacks {
		m[k] = v
	}
	return m
}()

// ---- generator

var fbRunes = []rune{tcell.RuneHLine, tcell.RuneVLine, tcell.RuneULCorner, tcell.RuneBlock, tcell.RuneDegree, tcell.RuneBullet, tcell.RunePi,
	'é', 'Ω', 'Ж', '€', '→', '♥', '世', '界', 'あ', '한', '😀', 0x0301, 0x0308, 0x20D7}

func genDraw(t *rapid.T) DrawCase {
	var name string
	switch k := rapid.IntRange(0, 9).Draw(t, "cskind"); {
	case k <= 2:
		name = "UTF-8"
	case k == 3:
		name = rapid.SampledFrom([]string{"US-ASCII", "ISO8859-1", "KOI8-R"}).Draw(t, "cs")
	case k == 4:
		name = rapid.SampledFrom([]string{"GBK", "GB18030", "EUC-JP", "Shift_JIS", "EUC-KR", "Big5"}).Draw(t, "cs")
	default:
		name = charsetList[rapid.IntRange(0, len(charsetList)-1).Draw(t, "csidx")].name
	}
	c := DrawCase{Charset: name, W: rapid.IntRange(1, 10).Draw(t, "w"), H: rapid.IntRange(1, 5).Draw(t, "h")}
	w, h := c.W, c.H
	n := rapid.IntRange(1, pbt.Pick(40, 80)).Draw(t, "n")
	coordX := func() int { return rapid.IntRange(-2, w+1).Draw(t, "x") }
	coordY := func() int { return rapid.IntRange(-2, h+1).Draw(t, "y") }
	wides := []rune{'世', '界', 'あ', '한', '😀', 'Ａ'}
	var lastSet *Op
	for len(c.Ops) < n {
		k := rapid.IntRange(0, 31).Draw(t, "kind")
		var op Op
		switch {
		case k <= 6:
			op = Op{Kind: "set", X: coordX(), Y: coordY(), R: gen.Rune(t, "r", false), Comb: gen.Comb(t, "comb"), Style: gen.Style(t, "st", true, true)}
			o := op
			lastSet = &o
		case k <= 8:
			op = Op{Kind: "setcell", X: coordX(), Y: coordY(), R: gen.Rune(t, "r", false), Comb: gen.Comb(t, "comb"), Style: gen.Style(t, "st", true, true),
				On: rapid.IntRange(0, 5).Draw(t, "norune") == 0}
			if op.On {
				op.R, op.Comb = 0, nil
			}
		case k == 9:
			op = Op{Kind: "fill", R: gen.FillRune(t, "fr", false), Style: gen.Style(t, "fst", true, true)}
		case k == 10:
			op = Op{Kind: "clear"}
		case k == 11:
			op = Op{Kind: "setstyle", Style: gen.Style(t, "dst", true, true)}
		case k <= 13:
			op = Op{Kind: "cursor", X: coordX(), Y: coordY()}
		case k == 14:
			op = Op{Kind: "hidecursor"}
		case k == 15:
			op = Op{Kind: "lock", X: rapid.IntRange(-1, w).Draw(t, "lx"), Y: rapid.IntRange(-1, h).Draw(t, "ly"),
				W: rapid.IntRange(0, 3).Draw(t, "lw"), H: rapid.IntRange(0, 3).Draw(t, "lh"), On: rapid.IntRange(0, 2).Draw(t, "lock") != 0}
			if rapid.IntRange(0, 3).Draw(t, "unlockall") == 0 {
				op = Op{Kind: "lock", X: 0, Y: 0, W: w, H: h, On: false}
			}
		case k <= 20:
			op = Op{Kind: "show"}
		case k == 21:
			op = Op{Kind: "sync"}
		case k <= 23:
			if rapid.IntRange(0, 3).Draw(t, "unpolled") == 0 {
				c.Ops = append(c.Ops, Op{Kind: "injectkeys", W: rapid.SampledFrom([]int{1, 9, 10, 10, 10}).Draw(t, "nkeys")})
			}
			op = Op{Kind: "setsize", W: rapid.IntRange(1, 10).Draw(t, "nw"), H: rapid.IntRange(1, 5).Draw(t, "nh")}
			w, h = op.W, op.H
		case k == 24:
			r := rapid.SampledFrom(fbRunes).Draw(t, "fbr")
			alpha := []rune("ox+-*#|=AZ?")
			sub := string(rapid.SampledFrom(alpha).Draw(t, "sub"))
			if shadow.RuneWidth(r) == 2 {
				sub += string(rapid.SampledFrom(alpha).Draw(t, "sub2"))
			}
			op = Op{Kind: "regfb", R: r, Subst: sub}
		case k == 25:
			op = Op{Kind: "unregfb", R: rapid.SampledFrom(fbRunes).Draw(t, "fbr")}
		case k <= 27:
			// a wide rune in or next to the last column
			op = Op{Kind: "set", X: w - 1 - rapid.IntRange(0, 1).Draw(t, "off"), Y: rapid.IntRange(0, h-1).Draw(t, "wy"),
				R: rapid.SampledFrom(wides).Draw(t, "wr"), Style: gen.Style(t, "wst", true, false)}
		case k == 28 && lastSet != nil:
			// identical (or style-tweaked) re-store
			op = *lastSet
			if rapid.Bool().Draw(t, "tweak") {
				op.Style = gen.Style(t, "st2", true, true)
			}
		case k == 30 && name != "UTF-8":
			// a fallback rune shown, its fallback changed or removed, then painted again
			r := rapid.SampledFrom(fbRunes[:7]).Draw(t, "sr")
			x1, y1 := rapid.IntRange(0, w-1).Draw(t, "sx1"), rapid.IntRange(0, h-1).Draw(t, "sy1")
			c.Ops = append(c.Ops, Op{Kind: "set", X: x1, Y: y1, R: r}, Op{Kind: "show"})
			if rapid.Bool().Draw(t, "sunreg") {
				c.Ops = append(c.Ops, Op{Kind: "unregfb", R: r})
			} else {
				c.Ops = append(c.Ops, Op{Kind: "regfb", R: r, Subst: string(rapid.SampledFrom([]rune("ox+-*#|=AZ?")).Draw(t, "ssub"))})
			}
			if rapid.Bool().Draw(t, "sother") {
				c.Ops = append(c.Ops, Op{Kind: "set", X: rapid.IntRange(0, w-1).Draw(t, "sx2"), Y: rapid.IntRange(0, h-1).Draw(t, "sy2"), R: r})
				op = Op{Kind: "show"}
			} else {
				op = Op{Kind: "sync"}
			}
		case k == 29:
			// narrow rune over / next to where wide runes may be
			op = Op{Kind: "set", X: rapid.IntRange(0, w-1).Draw(t, "nx"), Y: rapid.IntRange(0, h-1).Draw(t, "ny"),
				R: rapid.SampledFrom([]rune{'a', 'é', ' ', 'Ж', tcell.RuneHLine}).Draw(t, "nr")}
		default:
			op = Op{Kind: "set", X: rapid.IntRange(0, w-1).Draw(t, "px"), Y: rapid.IntRange(0, h-1).Draw(t, "py"),
				R: gen.Rune(t, "pr", false), Comb: gen.Comb(t, "pcomb"), Style: gen.Style(t, "pst", true, true)}
		}
		c.Ops = append(c.Ops, op)
		if op.Kind == "setsize" && rapid.IntRange(0, 9).Draw(t, "showafter") < 6 {
			c.Ops = append(c.Ops, Op{Kind: rapid.SampledFrom([]string{"show", "show", "sync"}).Draw(t, "sk")})
		}
	}
	if last := c.Ops[len(c.Ops)-1].Kind; last != "show" && last != "sync" {
		c.Ops = append(c.Ops, Op{Kind: "show"})
	}
	return c
}

func drawNonTrivial(c DrawCase) bool {
	wide, resized := false, false
	shows, changedSince, twoShows := 0, false, false
	for _, op := range c.Ops {
		switch op.Kind {
		case "set", "setcell":
			if shadow.RuneWidth(op.R) == 2 {
				wide = true
			}
			if shows > 0 {
				changedSince = true
			}
		case "fill", "clear":
			if shows > 0 {
				changedSince = true
			}
		case "setsize":
			resized = true
		case "show", "sync":
			if shows > 0 && changedSince {
				twoShows = true
			}
			shows++
		}
	}
	return (wide && resized) || twoShows
}

func drawClasses(c DrawCase) []string {
	seen := map[string]bool{}
	var out []string
	add := func(s string) {
		if !seen[s] {
			seen[s] = true
			out = append(out, s)
		}
	}
	if cs := charsets[c.Charset]; cs != nil {
		add("charset-" + cs.kindName())
	}
	w := c.W
	for _, op := range c.Ops {
		switch op.Kind {
		case "set", "setcell":
			if shadow.RuneWidth(op.R) == 2 {
				add("wide")
				if op.X == w-1 {
					add("wide-last-column")
				}
			}
			if len(op.Comb) > 0 {
				add("combining")
			}
			if op.X < 0 || op.Y < 0 || op.X >= w {
				add("out-of-range")
			}
			if op.Style.Fg == "none" || op.Style.Bg == "none" {
				add("colornone")
			}
			if cs := charsets[c.Charset]; cs != nil && op.R >= 0x20 {
				if _, ok := cs.encode(op.R); !ok {
					add("unencodable")
				}
			}
		case "setsize":
			add("setsize")
			w = op.W
		case "sync", "fill", "clear", "lock", "setstyle", "cursor", "regfb", "unregfb", "injectkeys":
			add(op.Kind)
		}
	}
	return out
}
