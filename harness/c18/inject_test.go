package c18

// Sub-checks "inject" (random mixes of InjectKey / InjectMouse / InjectKeyBytes)
// and "repertoire" (every character of every stateless charset injected alone).

import (
	"fmt"
	"runtime"
	"sort"
	"strings"
	"time"
	"unicode/utf8"

	"github.com/gdamore/tcell/v2"
	"pgregory.net/rapid"

	"verifharness/internal/gen"
	"verifharness/internal/pbt"
)

type Item struct {
	Kind    string `json:"kind"` // key | mouse | bytes
	Key     int16  `json:"key,omitempty"`
	Rune    rune   `json:"rune,omitempty"`
	Mod     int16  `json:"mod,omitempty"`
	X       int    `json:"x,omitempty"`
	Y       int    `json:"y,omitempty"`
	Buttons int16  `json:"buttons,omitempty"`
	Chars   []Char `json:"chars,omitempty"` // the text of a bytes item, one entry per character
}

type InjCase struct {
	Charset string `json:"charset"`
	Items   []Item `json:"items"`
}

func (it Item) bytes() []byte {
	var b []byte
	for _, ch := range it.Chars {
		b = append(b, ch.B...)
	}
	return b
}

func (it Item) text() string {
	var sb strings.Builder
	for _, ch := range it.Chars {
		sb.WriteRune(ch.R)
	}
	return sb.String()
}

const guard = 5 * time.Second

// ---- event pump: a consumer goroutine spinning on PollEvent (the queue holds
// only 10 events), forwarding into a large buffer. Sentinel events posted with
// PostEvent delimit what each injection produced (the queue is FIFO).

type sentinel struct {
	t time.Time
	n int
}

func (s *sentinel) When() time.Time { return s.t }

type pump struct {
	s   tcell.SimulationScreen
	out chan tcell.Event
	n   int
}

func newPump(s tcell.SimulationScreen) *pump {
	p := &pump{s: s, out: make(chan tcell.Event, 8192)}
	go func() {
		for {
			ev := s.PollEvent()
			if ev == nil {
				close(p.out)
				return
			}
			p.out <- ev
		}
	}()
	return p
}

// inject runs f (an Inject* call) under the guard.
func (p *pump) inject(what string, f func() bool) (bool, error) {
	done := make(chan bool, 1)
	go func() { done <- f() }()
	select {
	case r := <-done:
		return r, nil
	case <-pbt.After(guard):
		return false, fmt.Errorf("%s did not return within %v although PollEvent was being called concurrently", what, guard)
	}
}

// collect returns every event that came out of PollEvent since the previous collect.
func (p *pump) collect() ([]tcell.Event, error) {
	p.n++
	mark := &sentinel{t: time.Now(), n: p.n}
	deadline := time.Now().Add(pbt.Scaled(guard))
	for tries := 0; ; tries++ {
		if err := p.s.PostEvent(mark); err == nil {
			break
		}
		if time.Now().After(deadline) {
			return nil, fmt.Errorf("harness: could not post the sentinel event within %v (queue stays full although PollEvent is being called)", guard)
		}
		if tries < 100 {
			runtime.Gosched()
		} else {
			time.Sleep(100 * time.Microsecond)
		}
	}
	var evs []tcell.Event
	timer := time.NewTimer(guard)
	defer timer.Stop()
	for {
		select {
		case ev, ok := <-p.out:
			if !ok {
				return evs, fmt.Errorf("PollEvent returned nil (screen finalised?) before the sentinel event came out")
			}
			if m, ok := ev.(*sentinel); ok {
				if m.n == p.n {
					return evs, nil
				}
				continue
			}
			evs = append(evs, ev)
		case <-timer.C:
			return evs, fmt.Errorf("events posted to the screen did not come out of PollEvent within %v (got %d so far)", guard, len(evs))
		}
	}
}

// ---- expectations

type want struct {
	mouse   bool
	key     tcell.Key
	r       rune
	mod     tcell.ModMask
	ctl     bool // control byte: Key only, modifiers None or Ctrl, rune unspecified
	x, y    int
	buttons tcell.ButtonMask
}

func (w want) String() string {
	switch {
	case w.mouse:
		return fmt.Sprintf("Mouse(%d,%d,buttons=%#x,mod=%d)", w.x, w.y, int(w.buttons), w.mod)
	case w.ctl:
		return fmt.Sprintf("Key(%d=%s, mod None|Ctrl)", w.key, tcell.KeyNames[w.key])
	}
	return fmt.Sprintf("Key(%d,%q U+%04X,mod=%d)", w.key, w.r, w.r, w.mod)
}

func describe(ev tcell.Event) string {
	switch e := ev.(type) {
	case *tcell.EventKey:
		return fmt.Sprintf("Key(%d,%q U+%04X,mod=%d)", e.Key(), e.Rune(), e.Rune(), e.Modifiers())
	case *tcell.EventMouse:
		x, y := e.Position()
		return fmt.Sprintf("Mouse(%d,%d,buttons=%#x,mod=%d)", x, y, int(e.Buttons()), e.Modifiers())
	case *tcell.EventResize:
		w, h := e.Size()
		return fmt.Sprintf("Resize(%d,%d)", w, h)
	}
	return fmt.Sprintf("%T", ev)
}

func describeAll(evs []tcell.Event) string {
	var s []string
	for _, e := range evs {
		s = append(s, describe(e))
	}
	return "[" + strings.Join(s, " ") + "]"
}

func wantAll(ws []want) string {
	var s []string
	for _, w := range ws {
		s = append(s, w.String())
	}
	return "[" + strings.Join(s, " ") + "]"
}

func matches(ev tcell.Event, w want) bool {
	if w.mouse {
		e, ok := ev.(*tcell.EventMouse)
		if !ok {
			return false
		}
		x, y := e.Position()
		return x == w.x && y == w.y && e.Buttons() == w.buttons && e.Modifiers() == w.mod
	}
	e, ok := ev.(*tcell.EventKey)
	if !ok {
		return false
	}
	if w.ctl {
		return e.Key() == w.key && (e.Modifiers() == tcell.ModNone || e.Modifiers() == tcell.ModCtrl)
	}
	return e.Key() == w.key && e.Rune() == w.r && e.Modifiers() == w.mod
}

func matchesAll(evs []tcell.Event, ws []want) bool {
	if len(evs) != len(ws) {
		return false
	}
	for i := range ws {
		if !matches(evs[i], ws[i]) {
			return false
		}
	}
	return true
}

// wantsFor lists the events a bytes item must produce.
func wantsFor(chars []Char) []want {
	var ws []want
	for _, ch := range chars {
		if len(ch.B) == 1 && ch.B[0] < 0x20 {
			ws = append(ws, want{ctl: true, key: tcell.Key(ch.B[0])})
		} else {
			ws = append(ws, want{key: tcell.KeyRune, r: ch.R, mod: tcell.ModNone})
		}
	}
	return ws
}

// classifyBytes maps a failed bytes injection onto a finding class ("" = none).
func classifyBytes(cs *charset, chars []Char, ret bool, evs []tcell.Event) string {
	ws := wantsFor(chars)
	if cs.kind == kMulti {
		for _, ch := range chars {
			if len(ch.B) >= 2 {
				// the prefix loop decodes the lead byte alone (atEOF=true): the
				// decoder answers U+FFFD, which is silently discarded
				return idMBCharset
			}
		}
	}
	n := len(chars)
	if n > 0 && chars[n-1].B[0] >= 0x80 && !ret && matchesAll(evs, ws[:n-1]) {
		return idMBLast
	}
	return ""
}

func injectBytes(p *pump, cs *charset, label string, chars []Char) error {
	var b []byte
	for _, ch := range chars {
		b = append(b, ch.B...)
	}
	ret, err := p.inject("InjectKeyBytes", func() bool { return p.s.InjectKeyBytes(append([]byte{}, b...)) })
	if err != nil {
		return fmt.Errorf("%s: %v", label, err)
	}
	evs, err := p.collect()
	if err != nil {
		return fmt.Errorf("%s: InjectKeyBytes(%x): %v", label, b, err)
	}
	ws := wantsFor(chars)
	if ret && matchesAll(evs, ws) {
		return nil
	}
	var txt strings.Builder
	for _, ch := range chars {
		txt.WriteRune(ch.R)
	}
	msg := fmt.Sprintf("%s: InjectKeyBytes(%x) = %v in %s for the valid text %q; events polled %s, expected true and %s", label, b, ret, cs.name, txt.String(), describeAll(evs), wantAll(ws))
	return &failure{classifyBytes(cs, chars, ret, evs), msg}
}

func runInject(c InjCase) error {
	cs := charsets[c.Charset]
	if cs == nil {
		return fmt.Errorf("harness: unknown charset %q", c.Charset)
	}
	s := tcell.NewSimulationScreen(c.Charset)
	if err := s.Init(); err != nil {
		return fmt.Errorf("Init(%q): %v", c.Charset, err)
	}
	defer closeScreen(s)
	p := newPump(s)
	var firstKnown error
	for i, it := range c.Items {
		label := fmt.Sprintf("item %d", i)
		switch it.Kind {
		case "key":
			k, r, m := tcell.Key(it.Key), it.Rune, tcell.ModMask(it.Mod)
			if _, err := p.inject("InjectKey", func() bool { s.InjectKey(k, r, m); return true }); err != nil {
				return fmt.Errorf("%s: %v", label, err)
			}
			evs, err := p.collect()
			if err != nil {
				return fmt.Errorf("%s: InjectKey: %v", label, err)
			}
			ref := tcell.NewEventKey(k, r, m)
			ws := []want{{key: ref.Key(), r: ref.Rune(), mod: ref.Modifiers()}}
			if k != tcell.KeyRune || (r >= 0x20 && r != 0x7f) {
				// no normalisation documented for these: literally as injected
				ws = []want{{key: k, r: r, mod: m}}
			}
			if !matchesAll(evs, ws) {
				return fmt.Errorf("%s: InjectKey(%d,%q,%d): events polled %s, expected %s", label, k, r, m, describeAll(evs), wantAll(ws))
			}
		case "mouse":
			bm, m := tcell.ButtonMask(it.Buttons), tcell.ModMask(it.Mod)
			if _, err := p.inject("InjectMouse", func() bool { s.InjectMouse(it.X, it.Y, bm, m); return true }); err != nil {
				return fmt.Errorf("%s: %v", label, err)
			}
			evs, err := p.collect()
			if err != nil {
				return fmt.Errorf("%s: InjectMouse: %v", label, err)
			}
			ws := []want{{mouse: true, x: it.X, y: it.Y, buttons: bm, mod: m}}
			if !matchesAll(evs, ws) {
				return fmt.Errorf("%s: InjectMouse(%d,%d,%#x,%d): events polled %s, expected %s", label, it.X, it.Y, int(bm), m, describeAll(evs), wantAll(ws))
			}
		case "bytes":
			if err := injectBytes(p, cs, label, it.Chars); err != nil {
				if f, ok := err.(*failure); ok && f.class != "" {
					if firstKnown == nil {
						firstKnown = f
					}
					continue
				}
				return err
			}
		default:
			return fmt.Errorf("harness: unknown item kind %q", it.Kind)
		}
	}
	return firstKnown
}

// ---- generator

var namedKeys = func() []tcell.Key {
	var ks []tcell.Key
	for k := range tcell.KeyNames {
		ks = append(ks, k)
	}
	sort.Slice(ks, func(i, j int) bool { return ks[i] < ks[j] })
	return ks
}()

var buttonBits = []tcell.ButtonMask{tcell.Button1, tcell.Button2, tcell.Button3, tcell.Button4, tcell.Button5, tcell.Button6, tcell.Button7, tcell.Button8,
	tcell.WheelUp, tcell.WheelDown, tcell.WheelLeft, tcell.WheelRight}

func asciiChar(t *rapid.T) Char {
	b := byte(rapid.IntRange(0x20, 0x7e).Draw(t, "ascii"))
	return Char{B: []byte{b}, R: rune(b)}
}

func ctlChar(t *rapid.T) Char {
	b := byte(rapid.IntRange(0, 0x1f).Draw(t, "ctl"))
	return Char{B: []byte{b}, R: rune(b)}
}

func utf8Rune(t *rapid.T) rune {
	for {
		var r rune
		switch rapid.IntRange(0, 6).Draw(t, "u8class") {
		case 0:
			r = rune(rapid.IntRange(0xa0, 0x7ff).Draw(t, "u8"))
		case 1:
			r = rapid.SampledFrom([]rune{'é', 'ß', 'Ω', 'Ж', 'א', 0xa0, 0x7ff, 0x80 + 0x20}).Draw(t, "u8")
		case 2:
			r = rune(rapid.IntRange(0x800, 0xffff).Draw(t, "u8"))
		case 3:
			r = rapid.SampledFrom([]rune{'世', '界', 'あ', 'ア', '한', '€', '→', 0x800, 0xffe8, 0xd7ff, 0xe000, 'Ａ'}).Draw(t, "u8")
		case 4:
			r = rune(rapid.IntRange(0x10000, 0x10ffff).Draw(t, "u8"))
		case 5:
			r = rapid.SampledFrom([]rune{'😀', '🚀', 0x1d11e, 0x10000, 0x10fffd, 0x2070e}).Draw(t, "u8")
		default:
			r = rune(rapid.IntRange(0x3040, 0x9fa5).Draw(t, "u8"))
		}
		if textRune(r) {
			return r
		}
	}
}

// highChar draws a non-ASCII character of the charset (ok=false: it has none).
func highChar(t *rapid.T, cs *charset, multiOnly bool) (Char, bool) {
	switch cs.kind {
	case kUTF8:
		r := utf8Rune(t)
		return Char{B: []byte(string(r)), R: r}, true
	case kASCII:
		return Char{}, false
	}
	cs.build()
	if len(cs.multis) > 0 && (multiOnly || len(cs.singles) == 0 || rapid.IntRange(0, 3).Draw(t, "multi") != 0) {
		// bias towards the longest sequences now and then
		if rapid.IntRange(0, 5).Draw(t, "long") == 0 {
			last := cs.multis[len(cs.multis)-1]
			if len(last.B) >= 3 {
				lo := sort.Search(len(cs.multis), func(i int) bool { return len(cs.multis[i].B) >= 3 })
				return cs.multis[rapid.IntRange(lo, len(cs.multis)-1).Draw(t, "longidx")], true
			}
		}
		return cs.multis[rapid.IntRange(0, len(cs.multis)-1).Draw(t, "midx")], true
	}
	if len(cs.singles) > 0 {
		return cs.singles[rapid.IntRange(0, len(cs.singles)-1).Draw(t, "sidx")], true
	}
	return Char{}, false
}

func genText(t *rapid.T, cs *charset) []Char {
	shape := rapid.IntRange(0, 7).Draw(t, "shape")
	n := rapid.IntRange(1, 6).Draw(t, "len")
	any := func(allowCtl bool) Char {
		k := rapid.IntRange(0, 9).Draw(t, "ck")
		if k <= 4 {
			if ch, ok := highChar(t, cs, false); ok {
				return ch
			}
		}
		if k == 9 && allowCtl {
			return ctlChar(t)
		}
		return asciiChar(t)
	}
	hi, hasHi := highChar(t, cs, true)
	var out []Char
	switch {
	case shape == 0 && hasHi: // alone
		return []Char{hi}
	case shape <= 2 && hasHi: // last
		for i := 0; i < n-1; i++ {
			out = append(out, any(false))
		}
		return append(out, hi)
	case shape == 3 && hasHi: // first
		out = append(out, hi)
		for i := 0; i < n-1; i++ {
			out = append(out, any(false))
		}
		return out
	case shape == 4: // ASCII only
		for i := 0; i < n; i++ {
			out = append(out, asciiChar(t))
		}
		return out
	case shape == 5: // with control bytes
		for i := 0; i < n; i++ {
			out = append(out, any(true))
		}
		return out
	}
	for i := 0; i < n; i++ {
		out = append(out, any(false))
	}
	return out
}

func genInject(t *rapid.T) InjCase {
	var cs *charset
	switch k := rapid.IntRange(0, 9).Draw(t, "cskind"); {
	case k <= 2:
		cs = charsets["UTF-8"]
	default:
		cs = charsetList[rapid.IntRange(0, len(charsetList)-1).Draw(t, "csidx")]
	}
	c := InjCase{Charset: cs.name}
	n := rapid.IntRange(1, 14).Draw(t, "n")
	for i := 0; i < n; i++ {
		switch k := rapid.IntRange(0, 9).Draw(t, "ik"); {
		case k <= 1:
			it := Item{Kind: "key", Mod: int16(rapid.IntRange(0, 15).Draw(t, "mod"))}
			if rapid.Bool().Draw(t, "isrune") {
				it.Key = int16(tcell.KeyRune)
				it.Rune = gen.Rune(t, "kr", false)
			} else {
				it.Key = int16(rapid.SampledFrom(namedKeys).Draw(t, "key"))
				if rapid.IntRange(0, 3).Draw(t, "withrune") == 0 {
					it.Rune = rune(rapid.IntRange(0x20, 0x7e).Draw(t, "kr2"))
				}
			}
			if rapid.IntRange(0, 2).Draw(t, "nomod") == 0 {
				it.Mod = 0
			}
			c.Items = append(c.Items, it)
		case k == 2:
			var bm tcell.ButtonMask
			for _, b := range buttonBits {
				if rapid.IntRange(0, 3).Draw(t, "bit") == 0 {
					bm |= b
				}
			}
			c.Items = append(c.Items, Item{Kind: "mouse", X: rapid.IntRange(-3, 400).Draw(t, "mx"), Y: rapid.IntRange(-3, 200).Draw(t, "my"),
				Buttons: int16(bm), Mod: int16(rapid.IntRange(0, 15).Draw(t, "mmod"))})
		default:
			c.Items = append(c.Items, Item{Kind: "bytes", Chars: genText(t, cs)})
		}
	}
	return c
}

func injNonTrivial(c InjCase) bool {
	for _, it := range c.Items {
		if it.Kind == "bytes" && len(it.Chars) > 0 && len(it.Chars[len(it.Chars)-1].B) >= 2 {
			return true
		}
	}
	return false
}

func injClasses(c InjCase) []string {
	seen := map[string]bool{}
	var out []string
	add := func(s string) {
		if !seen[s] {
			seen[s] = true
			out = append(out, s)
		}
	}
	if cs := charsets[c.Charset]; cs != nil {
		add("charset-" + cs.kindName())
	}
	for _, it := range c.Items {
		add(it.Kind)
		if it.Kind != "bytes" || len(it.Chars) == 0 {
			continue
		}
		n := len(it.Chars)
		if len(it.Chars[n-1].B) >= 2 {
			add("multibyte-last")
			if n == 1 {
				add("multibyte-alone")
			}
		} else if it.Chars[n-1].B[0] >= 0x80 {
			add("high-single-byte-last")
		}
		if len(it.Chars[0].B) >= 2 && n > 1 {
			add("multibyte-first")
		}
		for _, ch := range it.Chars {
			if len(ch.B) >= 3 {
				add(fmt.Sprintf("char-%d-bytes", len(ch.B)))
			}
			if ch.B[0] < 0x20 {
				add("control-byte")
			}
		}
	}
	return out
}

// ---- exhaustive repertoire sweep

type repCase struct {
	Charset string `json:"charset"`
	Char    Char   `json:"char"`
}

func sweepRepertoire(sw *pbt.Sweep, known func(error) string) {
	idx := 0
	var total, nonASCII int64
	for _, cs := range charsetList {
		cs.build()
		var chars []Char
		for b := 0; b < 0x7f; b++ {
			chars = append(chars, Char{B: []byte{byte(b)}, R: rune(b)})
		}
		chars = append(chars, cs.singles...)
		chars = append(chars, cs.multis...)
		if cs.kind == kUTF8 {
			for r := rune(0x80); r <= 0x10ffff; r++ {
				if textRune(r) {
					b := make([]byte, 4)
					chars = append(chars, Char{B: b[:utf8.EncodeRune(b, r)], R: r})
				}
			}
		}
		stride, off := 1, 0
		if !pbt.Thorough() {
			stride = (len(chars) + 1499) / 1500
			if stride < 1 {
				stride = 1
			}
			off = int(pbt.Seed() % uint64(stride))
		}
		s := tcell.NewSimulationScreen(cs.name)
		if err := s.Init(); err != nil {
			sw.Case(true, pbt.HashStr("init", cs.name), func() any { return repCase{Charset: cs.name} }, fmt.Errorf("Init(%q): %v", cs.name, err), nil)
			continue
		}
		p := newPump(s)
		var bulk int64
		for i, ch := range chars {
			idx++
			if pbt.Thorough() {
				if !sw.Mine(idx) {
					continue
				}
			} else if i%stride != off && ch.B[0] >= 0x20 {
				continue // quick tier: every stride-th character (control bytes always)
			}
			err := injectBytes(p, cs, "alone", []Char{ch})
			total++
			if ch.B[0] >= 0x80 {
				nonASCII++
			}
			rc := repCase{Charset: cs.name, Char: ch}
			if err != nil || bulk%97 == 0 {
				sw.Case(len(ch.B) >= 2, pbt.HashStr(cs.name, string(ch.B)), func() any { return rc }, err, known)
			} else {
				pbt.NoteN(1)
			}
			bulk++
			if err != nil {
				if f, ok := err.(*failure); !ok || f.class == "" {
					// the pump may be out of step after a guard timeout: restart it
					s.Fini()
					s = tcell.NewSimulationScreen(cs.name)
					if s.Init() != nil {
						break
					}
					p = newPump(s)
				}
			}
		}
		s.Fini()
	}
	pbt.AddExtra("repertoire_characters_injected", total)
	pbt.AddExtra("repertoire_non_ascii_characters_injected", nonASCII)
}
