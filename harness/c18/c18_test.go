// C18 — SimulationScreen is a faithful test double.
//
// Sub-checks:
//
//	draw        rapid-generated draw histories on a SimulationScreen in every
//	            stateless charset, compared after each Show/Sync with the shared
//	            shadow model (Runes, resolved Style, Bytes through an independent
//	            encoder + the real screen's fallback rule), SetSize (physical overlap
//	            kept, EventResize delivered), GetCursor.
//	inject      mixes of InjectKey / InjectMouse / InjectKeyBytes (valid text of the
//	            charset, multi-byte character last / first / alone, control bytes)
//	            consumed through PollEvent by a concurrent poller.
//	repertoire  every character of every stateless charset injected alone.
//
// C18_NOKNOWN=1 disables the known-finding matchers (every failure is reported).
package c18

import (
	"os"
	"strings"
	"testing"

	"verifharness/internal/pbt"
)

func TestMain(m *testing.M) { pbt.Main(m, "C18") }

// knownID extracts the finding class a failure was tagged with.
func knownID(err error) string {
	if os.Getenv("C18_NOKNOWN") != "" || err == nil {
		return ""
	}
	msg := err.Error()
	if strings.HasPrefix(msg, "[C18-") {
		if i := strings.IndexByte(msg, ']'); i > 0 {
			return msg[1:i]
		}
	}
	return ""
}

func TestProp(t *testing.T) {
	defer pbt.Recover(t)
	if len(missingSets) > 0 {
		pbt.Inconclusive("charsets not registered by encoding.Register(): " + strings.Join(missingSets, ", "))
	}
	pbt.Describe("draw: rapid-generated histories (1..40 ops quick, 1..80 thorough, always ending in a Show) of SetContent/SetCell/Fill/Clear/SetStyle/ShowCursor/HideCursor/LockRegion/Register-/UnregisterRuneFallback/Show/Sync/SetSize on a SimulationScreen of 1..10 x 1..5 cells in one of 24 stateless charsets (UTF-8, US-ASCII, ISO8859-1..16, KOI8-R/U, GBK, GB18030, EUC-JP, Shift_JIS, EUC-KR, Big5), coordinates -2..w+1, rune classes ascii/narrow/wide/ACS/control/C1/zero-width/invalid/astral, combining lists, styles incl. ColorNone/ColorReset/urls; after every Show/Sync every unlocked visible cell of GetContents is compared with the shadow model, plus GetCursor, Size and the EventResize. Non-trivial = history with a wide rune and a SetSize, or two Shows with a content change between them. inject: 1..14 items per case (InjectKey over all named keys and KeyRune with any rune x 16 modifier sets, InjectMouse with any combination of the 12 button/wheel bits, InjectKeyBytes with valid text of 1..6 characters of the charset: multi-byte character alone/last/first, ASCII, control bytes) polled concurrently through PollEvent; non-trivial = a text whose last character is multi-byte. repertoire: every enumerated character (all single bytes, all two-byte sequences an independent decoder accepts as one rune, longer sequences from encoding the BMP; all UTF-8 scalar values) injected alone; quick samples every k-th. distinct = hash of the JSON case.",
		"go-runewidth with EastAsianWidth=false is the width classification (shared shadow model)",
		"Bytes oracle: Go's unicode/utf8 for UTF-8, otherwise a fresh golang.org/x/text encoder of the same charset per rune; unencodable primary rune -> registered fallback (the simulator starts with tcell.RuneFallbacks, like a real screen) else '?'",
		"soundness exclusion: the Bytes of an unencodable combining rune may be elided (real screen) or be its fallback / '?' (either accepted)",
		"soundness exclusion: cells covered by the right half of a wide rune and locked cells are not compared",
		"soundness exclusion: the cursor is not asserted between a SetSize and the next ShowCursor/HideCursor (a size change hides the cursor on a real screen; the statement is silent)",
		"the EventResize for a size change must be available from PollEvent by the time the next Show/Sync has returned (a SetSize back to the size of the previous Show asserts nothing)",
		"Fill is only given runes of width <= 1 (documented precondition); fallback substitutes are ASCII of the rune's width (documented recommendation)",
		"key bytes: valid text excludes DEL, C1 controls, U+FFFD and non-characters; a control byte < 0x20 must give one key event with Key()==that control key, modifiers None or Ctrl (rune not asserted)",
		"InjectKey: literal equality for every key other than KeyRune-with-control-rune, for which tcell.NewEventKey's documented normalisation is the oracle")

	known := knownID
	if os.Getenv("C18_NOKNOWN") != "" {
		known = nil
	}
	var drawKnown func(DrawCase, error) string
	var injKnown func(InjCase, error) string
	if known != nil {
		drawKnown = func(_ DrawCase, err error) string { return knownID(err) }
		injKnown = func(_ InjCase, err error) string { return knownID(err) }
	}

	pbt.Check(t, "draw", pbt.Pick(6000, 50000), pbt.Spec[DrawCase]{
		Gen:        genDraw,
		Prop:       runDraw,
		NonTrivial: drawNonTrivial,
		Classes:    drawClasses,
		Known:      drawKnown,
	})
	pbt.Check(t, "inject", pbt.Pick(6000, 50000), pbt.Spec[InjCase]{
		Gen:        genInject,
		Prop:       runInject,
		NonTrivial: injNonTrivial,
		Classes:    injClasses,
		Known:      injKnown,
	})
	sw := pbt.NewSweep(t, "repertoire")
	if !sw.Skip() {
		sweepRepertoire(sw, known)
		if pbt.Thorough() {
			pbt.Exhaustive("every character of each of the 24 stateless charsets (all single bytes, all two-byte sequences decoding to one rune, 3/4-byte encodings of the BMP, all UTF-8 scalar values that are text) injected alone through InjectKeyBytes")
		}
	}
}
