package c18

// Character-set helpers: the list of stateless charsets, an independent
// encoder/decoder oracle (a fresh x/text transformer per call, Go's own
// unicode/utf8 for UTF-8) and the enumerated repertoire used by the injection
// generator and the exhaustive sweep.

import (
	"strings"
	"sync"
	"unicode"
	"unicode/utf8"

	"github.com/gdamore/tcell/v2"
	tenc "github.com/gdamore/tcell/v2/encoding"
	xenc "golang.org/x/text/encoding"
)

const (
	kUTF8 = iota
	kASCII
	k8bit
	kMulti
)

// Char is one character of a charset: its bytes and the rune an independent
// decoder gives for them.
type Char struct {
	B []byte `json:"b"`
	R rune   `json:"r"`
}

type charset struct {
	name string
	kind int
	enc  xenc.Encoding

	once    sync.Once
	singles []Char // one byte >= 0x80 decoding to a non-control rune
	multis  []Char // two or more bytes (not enumerated for UTF-8)
}

// every charset encoding.Register() provides that is stateless (ISO-2022-JP and
// HZ-GB2312 carry shift state and are out of the property's quantifier).
var charsetNames = []string{
	"UTF-8", "US-ASCII",
	"ISO8859-1", "ISO8859-2", "ISO8859-3", "ISO8859-4", "ISO8859-5", "ISO8859-6", "ISO8859-7", "ISO8859-8",
	"ISO8859-9", "ISO8859-10", "ISO8859-13", "ISO8859-14", "ISO8859-15", "ISO8859-16",
	"KOI8-R", "KOI8-U",
	"GBK", "GB18030", "EUC-JP", "Shift_JIS", "EUC-KR", "Big5",
}

var (
	charsets    = map[string]*charset{}
	charsetList []*charset
	missingSets []string
)

func init() {
	tenc.Register()
	for _, n := range charsetNames {
		e := tcell.GetEncoding(n)
		if e == nil {
			missingSets = append(missingSets, n)
			continue
		}
		c := &charset{name: n, enc: e}
		switch {
		case n == "UTF-8":
			c.kind = kUTF8
		case n == "US-ASCII":
			c.kind = kASCII
		case strings.HasPrefix(n, "ISO8859") || strings.HasPrefix(n, "KOI8"):
			c.kind = k8bit
		default:
			c.kind = kMulti
		}
		charsets[n] = c
		charsetList = append(charsetList, c)
	}
}

func (c *charset) kindName() string {
	return [...]string{"utf8", "ascii", "8bit", "multibyte"}[c.kind]
}

// encode is the independent encoding oracle for one rune. ok=false means the
// charset cannot represent the rune. An invalid rune is encoded the way Go
// encodes it (as U+FFFD).
func (c *charset) encode(r rune) ([]byte, bool) {
	if !utf8.ValidRune(r) {
		r = utf8.RuneError
	}
	u := make([]byte, 4)
	u = u[:utf8.EncodeRune(u, r)]
	if c.kind == kUTF8 {
		return u, true
	}
	b, err := c.enc.NewEncoder().Bytes(u)
	if err != nil || len(b) == 0 || b[0] == 0x1a {
		return nil, false
	}
	return b, true
}

// decodeOne reports the rune when b is exactly one character of the charset.
func (c *charset) decodeOne(b []byte) (rune, bool) {
	if c.kind == kUTF8 {
		if !utf8.FullRune(b) {
			return 0, false
		}
		r, n := utf8.DecodeRune(b)
		if n != len(b) || r == utf8.RuneError {
			return 0, false
		}
		return r, true
	}
	out, err := c.enc.NewDecoder().Bytes(b)
	if err != nil || utf8.RuneCount(out) != 1 {
		return 0, false
	}
	r, _ := utf8.DecodeRune(out)
	if r == utf8.RuneError {
		return 0, false
	}
	return r, true
}

// textRune: a rune that counts as "text" for key input (no controls, no
// U+FFFD, no non-characters).
func textRune(r rune) bool {
	if r < 0x20 || r == 0x7f || !utf8.ValidRune(r) || r == utf8.RuneError || unicode.IsControl(r) {
		return false
	}
	if r&0xfffe == 0xfffe || (r >= 0xfdd0 && r <= 0xfdef) {
		return false
	}
	return true
}

// build enumerates the repertoire above ASCII: all single bytes, all two-byte
// sequences an independent decoder accepts as exactly one rune, and the longer
// sequences obtained by encoding every BMP rune (plus a few astral ones).
func (c *charset) build() {
	c.once.Do(func() {
		if c.kind == kUTF8 || c.kind == kASCII {
			return
		}
		for b := 0x80; b <= 0xff; b++ {
			if r, ok := c.decodeOne([]byte{byte(b)}); ok && textRune(r) {
				c.singles = append(c.singles, Char{B: []byte{byte(b)}, R: r})
			}
		}
		if c.kind != kMulti {
			return
		}
		for b0 := 0x80; b0 <= 0xff; b0++ {
			for b1 := 0; b1 <= 0xff; b1++ {
				seq := []byte{byte(b0), byte(b1)}
				if r, ok := c.decodeOne(seq); ok && textRune(r) {
					c.multis = append(c.multis, Char{B: seq, R: r})
				}
			}
		}
		seen := map[string]bool{}
		long := func(r rune) {
			if !textRune(r) {
				return
			}
			b, ok := c.encode(r)
			if !ok || len(b) < 3 || seen[string(b)] {
				return
			}
			if d, ok := c.decodeOne(b); ok && textRune(d) {
				seen[string(b)] = true
				c.multis = append(c.multis, Char{B: b, R: d})
			}
		}
		for r := rune(0x80); r <= 0xffff; r++ {
			long(r)
		}
		for _, r := range []rune{0x10000, 0x10348, 0x1d11e, 0x1f600, 0x1f680, 0x2070e, 0x2a6d6, 0xe0041, 0x10fffd} {
			long(r)
		}
	})
}
