package c03

import (
	"testing"

	"verifharness/internal/pbt"
)

func FuzzConcat(f *testing.F) {
	pbt.FuzzRapid(f, "concat", pbt.Spec[ConcatCase]{Gen: genConcat, Prop: concatProp})
}
