// C03 — every key sequence of every terminal decodes to its key and modifiers.
package c03

import (
	"fmt"
	"reflect"
	"sort"
	"strconv"
	"strings"
	"testing"

	"github.com/gdamore/tcell/v2"
	"github.com/gdamore/tcell/v2/terminfo"
	"pgregory.net/rapid"

	"verifharness/internal/inref"
	"verifharness/internal/live"
	"verifharness/internal/pbt"
)

func TestMain(m *testing.M) { pbt.Main(m, "C03") }

type km struct {
	Key tcell.Key
	Mod tcell.ModMask
}

// ---------------------------------------------------------------- independent field -> key table

var baseFields = map[string]tcell.Key{
	"KeyBackspace": tcell.KeyBackspace, "KeyInsert": tcell.KeyInsert, "KeyDelete": tcell.KeyDelete,
	"KeyHome": tcell.KeyHome, "KeyEnd": tcell.KeyEnd, "KeyHelp": tcell.KeyHelp, "KeyPgUp": tcell.KeyPgUp,
	"KeyPgDn": tcell.KeyPgDn, "KeyUp": tcell.KeyUp, "KeyDown": tcell.KeyDown, "KeyLeft": tcell.KeyLeft,
	"KeyRight": tcell.KeyRight, "KeyBacktab": tcell.KeyBacktab, "KeyExit": tcell.KeyExit,
	"KeyClear": tcell.KeyClear, "KeyPrint": tcell.KeyPrint, "KeyCancel": tcell.KeyCancel,
}

var nameToKey = map[string]tcell.Key{
	"Up": tcell.KeyUp, "Down": tcell.KeyDown, "Left": tcell.KeyLeft, "Right": tcell.KeyRight,
	"Home": tcell.KeyHome, "End": tcell.KeyEnd, "PgUp": tcell.KeyPgUp, "PgDn": tcell.KeyPgDn,
	"Insert": tcell.KeyInsert, "Delete": tcell.KeyDelete,
}

// fieldKey maps a Terminfo field name to the key and modifiers it denotes.
func fieldKey(name string) (km, bool) {
	if k, ok := baseFields[name]; ok {
		return km{k, 0}, true
	}
	if strings.HasPrefix(name, "KeyF") {
		if n, err := strconv.Atoi(name[4:]); err == nil && n >= 1 && n <= 64 {
			return km{tcell.KeyF1 + tcell.Key(n-1), 0}, true
		}
	}
	prefixes := []struct {
		p string
		m tcell.ModMask
	}{
		{"KeyCtrlShf", tcell.ModCtrl | tcell.ModShift}, {"KeyAltShf", tcell.ModAlt | tcell.ModShift},
		{"KeyMetaShf", tcell.ModMeta | tcell.ModShift}, {"KeyShf", tcell.ModShift}, {"KeyCtrl", tcell.ModCtrl},
		{"KeyMeta", tcell.ModMeta}, {"KeyAlt", tcell.ModAlt},
	}
	for _, p := range prefixes {
		if strings.HasPrefix(name, p.p) {
			if k, ok := nameToKey[name[len(p.p):]]; ok {
				return km{k, p.m}, true
			}
		}
	}
	return km{}, false
}

// fAlias: F13..F63 are, by the xterm convention, modified F1..F12.
func fAlias(k km) (km, bool) {
	if k.Key < tcell.KeyF13 || k.Key > tcell.KeyF63 || k.Mod != 0 {
		return km{}, false
	}
	n := int(k.Key-tcell.KeyF1) + 1 // 13..63
	grp := (n - 1) / 12
	base := tcell.KeyF1 + tcell.Key((n-1)%12)
	mods := []tcell.ModMask{0, tcell.ModShift, tcell.ModCtrl, tcell.ModCtrl | tcell.ModShift, tcell.ModAlt, tcell.ModAlt | tcell.ModShift}
	return km{base, mods[grp]}, true
}

type entryInfo struct {
	Name   string
	TI     *terminfo.Terminfo
	Fields map[string][]string // sequence -> field names
	Accept map[string][]km     // sequence -> acceptable results
	Table  map[string]tcell.VerifKey
	XtMods map[string]km // xterm-modified sequences -> expected
	in     *tcell.VerifInput
}

func xtermBaseKeys(ti *terminfo.Terminfo) map[string]tcell.Key {
	m := map[string]tcell.Key{}
	add := func(k tcell.Key, s string) {
		if s != "" {
			m[s] = k
		}
	}
	add(tcell.KeyRight, ti.KeyRight)
	add(tcell.KeyLeft, ti.KeyLeft)
	add(tcell.KeyUp, ti.KeyUp)
	add(tcell.KeyDown, ti.KeyDown)
	add(tcell.KeyInsert, ti.KeyInsert)
	add(tcell.KeyDelete, ti.KeyDelete)
	add(tcell.KeyPgUp, ti.KeyPgUp)
	add(tcell.KeyPgDn, ti.KeyPgDn)
	add(tcell.KeyHome, ti.KeyHome)
	add(tcell.KeyEnd, ti.KeyEnd)
	fs := []string{ti.KeyF1, ti.KeyF2, ti.KeyF3, ti.KeyF4, ti.KeyF5, ti.KeyF6, ti.KeyF7, ti.KeyF8, ti.KeyF9, ti.KeyF10, ti.KeyF11, ti.KeyF12}
	for i, s := range fs {
		add(tcell.KeyF1+tcell.Key(i), s)
	}
	return m
}

func buildInfo(name string) (*entryInfo, error) {
	ti, err := terminfo.LookupTerminfo(name)
	if err != nil {
		return nil, fmt.Errorf("harness: %q: %v", name, err)
	}
	cp := *ti
	e := &entryInfo{Name: name, TI: &cp, Fields: map[string][]string{}, Accept: map[string][]km{}, XtMods: map[string]km{}}
	v := reflect.ValueOf(&cp).Elem()
	for i := 0; i < v.NumField(); i++ {
		fn := v.Type().Field(i).Name
		if !strings.HasPrefix(fn, "Key") || v.Field(i).Kind() != reflect.String {
			continue
		}
		s := v.Field(i).String()
		if s == "" {
			continue
		}
		k, ok := fieldKey(fn)
		if !ok {
			return nil, fmt.Errorf("harness: no key known for field %s", fn)
		}
		e.Fields[s] = append(e.Fields[s], fn)
		e.Accept[s] = append(e.Accept[s], k)
		if a, ok := fAlias(k); ok {
			e.Accept[s] = append(e.Accept[s], a)
		}
	}
	if cp.Modifiers == terminfo.ModifiersXTerm {
		for s, k := range xtermBaseKeys(&cp) {
			for p := 2; p <= 16; p++ {
				var seq string
				switch {
				case strings.HasPrefix(s, "\x1b[") && strings.HasSuffix(s, "~"):
					seq = s[:len(s)-1] + ";" + strconv.Itoa(p) + "~"
				case strings.HasPrefix(s, "\x1bO") && len(s) == 3:
					seq = "\x1b[1;" + strconv.Itoa(p) + s[2:]
				default:
					continue
				}
				e.XtMods[seq] = km{k, inref.XtermMod(p)}
			}
		}
	}
	tbl, err := tcell.VerifKeyTable(&cp)
	if err != nil {
		return nil, fmt.Errorf("harness: key table for %q: %v", name, err)
	}
	e.Table = tbl
	return e, nil
}

// decoder returns the (cached) production decoder for the entry. Every use
// ends with an expiring scan, which leaves no buffered bytes and no pending
// escape state behind; leftover bytes are reported by the caller.
func (e *entryInfo) decoder() (*tcell.VerifInput, error) {
	if e.in != nil {
		return e.in, nil
	}
	cp := *e.TI
	in, err := tcell.VerifNewInput(&cp, "UTF-8", 80, 24)
	if err == nil {
		e.in = in
	}
	return in, err
}

func decodeAll(in *tcell.VerifInput, chunks [][]byte) ([]inref.Ev, int) {
	var all []tcell.Event
	for _, c := range chunks {
		evs, _ := in.Scan(c, false)
		all = append(all, evs...)
	}
	evs, left := in.Scan(nil, true)
	all = append(all, evs...)
	return inref.FromAll(all), left
}

// ---------------------------------------------------------------- exhaustive per-entry checks

type KeyCase struct {
	Entry string `json:"entry"`
	What  string `json:"what"`
	Seq   []byte `json:"seq"`
}

func inAccept(acc []km, ev inref.Ev) bool {
	for _, a := range acc {
		if ev.Kind == "key" && tcell.Key(ev.Key) == a.Key && tcell.ModMask(ev.Mod) == a.Mod {
			return true
		}
	}
	return false
}

func showAccept(acc []km) string {
	var p []string
	for _, a := range acc {
		p = append(p, fmt.Sprintf("%s/mod%d", tcell.KeyNames[a.Key], a.Mod))
	}
	return strings.Join(p, " or ")
}

func (e *entryInfo) checkOne(what string, seq string) error {
	for rep := 0; rep < 4; rep++ { // repeated: Go's map iteration order varies
		in, err := e.decoder()
		if err != nil {
			return fmt.Errorf("harness: %v", err)
		}
		evs, left := decodeAll(in, [][]byte{[]byte(seq)})
		switch what {
		case "field":
			acc := e.Accept[seq]
			if seq == "\x7f" {
				acc = []km{{tcell.KeyBackspace2, 0}}
			}
			if x, ok := e.XtMods[seq]; ok {
				acc = append(append([]km{}, acc...), x)
			}
			if len(evs) != 1 || left != 0 || !inAccept(acc, evs[0]) {
				return fmt.Errorf("%s: %q (fields %s) decodes to %s (%d bytes left), want exactly one of %s", e.Name, seq, strings.Join(e.Fields[seq], ","), inref.Show(evs), left, showAccept(acc))
			}
		case "xterm-mod":
			want := e.XtMods[seq]
			acc := append([]km{want}, e.Accept[seq]...)
			if len(evs) != 1 || left != 0 || !inAccept(acc[:1], evs[0]) {
				return fmt.Errorf("%s: xterm modifier form %q decodes to %s (%d left), want %s", e.Name, seq, inref.Show(evs), left, showAccept(acc[:1]))
			}
		case "control":
			b := seq[0]
			want := km{tcell.Key(b), tcell.ModCtrl}
			switch tcell.Key(b) {
			case tcell.KeyBackspace, tcell.KeyTab, tcell.KeyEnter, tcell.KeyEsc:
				want.Mod = 0
			}
			if b == 0x7f {
				want = km{tcell.KeyBackspace2, 0}
			}
			acc := []km{want}
			acc = append(acc, e.Accept[seq]...) // unless the description assigns that byte to a key
			if len(evs) != 1 || left != 0 || !inAccept(acc, evs[0]) {
				return fmt.Errorf("%s: control byte %q decodes to %s (%d left), want %s", e.Name, seq, inref.Show(evs), left, showAccept(acc))
			}
		case "alt":
			// seq = ESC + K; K alone decodes to ev0; expect the same with Alt added
			in2, _ := e.decoder()
			base, _ := decodeAll(in2, [][]byte{[]byte(seq[1:])})
			if len(base) != 1 || base[0].Kind != "key" {
				return nil // paste markers etc. carry no modifiers
			}
			want := base[0]
			want.Mod |= int(tcell.ModAlt)
			if len(evs) != 1 || left != 0 || evs[0] != want {
				return fmt.Errorf("%s: ESC + %q decodes to %s (%d left), want %s", e.Name, seq[1:], inref.Show(evs), left, want)
			}
			if seq[1] >= 0x80 {
				// a multi-byte character arriving in two reads keeps its Alt
				for cut := 1; cut < len(seq); cut++ {
					in3, _ := e.decoder()
					got, l3 := decodeAll(in3, [][]byte{[]byte(seq[:cut]), []byte(seq[cut:])})
					if len(got) != 1 || l3 != 0 || got[0] != want {
						return fmt.Errorf("%s: ESC + %q arriving as %q then %q decodes to %s (%d left), want %s", e.Name, seq[1:], seq[:cut], seq[cut:], inref.Show(got), l3, want)
					}
				}
			}
		case "esc-marker":
			// seq = ESC + report marker (bracketed paste start / end, focus) + a key: a report carries
			// no modifiers, so the stray ESC in front of it is used up by the report and the key that
			// follows decodes exactly as without the ESC
			in2, _ := e.decoder()
			want, _ := decodeAll(in2, [][]byte{[]byte(seq[1:])})
			if left != 0 || !inref.Equal(evs, want) {
				return fmt.Errorf("%s: %q decodes to %s (%d left); without the leading ESC it decodes to %s - the Alt prefix must end at the report", e.Name, seq, inref.Show(evs), left, inref.Show(want))
			}
			in3, _ := e.decoder()
			got, l3 := decodeAll(in3, [][]byte{[]byte(seq[:1]), []byte(seq[1:])})
			if l3 != 0 || !inref.Equal(got, want) {
				return fmt.Errorf("%s: %q arriving as ESC and then the rest decodes to %s (%d left); without the leading ESC it decodes to %s", e.Name, seq, inref.Show(got), l3, inref.Show(want))
			}
		case "after-esc-esc":
			// ESC ESC + expiry is one Esc key (with or without Alt - the statement
			// leaves that open), and the Alt prefix must not outlive it: the key
			// typed next decodes as on a fresh decoder.
			if isPrefixOfDefined(e, "\x1b\x1b") {
				return nil
			}
			first, l0 := decodeAll(in, [][]byte{[]byte("\x1b\x1b")})
			if len(first) != 1 || l0 != 0 || first[0].Kind != "key" || first[0].Key != int(tcell.KeyEsc) || first[0].Mod&^int(tcell.ModAlt) != 0 {
				return fmt.Errorf("%s: ESC ESC + expiry decodes to %s (%d left), want one Esc key", e.Name, inref.Show(first), l0)
			}
			next, l1 := decodeAll(in, [][]byte{[]byte(seq)})
			if l1 != 0 || !inref.Equal(next, evs) {
				return fmt.Errorf("%s: after ESC ESC and an expired timeout, %q decodes to %s (%d left); on its own it decodes to %s", e.Name, seq, inref.Show(next), l1, inref.Show(evs))
			}
		case "lone-esc":
			want := inref.Ev{Kind: "key", Key: int(tcell.KeyEsc)}
			if len(evs) != 1 || left != 0 || evs[0].Key != want.Key || evs[0].Mod != 0 || evs[0].Kind != "key" {
				return fmt.Errorf("%s: lone ESC + expiry decodes to %s (%d left), want one Esc key", e.Name, inref.Show(evs), left)
			}
		}
	}
	return nil
}

func isPrefixOfDefined(e *entryInfo, s string) bool {
	for k := range e.Table {
		if strings.HasPrefix(k, s) {
			return true
		}
	}
	return false
}

func entryNames() []string {
	var names []string
	for n := range terminfo.VerifTerminfos() {
		names = append(names, n)
	}
	sort.Strings(names)
	return names
}

func sweepEntries(t *testing.T) {
	sw := pbt.NewSweep(t, "keys")
	var rc KeyCase
	replaying := pbt.ReplayCase("keys", &rc)
	if !replaying && sw.Skip() {
		return
	}
	reg := terminfo.VerifTerminfos()
	for i, name := range entryNames() {
		if replaying && name != rc.Entry {
			continue
		}
		if !replaying && !sw.Mine(i) {
			continue
		}
		e, err := buildInfo(name)
		if err != nil {
			pbt.Inconclusive(err.Error())
			continue
		}
		// aliases resolve to the same entry
		if reg[name].Name != name {
			canon, _ := terminfo.LookupTerminfo(reg[name].Name)
			this, _ := terminfo.LookupTerminfo(name)
			var aerr error
			if canon == nil || this == nil || !reflect.DeepEqual(*canon, *this) {
				aerr = fmt.Errorf("alias %q does not resolve to the entry of %q", name, reg[name].Name)
			}
			sw.Case(false, pbt.HashStr("alias", name), func() any { return KeyCase{Entry: name, What: "alias"} }, aerr, nil)
		}
		run := func(what, seq string, nontrivial bool) {
			if replaying && (what != rc.What || seq != string(rc.Seq)) {
				return
			}
			err := pbt.Safe(func() error { return e.checkOne(what, seq) })
			n, s := name, seq
			sw.Case(nontrivial, pbt.HashStr(what, name, seq), func() any { return KeyCase{Entry: n, What: what, Seq: []byte(s)} }, err, func(er error) string { return knownKey(e, what, s, er) })
		}
		var seqs []string
		for s := range e.Fields {
			seqs = append(seqs, s)
		}
		sort.Strings(seqs)
		for _, s := range seqs {
			run("field", s, len(s) >= 2)
		}
		var xs []string
		for s := range e.XtMods {
			xs = append(xs, s)
		}
		sort.Strings(xs)
		for _, s := range xs {
			run("xterm-mod", s, true)
		}
		for b := 0; b < 32; b++ {
			run("control", string(rune(b)), false)
		}
		run("control", "\x7f", false)
		run("lone-esc", "\x1b", false)
		// ESC + every table sequence and printable runes
		var ts []string
		for s := range e.Table {
			ts = append(ts, s)
		}
		sort.Strings(ts)
		for _, s := range ts {
			if isPrefixOfDefined(e, "\x1b"+s) || s == "\x1b" {
				continue // ESC+K is itself (a prefix of) a defined sequence: ambiguous by construction
			}
			run("alt", "\x1b"+s, len(s) >= 2)
		}
		for _, r := range []string{"a", "Z", "~", " ", "é", "世", "1"} {
			if isPrefixOfDefined(e, "\x1b"+r) {
				continue
			}
			run("alt", "\x1b"+r, false)
		}
		for i, s := range ts {
			if i%7 == 0 && s != "\x1b" {
				run("after-esc-esc", s, true)
			}
		}
		run("after-esc-esc", "a", true)
		for _, m := range ts {
			inm, _ := e.decoder()
			if base, l := decodeAll(inm, [][]byte{[]byte(m)}); l == 0 && len(base) == 1 && base[0].Kind != "key" && !isPrefixOfDefined(e, "\x1b"+m) {
				for _, k := range []string{"a", "\r", "\x01", "é"} {
					run("esc-marker", "\x1b"+m+k, true)
				}
			}
		}
		// prefix-freeness of the built table
		var perr error
		for _, a := range ts {
			for _, b := range ts {
				if a != b && strings.HasPrefix(b, a) {
					perr = fmt.Errorf("%s: defined sequence %q is a proper prefix of %q", name, a, b)
				}
			}
		}
		if !replaying || rc.What == "prefix-free" {
			sw.Case(true, pbt.HashStr("prefixfree", name), func() any { return KeyCase{Entry: name, What: "prefix-free"} }, perr, nil)
		}
	}
	if replaying {
		pbt.Note(true, 1)
		pbt.Note(true, 2)
		return
	}
	pbt.Exhaustive("every registered name and alias: every non-empty Key* field, xterm modifier parameters 2..16 on cursor/editing/F1-F12 keys (xterm-style entries), all 32 control bytes + DEL, lone ESC with expiry, ESC ESC with expiry followed by a key (every 7th table sequence and a rune), ESC + every sequence of the built key table and sample runes, prefix-freeness of the built table (all pairs); each decode repeated 4x for map-order variation")
}

func knownKey(e *entryInfo, what, seq string, err error) string { return "" }

// ---------------------------------------------------------------- concatenations

type ConcatCase struct {
	Entry string   `json:"entry"`
	Seqs  [][]byte `json:"seqs"`
	Cuts  []int    `json:"cuts"`
}

var infoCache = map[string]*entryInfo{}

func info(name string) (*entryInfo, error) {
	if e, ok := infoCache[name]; ok {
		return e, nil
	}
	e, err := buildInfo(name)
	if err != nil {
		return nil, err
	}
	infoCache[name] = e
	return e, nil
}

func genConcat(t *rapid.T) ConcatCase {
	names := entryNames()
	c := ConcatCase{Entry: rapid.SampledFrom(names).Draw(t, "entry")}
	e, err := info(c.Entry)
	if err != nil {
		t.Fatalf("%v", err)
	}
	var ts []string
	for s := range e.Table {
		if s != "\x1b" { // a bare ESC followed by more input is the Alt prefix (covered by the keys sweep)
			ts = append(ts, s)
		}
	}
	for s := range e.XtMods {
		ts = append(ts, s)
	}
	sort.Strings(ts)
	n := rapid.IntRange(2, 4).Draw(t, "n")
	total := 0
	for i := 0; i < n; i++ {
		var s string
		if rapid.IntRange(0, 5).Draw(t, "text") == 0 {
			s = rapid.SampledFrom([]string{"a", "xyz", "é", "世界", " ", "~"}).Draw(t, "txt")
		} else {
			s = rapid.SampledFrom(ts).Draw(t, "seq")
		}
		c.Seqs = append(c.Seqs, []byte(s))
		total += len(s)
	}
	ncuts := rapid.IntRange(0, 4).Draw(t, "ncuts")
	for i := 0; i < ncuts && total > 1; i++ {
		c.Cuts = append(c.Cuts, rapid.IntRange(1, total-1).Draw(t, "cut"))
	}
	sort.Ints(c.Cuts)
	return c
}

func split(b []byte, cuts []int) [][]byte {
	var out [][]byte
	prev := 0
	for _, c := range cuts {
		if c > prev && c < len(b) {
			out = append(out, b[prev:c])
			prev = c
		}
	}
	return append(out, b[prev:])
}

func concatProp(c ConcatCase) error {
	e, err := info(c.Entry)
	if err != nil {
		return err
	}
	var want []inref.Ev
	var all []byte
	for _, s := range c.Seqs {
		in, err := e.decoder()
		if err != nil {
			return fmt.Errorf("harness: %v", err)
		}
		evs, left := decodeAll(in, [][]byte{s})
		if left != 0 {
			return fmt.Errorf("%s: %q alone leaves %d bytes buffered after expiry", c.Entry, s, left)
		}
		want = append(want, evs...)
		all = append(all, s...)
	}
	in, err := e.decoder()
	if err != nil {
		return fmt.Errorf("harness: %v", err)
	}
	got, left := decodeAll(in, split(all, c.Cuts))
	if left != 0 || !inref.Equal(got, want) {
		return fmt.Errorf("%s: concatenation %q split at %v decodes to %s (%d left), the parts alone give %s", c.Entry, c.Seqs, c.Cuts, inref.Show(got), left, inref.Show(want))
	}
	return nil
}

// LiveCase: key sequences, one tty read each, through a real screen (fake tty,
// the library's own input and main goroutines); observed at PollEvent.
type LiveCase struct {
	Entry string   `json:"entry"`
	Seqs  [][]byte `json:"seqs"`
	Defer bool     `json:"defer_polling"`
}

func genLive(t *rapid.T) LiveCase {
	c := LiveCase{Entry: rapid.SampledFrom(entryNames()).Draw(t, "entry"), Defer: rapid.Bool().Draw(t, "defer")}
	e, err := info(c.Entry)
	if err != nil {
		t.Fatalf("%v", err)
	}
	var ts []string
	for s := range e.Table {
		if s != "\x1b" {
			ts = append(ts, s)
		}
	}
	for s := range e.XtMods {
		ts = append(ts, s)
	}
	sort.Strings(ts)
	n := rapid.IntRange(4, 40).Draw(t, "n")
	for i := 0; i < n; i++ {
		c.Seqs = append(c.Seqs, []byte(rapid.SampledFrom(ts).Draw(t, "seq")))
	}
	return c
}

func liveProp(c LiveCase) error {
	e, err := info(c.Entry)
	if err != nil {
		return err
	}
	var want []inref.Ev
	for _, s := range c.Seqs {
		in, err := e.decoder()
		if err != nil {
			return fmt.Errorf("harness: %v", err)
		}
		evs, _ := decodeAll(in, [][]byte{s})
		want = append(want, evs...)
	}
	got, err := live.RunReads(e.TI, "UTF-8", c.Seqs, c.Defer, len(want))
	if err != nil {
		return err
	}
	if !inref.Equal(got, want) {
		k := 0
		for k < len(got) && k < len(want) && got[k] == want[k] {
			k++
		}
		return fmt.Errorf("%s: %d key sequences, one tty read each (polling deferred: %v), through the real screen give %d events, the sequences decoded one by one %d; first difference at %d: got %s want %s (sequences %q)", c.Entry, len(c.Seqs), c.Defer, len(got), len(want), k, inref.Show(got[k:min(k+1, len(got))]), inref.Show(want[k:min(k+1, len(want))]), c.Seqs)
	}
	return nil
}

func concatNonTrivial(c ConcatCase) bool {
	multi := 0
	for _, s := range c.Seqs {
		if len(s) >= 2 && s[0] == 0x1b {
			multi++
		}
	}
	return multi >= 2
}

func TestProp(t *testing.T) {
	defer pbt.Recover(t)
	pbt.Describe("keys: exhaustive per registered name (see exhaustive_subspaces) through the production parser (synchronous verif hook), expected key/modifiers from an independent field->key table, the xterm modifier table and the F13-F63 aliasing; concat: rapid pairs/triples/quadruples of sequences of the built table, xterm-modified forms and text, with random read partitions, must decode to the concatenation of the parts' events; live-keys: 4-40 key sequences, one tty read each, through a real screen with its goroutines (fake tty, observed at PollEvent, polling optionally deferred until the queues are full) must deliver the events of the sequences decoded one by one. Non-trivial = sequence of >= 2 bytes (concat: >= 2 escape sequences); distinct = (entry, kind, sequence).",
		"a sequence the description assigns to several fields may decode to any of them; F13-F63 may be reported as F1-F12 plus the xterm-convention modifiers",
		"ESC+K is only checked when ESC+K is not itself a defined sequence or a prefix of one",
		"a single-byte field such as kbs=DEL follows the statement's rule (DEL -> Backspace2)")
	sweepEntries(t)
	pbt.Check(t, "concat", pbt.Pick(20000, 400000), pbt.Spec[ConcatCase]{Gen: genConcat, Prop: concatProp, NonTrivial: concatNonTrivial})
	pbt.Check(t, "live-keys", pbt.Pick(100, 2500), pbt.Spec[LiveCase]{Gen: genLive, Prop: liveProp,
		NonTrivial: func(c LiveCase) bool { return len(c.Seqs) >= 8 }})
}
