package c08

import (
	"testing"

	"verifharness/internal/pbt"
)

func FuzzHistory(f *testing.F) {
	pbt.FuzzRapid(f, "history", pbt.Spec[Case]{Gen: genCase, Prop: run})
}
