// C08 — CellBuffer stores what was set and its dirty flag never misses a change.
//
// Domain: histories of SetContent/Fill/Resize/Invalidate/SetDirty/LockCell/
// UnlockCell with GetContent/Dirty/Size observed on every cell after every step.
// Oracle: an executable reference model written from the property statement
// (two-sided Dirty oracle that accepts either answer where the statement is
// silent).
package c08

import (
	"fmt"
	"testing"

	"github.com/gdamore/tcell/v2"
	runewidth "github.com/mattn/go-runewidth"
	"pgregory.net/rapid"

	"verifharness/internal/gen"
	"verifharness/internal/pbt"
)

func TestMain(m *testing.M) { pbt.Main(m, "C08") }

type Op struct {
	Kind  string        `json:"op"`
	X     int           `json:"x,omitempty"`
	Y     int           `json:"y,omitempty"`
	R     rune          `json:"r,omitempty"`
	Comb  []rune        `json:"comb,omitempty"`
	Style gen.StyleSpec `json:"style"`
	On    bool          `json:"on,omitempty"`
	W     int           `json:"w,omitempty"`
	H     int           `json:"h,omitempty"`
}

type Case struct {
	W   int  `json:"w"`
	H   int  `json:"h"`
	Ops []Op `json:"ops"`
}

var rw = func() *runewidth.Condition {
	c := runewidth.NewCondition()
	c.EastAsianWidth = false
	return c
}()

// ---- reference model

type mcell struct {
	r     rune
	comb  []rune
	style tcell.Style
	// clean snapshot
	everClean bool
	cr        rune
	ccomb     []rune
	cstyle    tcell.Style
	inval     bool // invalidated / force-dirtied / unlocked / created since last clean
	touched   bool // a differing write happened since last clean (changed-and-back => either)
	locked    bool
	lockUnk   bool
}

type model struct {
	w, h  int
	cells []mcell
}

func newModel() *model { return &model{} }

func (m *model) in(x, y int) bool { return x >= 0 && y >= 0 && x < m.w && y < m.h }
func (m *model) at(x, y int) *mcell {
	return &m.cells[y*m.w+x]
}

func eqRunes(a, b []rune) bool {
	if len(a) != len(b) {
		return false
	}
	for i := range a {
		if a[i] != b[i] {
			return false
		}
	}
	return true
}

func (m *model) resize(w, h int) {
	if w == m.w && h == m.h {
		return
	}
	nc := make([]mcell, w*h)
	for i := range nc {
		nc[i].inval = true
	}
	for y := 0; y < h && y < m.h; y++ {
		for x := 0; x < w && x < m.w; x++ {
			o := m.at(x, y)
			n := &nc[y*w+x]
			n.r, n.comb, n.style = o.r, o.comb, o.style
			n.inval = true
			// the statement does not say what Resize does to locks
			n.lockUnk = o.locked || o.lockUnk
		}
	}
	m.cells, m.w, m.h = nc, w, h
}

func mergeStyle(newS, old tcell.Style) tcell.Style {
	fg, bg, _ := newS.Decompose()
	ofg, obg, _ := old.Decompose()
	if fg == tcell.ColorNone {
		newS = newS.Foreground(ofg)
	}
	if bg == tcell.ColorNone {
		newS = newS.Background(obg)
	}
	return newS
}

func width(r rune) int { return rw.RuneWidth(r) }

func (m *model) set(x, y int, r rune, comb []rune, st tcell.Style) {
	if !m.in(x, y) {
		return
	}
	c := m.at(x, y)
	changed := r != c.r || !eqRunes(comb, c.comb)
	if changed {
		// changing a (previously) wide rune dirties every column it covered
		if ow := width(c.r); ow > 1 {
			for i := 1; i < ow; i++ {
				if m.in(x+i, y) {
					m.at(x+i, y).inval = true
				}
			}
		}
	}
	c.r = r
	c.comb = append([]rune{}, comb...)
	c.style = mergeStyle(st, c.style)
}

func (m *model) fill(r rune, st tcell.Style) {
	for i := range m.cells {
		c := &m.cells[i]
		c.r = r
		c.comb = nil
		c.style = mergeStyle(st, c.style)
	}
}

func (c *mcell) differs() bool {
	return c.r != c.cr || !eqRunes(c.comb, c.ccomb) || c.style != c.cstyle
}

// dirty expectation: 1 must be true, 0 must be false, -1 either
func (m *model) dirty(x, y int) int {
	if !m.in(x, y) {
		return 0
	}
	c := m.at(x, y)
	if c.lockUnk {
		return -1
	}
	if c.locked {
		return 0
	}
	if c.inval || !c.everClean {
		return 1
	}
	if c.differs() {
		// rune 0 is stored as a blank when a cell is marked clean: both are
		// shown as ' ', so a 0 <-> ' ' difference is not an observable change
		if blankish(c.r) && blankish(c.cr) && eqRunes(c.comb, c.ccomb) && c.style == c.cstyle {
			return -1
		}
		return 1
	}
	if c.touched || c.r == 0 {
		// rune 0 (never written / explicit NUL) is normalised to a blank when the
		// cell is marked clean; re-storing NUL is not an observable change but the
		// statement does not say which answer applies
		return -1
	}
	return 0
}

func blankish(r rune) bool { return r == 0 || r == ' ' }

func (m *model) expectContent(x, y int) (rune, []rune, tcell.Style, int, bool) {
	if !m.in(x, y) {
		return 0, nil, tcell.StyleDefault, 0, false
	}
	c := m.at(x, y)
	w := width(c.r)
	r := c.r
	if w == 0 || r < ' ' {
		r, w = ' ', 1
	}
	return r, c.comb, c.style, w, true
}

// ---- property

func run(c Case) error {
	var cb tcell.CellBuffer
	m := newModel()
	cb.Resize(c.W, c.H)
	m.resize(c.W, c.H)
	for i, op := range c.Ops {
		st := op.Style.Style()
		switch op.Kind {
		case "set":
			comb := append([]rune{}, op.Comb...)
			cb.SetContent(op.X, op.Y, op.R, comb, st)
			m.set(op.X, op.Y, op.R, op.Comb, st)
			// the caller mutates its slice afterwards: must not affect the buffer
			for j := range comb {
				comb[j] = 'X'
			}
		case "fill":
			cb.Fill(op.R, st)
			m.fill(op.R, st)
		case "resize":
			cb.Resize(op.W, op.H)
			m.resize(op.W, op.H)
		case "invalidate":
			cb.Invalidate()
			for j := range m.cells {
				m.cells[j].inval = true
			}
		case "setdirty":
			cb.SetDirty(op.X, op.Y, op.On)
			if m.in(op.X, op.Y) {
				mc := m.at(op.X, op.Y)
				if op.On {
					mc.inval = true
				} else {
					mc.everClean, mc.inval, mc.touched = true, false, false
					mc.cr, mc.ccomb, mc.cstyle = mc.r, mc.comb, mc.style
				}
			}
		case "cleanall":
			for y := 0; y < m.h; y++ {
				for x := 0; x < m.w; x++ {
					cb.SetDirty(x, y, false)
					mc := m.at(x, y)
					mc.everClean, mc.inval, mc.touched = true, false, false
					mc.cr, mc.ccomb, mc.cstyle = mc.r, mc.comb, mc.style
				}
			}
		case "lock":
			cb.LockCell(op.X, op.Y)
			if m.in(op.X, op.Y) {
				mc := m.at(op.X, op.Y)
				mc.locked, mc.lockUnk = true, false
			}
		case "unlock":
			cb.UnlockCell(op.X, op.Y)
			if m.in(op.X, op.Y) {
				mc := m.at(op.X, op.Y)
				mc.locked, mc.lockUnk = false, false
				mc.inval = true
			}
		}
		// "touched" bookkeeping: any write that made the content differ at some
		// point since the last clean allows either answer once it is equal again
		for j := range m.cells {
			mc := &m.cells[j]
			if mc.everClean && mc.differs() {
				mc.touched = true
			}
		}
		// ---- observe everything
		w, h := cb.Size()
		if w != m.w || h != m.h {
			return fmt.Errorf("step %d (%s): Size()=(%d,%d), model (%d,%d)", i, op.Kind, w, h, m.w, m.h)
		}
		for y := -1; y <= m.h; y++ {
			for x := -1; x <= m.w; x++ {
				gr, gc, gs, gw := cb.GetContent(x, y)
				er, ec, es, ew, in := m.expectContent(x, y)
				if !in {
					if gr != 0 || gs != tcell.StyleDefault || len(gc) != 0 {
						return fmt.Errorf("step %d (%s): out-of-range GetContent(%d,%d) = (%q,%v,%v,%d), want zero rune and default style", i, op.Kind, x, y, gr, gc, gs, gw)
					}
				} else {
					if gr != er || !eqRunes(gc, ec) || gs != es || gw != ew {
						return fmt.Errorf("step %d (%s): GetContent(%d,%d) = (%#x,%x,%+v,w=%d), model (%#x,%x,%+v,w=%d)", i, op.Kind, x, y, gr, gc, gs, gw, er, ec, es, ew)
					}
				}
				gd := cb.Dirty(x, y)
				switch m.dirty(x, y) {
				case 1:
					if !gd {
						return fmt.Errorf("step %d (%s): Dirty(%d,%d)=false but the cell must be dirty (changed/invalidated/unlocked since last clean)", i, op.Kind, x, y)
					}
				case 0:
					if gd {
						return fmt.Errorf("step %d (%s): Dirty(%d,%d)=true but the cell is clean/locked/out of range", i, op.Kind, x, y)
					}
				}
			}
		}
	}
	return nil
}

// ---- generator

func genCase(t *rapid.T) Case {
	c := Case{W: rapid.IntRange(0, 8).Draw(t, "w"), H: rapid.IntRange(0, 5).Draw(t, "h")}
	n := rapid.IntRange(1, pbt.Pick(30, 60)).Draw(t, "n")
	w, h := c.W, c.H
	coordX := func() int { return rapid.IntRange(-2, w+1).Draw(t, "x") }
	coordY := func() int { return rapid.IntRange(-2, h+1).Draw(t, "y") }
	var lastSet *Op
	for i := 0; i < n; i++ {
		k := rapid.IntRange(0, 19).Draw(t, "kind")
		var op Op
		switch {
		case k <= 7:
			op = Op{Kind: "set", X: coordX(), Y: coordY(), R: gen.Rune(t, "r", false), Comb: gen.Comb(t, "comb"), Style: gen.Style(t, "st", true, true)}
			if rapid.IntRange(0, 5).Draw(t, "zwmain") == 0 {
				// a zero-width / control main rune carrying combining runes
				op.R = rapid.SampledFrom([]rune{0x200B, '\t', 0x0301, 0, 0x7f}).Draw(t, "zw")
				op.Comb = rapid.SliceOfN(rapid.SampledFrom(gen.CombMarks()), 1, 3).Draw(t, "zwcomb")
			}
			if lastSet != nil && rapid.IntRange(0, 3).Draw(t, "again") == 0 {
				// re-store identical (or nearly identical) content at the same place,
				// often right after the cell was marked clean
				op = *lastSet
				switch rapid.IntRange(0, 3).Draw(t, "tweak") {
				case 1:
					op.Style = gen.Style(t, "st2", true, true)
				case 2:
					// same main rune and style, same number of combining runes, other runes
					if len(op.Comb) > 0 {
						nc := make([]rune, len(op.Comb))
						for j := range nc {
							nc[j] = rapid.SampledFrom(gen.CombMarks()).Draw(t, "newcomb")
						}
						op.Comb = nc
					} else {
						op.Comb = []rune{rapid.SampledFrom(gen.CombMarks()).Draw(t, "newcomb1")}
					}
				case 3:
					// shorter / longer combining list
					if len(op.Comb) > 1 {
						op.Comb = op.Comb[:len(op.Comb)-1]
					} else {
						op.Comb = append(append([]rune{}, op.Comb...), rapid.SampledFrom(gen.CombMarks()).Draw(t, "morecomb"))
					}
				}
				if rapid.Bool().Draw(t, "cleanfirst") {
					c.Ops = append(c.Ops, Op{Kind: "cleanall"})
				}
			}
			o := op
			lastSet = &o
		case k == 8:
			op = Op{Kind: "fill", R: gen.FillRune(t, "fr", false), Style: gen.Style(t, "fst", true, false)}
		case k == 9:
			op = Op{Kind: "resize", W: rapid.IntRange(0, 8).Draw(t, "nw"), H: rapid.IntRange(0, 5).Draw(t, "nh")}
			w, h = op.W, op.H
		case k == 10:
			op = Op{Kind: "invalidate"}
		case k <= 13:
			op = Op{Kind: "setdirty", X: coordX(), Y: coordY(), On: rapid.IntRange(0, 3).Draw(t, "on") == 0}
		case k <= 16:
			op = Op{Kind: "cleanall"}
		case k == 17:
			op = Op{Kind: "lock", X: coordX(), Y: coordY()}
		case k == 18:
			op = Op{Kind: "unlock", X: coordX(), Y: coordY()}
		default:
			op = Op{Kind: "set", X: coordX(), Y: coordY(), R: rapid.SampledFrom([]rune{'世', '界', 'a', ' ', 0}).Draw(t, "wr"), Style: gen.StyleSpec{}}
		}
		c.Ops = append(c.Ops, op)
	}
	return c
}

func classes(c Case) []string {
	var out []string
	seen := map[string]bool{}
	add := func(s string) {
		if !seen[s] {
			seen[s] = true
			out = append(out, s)
		}
	}
	cleaned := false
	for _, op := range c.Ops {
		switch op.Kind {
		case "cleanall", "setdirty":
			if op.Kind == "cleanall" || !op.On {
				cleaned = true
			}
		case "set":
			if cleaned {
				add("clean-then-set")
			}
			if width(op.R) > 1 {
				add("wide-set")
			}
			if len(op.Comb) > 0 {
				add("combining")
			}
			if op.Style.Fg == "none" || op.Style.Bg == "none" {
				add("colornone")
			}
			if op.X < 0 || op.Y < 0 {
				add("negative-coord")
			}
		case "resize":
			add("resize")
		case "lock":
			add("lock")
		case "fill":
			add("fill")
		}
	}
	return out
}

func nonTrivial(c Case) bool {
	// a history containing clean -> change -> query, and a wide rune change
	cleaned, cleanThenSet, wide := false, false, false
	for _, op := range c.Ops {
		switch op.Kind {
		case "cleanall":
			cleaned = true
		case "setdirty":
			if !op.On {
				cleaned = true
			}
		case "set":
			if cleaned && op.X >= 0 && op.Y >= 0 {
				cleanThenSet = true
			}
			if width(op.R) > 1 {
				wide = true
			}
		}
	}
	return cleanThenSet && wide
}

func TestProp(t *testing.T) {
	defer pbt.Recover(t)
	pbt.Describe("rapid-generated histories (1..30 ops quick, 1..60 thorough) over SetContent/Fill/Resize/Invalidate/SetDirty/LockCell/UnlockCell on buffers 0..8 x 0..5 with coordinates -2..w+1, rune classes ascii/narrow/wide/control/C1/zero-width/invalid/astral, caller-mutated combining slices and styles incl. ColorNone/ColorReset; every cell (and a border of out-of-range cells) is observed with GetContent and Dirty after every step. Non-trivial = history contains a mark-clean followed by an in-range SetContent, and a wide-rune SetContent; distinct = hash of the JSON case.",
		"go-runewidth with EastAsianWidth=false is the rune-width classification (named by the property's anchors)",
		"Fill is only given runes of width <= 1 (documented precondition)",
		"what Resize does to locks is not stated: cells that were locked before a size change accept either Dirty answer until re-locked/unlocked",
		"Fill over a wide rune is not required to dirty the covered neighbour column (Fill is documented as not supporting wide runes; asserted for SetContent)")
	pbt.Check(t, "history", pbt.Pick(20000, 400000), pbt.Spec[Case]{
		Gen:        genCase,
		Prop:       run,
		NonTrivial: nonTrivial,
		Classes:    classes,
	})
}
