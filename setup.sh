#!/bin/bash
# MANIFEST.setup_cmd: build the framework from files on disk only (offline).
cd "$(dirname "$0")" || exit 1
export GOFLAGS=-mod=mod GOPROXY=off GOSUMDB=off GOTOOLCHAIN=local
mkdir -p bin build evidence replays
( cd harness && go build -o ../bin/check ./cmd/check ) || exit 1
# warm the build cache: compile every property's test binary once
( cd harness && go vet -tags verif ./internal/... >/dev/null 2>&1; for d in c[0-9][0-9]; do [ -d "$d" ] && go test -c -tags verif -o /dev/null ./$d >/dev/null 2>&1; done; true )
exit 0
