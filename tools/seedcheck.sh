#!/bin/bash
# usage: tools/seedcheck.sh <ID> <k> <pkgdir-for-demo> [extra go test args...]
# Verifies a seeded change from /tmp/seed/out/<ID>: (1) compiles and passes the existing suite,
# (2) the demonstration fails with the change and passes without, (3) runs ./check <ID> quick
# (and thorough when quick stays silent) against the changed tree. Prints a JSON summary.
id="$1"; k="$2"; pkg="$3"; shift 3
out=${SEED_OUT:-/tmp/seed/out}/$id; cid=${CHECK_ID:-$id}
export GOFLAGS=-mod=mod GOPROXY=off GOSUMDB=off GOTOOLCHAIN=local
scratch=$(mktemp -d /tmp/seedchk.XXXXXX)
rsync -a --exclude .git /repo/ "$scratch/"
demo="$scratch/$pkg/zz_seed_demo${k}_test.go"
cp "$out/demo${k}_test.go" "$demo"
( cd "$scratch/$pkg" && env $DEMO_ENV go test -vet=off -count=1 -run 'Seed|Demo|Mutant|Break' "$@" . >"$scratch/demo_clean.log" 2>&1 ); clean=$?
( cd "$scratch" && patch -p1 -s < "$out/patch${k}.diff" ) || { echo "{\"id\":\"$id\",\"k\":$k,\"error\":\"patch does not apply\"}"; rm -rf "$scratch"; exit 3; }
( cd "$scratch/$pkg" && env $DEMO_ENV go test -vet=off -count=1 -run 'Seed|Demo|Mutant|Break' "$@" . >"$scratch/demo_mut.log" 2>&1 ); mut=$?
rm -f "$demo"
( cd "$scratch" && go build ./... && go test -vet=off -count=1 ./... >"$scratch/suite.log" 2>&1 ); suite=$?
cd /verif
VERIF_REPO="$scratch" VERIF_EVIDENCE_DIR="$scratch/evidence" ./check "$cid" quick >"$scratch/check_quick.log" 2>&1; q=$?
t=-1
if [ $q -ne 1 ] && [ -z "$SEED_NO_THOROUGH" ]; then VERIF_REPO="$scratch" VERIF_EVIDENCE_DIR="$scratch/evidence" ./check "$cid" thorough >"$scratch/check_thorough.log" 2>&1; t=$?; fi
first=$(grep -a -m1 -A1 "VIOLATION" "$scratch/check_quick.log" "$scratch/check_thorough.log" 2>/dev/null | tail -1 | cut -c1-300 | tr '"' "'" )
echo "{\"id\":\"$id\",\"k\":$k,\"demo_on_clean_exit\":$clean,\"demo_on_mutant_exit\":$mut,\"suite_on_mutant_exit\":$suite,\"check_quick_exit\":$q,\"check_thorough_exit\":$t,\"first_violation\":\"$first\"}"
mkdir -p /tmp/seed/logs/$id-$k && cp "$scratch"/*.log /tmp/seed/logs/$id-$k/ 2>/dev/null
rm -rf "$scratch"
