#!/usr/bin/env python3
"""usage: tools/seedkeep.py '<json line printed by seedcheck.sh>' <pkgdir> "<what it needs to manifest>" ["<note>"]
Stores a verified seeded change under /verif/seeded/<ID>-<k>/ (patch.diff, demo_test.go, meta.json)."""
import json, sys, os, shutil
r = json.loads(sys.argv[1]); pkg = sys.argv[2]; needs = sys.argv[3]; note = sys.argv[4] if len(sys.argv) > 4 else ""
i, k = r["id"], r["k"]
src = os.environ.get("SEED_OUT", "/tmp/seed/out") + f"/{i}"
dst = f"/verif/seeded/{i}-{k}" + os.environ.get("SEED_SUFFIX", "")
os.makedirs(dst, exist_ok=True)
shutil.copy(f"{src}/patch{k}.diff", f"{dst}/patch.diff")
shutil.copy(f"{src}/demo{k}_test.go", f"{dst}/demo_test.go")
caught = "quick" if r["check_quick_exit"] == 1 else ("thorough" if r.get("check_thorough_exit") == 1 else "NOT CAUGHT")
meta = {
    "property": i,
    "origin": "fresh sub-agent given only the property text and a scratch worktree of /repo (nothing from /verif)",
    "needs_to_manifest": needs,
    "demo_location": f"copy demo_test.go into {pkg}/ of the repository as a _test.go file (see its header comment for the run command)",
    "verified": {
        "existing_suite_passes_with_change": r["suite_on_mutant_exit"] == 0,
        "demo_fails_with_change": r["demo_on_mutant_exit"] != 0,
        "demo_passes_without_change": r["demo_on_clean_exit"] == 0,
        "how": "tools/seedcheck.sh %s %s %s (scratch copy of /repo outside /repo and /verif; go build ./... && go test -vet=off -count=1 ./...; demo with and without the patch; VERIF_REPO=<scratch> ./check %s quick, then thorough when quick stays silent)" % (i, k, pkg, i),
    },
    "check_result": {"quick_exit": r["check_quick_exit"], "thorough_exit": r.get("check_thorough_exit"), "caught_by": caught, "first_violation": r.get("first_violation", "")},
    "note": note,
}
json.dump(meta, open(f"{dst}/meta.json", "w"), indent=1)
print(dst, caught)
