#!/usr/bin/env python3
"""Regenerates the generated tables of DESIGN.md: the findings table (section 5, between the
markers <!-- findings:begin/end -->) and the round-2 seeded table (<!-- seeded2:begin/end -->)."""
import json, os, re
V = os.path.dirname(os.path.dirname(os.path.abspath(__file__)))
d = open(f"{V}/DESIGN.md").read()

def seeded_rows(suffix):
    rows = []
    for name in sorted(os.listdir(f"{V}/seeded")):
        if suffix and not name.endswith(suffix): continue
        if not suffix and name[-1].isalpha(): continue
        m = json.load(open(f"{V}/seeded/{name}/meta.json"))
        need = " ".join(m["needs_to_manifest"].split()).replace("|", "/")
        if len(need) > 220: need = need[:217] + "..."
        note = " ".join(m.get("note", "").split()).replace("|", "/")
        rows.append(f"| {name} | {need} | {m['check_result']['caught_by']} | {note} |")
    return rows

def put(d, marker, suffix):
    rows = ["| seeded change | needs to manifest | caught by (final) | first version of the check |", "|---|---|---|---|"] + seeded_rows(suffix)
    block = f"<!-- {marker}:begin -->\n" + "\n".join(rows) + f"\n<!-- {marker}:end -->"
    if f"<!-- {marker}:begin -->" not in d:
        print("marker", marker, "missing"); return d
    return re.sub(rf"<!-- {marker}:begin -->.*?<!-- {marker}:end -->", lambda _: block, d, flags=re.S)

d = put(d, "seeded3", "c")
d = put(d, "seeded4", "d")
d = put(d, "seeded5", "e")
d = put(d, "seeded6", "f")
d = put(d, "seeded7", "g")
d = put(d, "seeded8", "h")
d = put(d, "seeded9", "i")
d = put(d, "seeded10", "j")
d = put(d, "seeded11", "k")
t2 = ["| seeded change | needs to manifest | caught by (final) | first version of the check |", "|---|---|---|---|"] + seeded_rows("b")
block = "<!-- seeded2:begin -->\n" + "\n".join(t2) + "\n<!-- seeded2:end -->"
if "<!-- seeded2:begin -->" in d:
    d = re.sub(r"<!-- seeded2:begin -->.*?<!-- seeded2:end -->", lambda _: block, d, flags=re.S)
else:
    print("marker seeded2 missing")
open(f"{V}/DESIGN.md", "w").write(d)
