#!/bin/bash
# usage: tools/mutant.sh <ID> <tier> <patch-file | -e 'sed-expr' file> ...
# Copies /repo (without .git) to a scratch dir outside /repo and /verif, applies the
# change, runs ./check <ID> <tier> against the copy (VERIF_REPO), removes the copy.
id="$1"; tier="$2"; shift 2
scratch=$(mktemp -d /tmp/mutant.XXXXXX)
rsync -a --exclude .git /repo/ "$scratch/"
if [ "$1" = "-e" ]; then
  sed -i "$2" "$scratch/$3" || { rm -rf "$scratch"; exit 3; }
  if diff -q "$scratch/$3" "/repo/$3" >/dev/null; then echo "mutant.sh: sed expression changed nothing" >&2; rm -rf "$scratch"; exit 3; fi
elif [ "$1" = "-R" ]; then
  ( cd "$scratch" && patch -R -p1 -s < "$2" ) || { echo "mutant.sh: reverse patch failed" >&2; rm -rf "$scratch"; exit 3; }
else
  ( cd "$scratch" && patch -p1 -s < "$1" ) || { echo "mutant.sh: patch failed" >&2; rm -rf "$scratch"; exit 3; }
fi
( cd "$scratch" && GOFLAGS=-mod=mod GOPROXY=off GOSUMDB=off go build ./... ) || { echo "mutant.sh: mutant does not compile" >&2; rm -rf "$scratch"; exit 3; }
cd /verif && VERIF_REPO="$scratch" VERIF_EVIDENCE_DIR="$scratch/evidence" ./check "$id" "$tier"
rc=$?
rm -rf "$scratch"
echo "mutant exit=$rc"
exit $rc
