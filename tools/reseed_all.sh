#!/bin/bash
# usage: tools/reseed_all.sh [parallelism]   - re-runs the quick tier of every stored seeded change's
# property check against a scratch copy of /repo with the change applied (tools/mutant.sh) and lists
# the outcome per change in /tmp/reseed/results.txt: caught / MISSED / patch-failed / inconclusive.
# RESEED_ONLY=<regexp on the change name, e.g. '[jk]$'> restricts the run.
par=${1:-3}
mkdir -p /tmp/reseed; : > /tmp/reseed/results.txt
cd /verif
ids=$(ls -d seeded/*/ | xargs -n1 basename | sed 's/-.*//' | sort -u)
run_id() {
  id=$1
  for d in seeded/$id-*/; do d=${d%/}
    n=$(basename $d)
    if [ -n "$RESEED_ONLY" ] && ! echo "$n" | grep -Eq "$RESEED_ONLY"; then continue; fi
    out=$(tools/mutant.sh $id quick /verif/$d/patch.diff 2>&1)
    rc=$?
    case $rc in
      1) r=caught;; 0) r=MISSED;; 3) r=patch-failed;; *) r="inconclusive($rc)";;
    esac
    echo "$n $r $(echo "$out" | grep -a -m1 -A1 VIOLATION | tail -1 | cut -c1-160)" >> /tmp/reseed/results.txt
  done
}
export -f run_id
echo $ids | tr ' ' '\n' | xargs -P $par -I{} bash -c 'run_id {}'
sort /tmp/reseed/results.txt > /tmp/reseed/sorted.txt
grep -c caught /tmp/reseed/sorted.txt
grep -v " caught" /tmp/reseed/sorted.txt
