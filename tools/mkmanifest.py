#!/usr/bin/env python3
"""Regenerates /verif/MANIFEST.json from the table below and validates it."""
import json, os, sys
HERE = os.path.dirname(os.path.dirname(os.path.abspath(__file__)))
props = [json.loads(l) for l in open(os.path.join(HERE, "properties.jsonl"))]
ids = [p["id"] for p in props]

# id -> (technique, level text, level note, design ref)
claimed = json.load(open(os.path.join(HERE, "tools", "claims.json")))

checks, na = [], []
for i in ids:
    if i in claimed:
        c = claimed[i]
        checks.append({
            "property_id": i,
            "quick_cmd": f"./check {i} quick",
            "thorough_cmd": f"./check {i} thorough",
            "evidence_file": f"evidence/{i}.json",
            "replay_cmd_template": f"./check {i} quick --replay {{path}}",
            "engine": "pbt-harness",
            "level_claimed": {"category": "exploration", "text": c["text"], "design_ref": c.get("design_ref", "DESIGN.md section 4 / " + i)},
            "level_note": c["note"],
            "technique": c["technique"],
        })
    else:
        na.append({"property_id": i, "reason": "check not built yet in this revision (work in progress; the technique applies, see DESIGN.md section 4)"})
m = {
    "version": 1,
    "setup_cmd": "./setup.sh",
    "hooks": {
        "guard": "verif",
        "enable": "go test -tags verif (harness module /verif/harness, replace github.com/gdamore/tcell/v2 => /repo)",
        "baseline_off_cmd": "cd /repo && GOFLAGS=-mod=mod GOPROXY=off GOSUMDB=off go test -vet=off -count=1 -timeout 25m ./...",
        "source_commits": json.load(open(os.path.join(HERE, "tools", "hook_commits.json"))),
        "add_only": True,
    },
    "engines": [{"name": "pbt-harness", "path": "harness", "serves_properties": sorted(claimed), "kind_free_text": "Go property-based testing harness: pgregory.net/rapid v1.3.0 generators + exhaustive sweeps + native go fuzzing, explicit oracles (reference VT emulator, shadow models, reference terminfo interpreter, reference decoders), driver harness/cmd/check"}],
    "checks": checks,
    "not_applicable": na,
    "notes": "All checks run ./check <ID> <tier>; VERIF_SEED selects the rapid seed (0 is remapped to 1). Exit 0 held / 1 VIOLATION / 2 inconclusive (infrastructure or budget; never a violation). Known findings: known_findings.json.",
}
out = os.path.join(HERE, "MANIFEST.json")
json.dump(m, open(out, "w"), indent=1)
open(out, "a").write("\n")
try:
    import jsonschema
    jsonschema.validate(m, json.load(open("/root/.vp/MANIFEST.schema.json")))
    print("MANIFEST.json valid;", len(checks), "claimed,", len(na), "not applicable")
except ImportError:
    print("jsonschema not available; written without validation")
